//! The line protocol of C20 (see lean/AndaVerif/Drv/C20.lean), answer lines, and the generators.
use vh_common::Rng;

#[derive(Clone, Debug, PartialEq)]
pub struct RowSpec {
    pub prop: usize,
    pub actor: Option<u32>,
    pub evs: Vec<u32>,
    /// `s` support, `r` reject, `u` anything else
    pub stance: char,
    /// numerator over the policy's `den`; negative = unstated
    pub conf: i64,
    /// `o s i p h m`, `?` = unparsable
    pub mode: char,
    /// `a r s e`, `x` = unknown
    pub status: char,
    pub visible: bool,
    pub from: Option<u32>,
    pub until: Option<u32>,
}

#[derive(Clone, Debug, PartialEq)]
pub struct PolicySpec {
    pub base: char,
    pub custom: bool,
    pub version: u64,
    pub den: u64,
    pub accept: i64,
    pub material: i64,
    pub unstated: i64,
    pub expand: bool,
    pub modes: String,
}

impl PolicySpec {
    pub fn baseline() -> Self {
        PolicySpec { base: 'b', custom: false, version: 1, den: 10, accept: 7, material: 3, unstated: 5, expand: true, modes: "osim".into() }
    }
    pub fn id(&self) -> String {
        format!("{}{}", if self.base == 'f' { "kip:policy:forecast" } else { "kip:policy:baseline" }, if self.custom { "+custom" } else { "" })
    }
}

#[derive(Clone, Debug, PartialEq)]
pub enum Op {
    Reset,
    Route(String),
    Policy(PolicySpec),
    Settings { k: u64, name: String, accept: String, material: String, modes: String },
    Now(u32),
    Slot { functional: bool, props: Vec<usize> },
    A(RowSpec),
    Raise(usize, i64),
    Status(usize, char),
    /// `retract <ordinal> <t|->`: RETRACT at instant t (store route: `retracted_at`/`updated_at` = t; KML: wall clock)
    Retract(usize, Option<u32>),
    /// `supersede <old> <new> <t|->`: SUPERSEDE old BY new at instant t
    Supersede(usize, usize, Option<u32>),
    /// `spell <k>`: how the KML route writes the evaluation instant in `FOR TIME` (model: no effect)
    Spell(u32),
    /// `norm <text>`: `time::normalize` on a timestamp text
    Norm(String),
    Project(usize),
    SlotProject,
    Bad(String),
}

fn opt(s: &str) -> Option<Option<u32>> {
    if s == "-" { Some(None) } else { s.parse().ok().map(Some) }
}
fn list<T: std::str::FromStr>(s: &str) -> Option<Vec<T>> {
    if s == "-" || s.is_empty() { return Some(vec![]) }
    s.split(',').map(|x| x.parse().ok()).collect()
}
fn show_opt(o: Option<u32>) -> String {
    o.map(|v| v.to_string()).unwrap_or_else(|| "-".into())
}
pub fn show_list<T: std::fmt::Display>(xs: &[T]) -> String {
    if xs.is_empty() { "-".into() } else { vh_common::join(xs.iter(), ",") }
}
fn one_char(s: &str, allowed: &str) -> Option<char> {
    let mut it = s.chars();
    let c = it.next()?;
    if it.next().is_some() || !allowed.contains(c) { return None }
    Some(c)
}
fn bit(s: &str) -> Option<bool> {
    match s { "0" => Some(false), "1" => Some(true), _ => None }
}

impl Op {
    pub fn parse(line: &str) -> Op {
        let w: Vec<&str> = line.split(' ').filter(|t| !t.is_empty()).collect();
        let bad = || Op::Bad(line.to_string());
        let parsed: Option<Op> = (|| match w.as_slice() {
            ["reset"] => Some(Op::Reset),
            ["route", r] => Some(Op::Route(r.to_string())),
            ["policy", base, custom, ver, den, acc, mat, uns, exp, modes] => {
                let den: u64 = den.parse().ok()?;
                if den == 0 { return None }
                let modes = if *modes == "-" || *modes == "e" { String::new() } else { modes.to_string() };
                if !modes.chars().all(|c| "osiphm".contains(c)) { return None }
                Some(Op::Policy(PolicySpec { base: one_char(base, "bf")?, custom: bit(custom)?, version: ver.parse().ok()?, den, accept: acc.parse().ok()?, material: mat.parse().ok()?, unstated: uns.parse().ok()?, expand: bit(exp)?, modes }))
            }
            ["settings", k, name, acc, mat, modes] => {
                let k: u64 = k.parse().ok()?;
                if k == 0 { return None }
                one_char(name, "-bfux")?;
                for t in [acc, mat] {
                    if *t != "-" && *t != "x" { t.parse::<i64>().ok()?; }
                }
                Some(Op::Settings { k, name: name.to_string(), accept: acc.to_string(), material: mat.to_string(), modes: modes.to_string() })
            }
            ["now", t] => Some(Op::Now(t.parse().ok()?)),
            ["slot", f, ps] => Some(Op::Slot { functional: bit(f)?, props: list(ps)? }),
            ["a", prop, actor, evs, stance, conf, mode, status, visible, from, until] => Some(Op::A(RowSpec {
                prop: prop.parse().ok()?,
                actor: opt(actor)?,
                evs: list(evs)?,
                stance: one_char(stance, "sru")?,
                conf: conf.parse().ok()?,
                mode: one_char(mode, "osiphm?")?,
                status: one_char(status, "arsex")?,
                visible: bit(visible)?,
                from: opt(from)?,
                until: opt(until)?,
            })),
            ["raise", i, c] => Some(Op::Raise(i.parse().ok()?, c.parse().ok()?)),
            ["status", i, s] => Some(Op::Status(i.parse().ok()?, one_char(s, "arsex")?)),
            ["retract", i, t] => Some(Op::Retract(i.parse().ok()?, opt(t)?)),
            ["supersede", i, j, t] => Some(Op::Supersede(i.parse().ok()?, j.parse().ok()?, opt(t)?)),
            ["spell", k] => Some(Op::Spell(k.parse().ok()?)),
            ["norm", text] => Some(Op::Norm(text.to_string())),
            ["project", t] => Some(Op::Project(t.parse().ok()?)),
            ["slotproject"] => Some(Op::SlotProject),
            _ => None,
        })();
        parsed.unwrap_or_else(bad)
    }

    pub fn render(&self) -> String {
        match self {
            Op::Reset => "reset".into(),
            Op::Route(r) => format!("route {r}"),
            Op::Policy(p) => format!("policy {} {} {} {} {} {} {} {} {}", p.base, p.custom as u8, p.version, p.den, p.accept, p.material, p.unstated, p.expand as u8, if p.modes.is_empty() { "-" } else { &p.modes }),
            Op::Settings { k, name, accept, material, modes } => format!("settings {k} {name} {accept} {material} {modes}"),
            Op::Now(t) => format!("now {t}"),
            Op::Slot { functional, props } => format!("slot {} {}", *functional as u8, show_list(props)),
            Op::A(r) => format!("a {} {} {} {} {} {} {} {} {} {}", r.prop, show_opt(r.actor), show_list(&r.evs), r.stance, r.conf, r.mode, r.status, r.visible as u8, show_opt(r.from), show_opt(r.until)),
            Op::Raise(i, c) => format!("raise {i} {c}"),
            Op::Status(i, s) => format!("status {i} {s}"),
            Op::Retract(i, t) => format!("retract {i} {}", show_opt(*t)),
            Op::Supersede(i, j, t) => format!("supersede {i} {j} {}", show_opt(*t)),
            Op::Spell(k) => format!("spell {k}"),
            Op::Norm(t) => format!("norm {t}"),
            Op::Project(t) => format!("project {t}"),
            Op::SlotProject => "slotproject".into(),
            Op::Bad(l) => l.clone(),
        }
    }

    pub fn name(&self) -> &'static str {
        match self {
            Op::Reset => "reset", Op::Route(_) => "route", Op::Policy(_) => "policy", Op::Settings { .. } => "settings",
            Op::Now(_) => "now", Op::Slot { .. } => "slot", Op::A(_) => "a", Op::Raise(..) => "raise", Op::Status(..) => "status", Op::Retract(..) => "retract", Op::Supersede(..) => "supersede",
            Op::Spell(_) => "spell", Op::Norm(_) => "norm", Op::Project(_) => "project", Op::SlotProject => "slotproject", Op::Bad(_) => "bad",
        }
    }
}

// ---------------------------------------------------------------------------------------------
// answers
// ---------------------------------------------------------------------------------------------

#[derive(Clone, Debug)]
pub enum Score {
    F(f64),
    Q(i128, i128),
}
impl Score {
    pub fn value(&self) -> f64 {
        match self { Score::F(f) => *f, Score::Q(n, d) => *n as f64 / *d as f64 }
    }
    fn parse(s: &str) -> Option<Score> {
        if let Some((n, d)) = s.split_once('/') {
            Some(Score::Q(n.parse().ok()?, d.parse().ok()?))
        } else {
            s.parse().ok().map(Score::F)
        }
    }
}

/// One projected belief, as a line: `[p=<prop>] st= sup= sg= opp= og= S= O= U= X= pol= at=`.
#[derive(Clone, Debug)]
pub struct Ans {
    pub prop: Option<usize>,
    pub st: String,
    pub sup: Score,
    pub sg: u64,
    pub opp: Score,
    pub og: u64,
    pub s: Vec<usize>,
    pub o: Vec<usize>,
    pub u: Vec<usize>,
    pub x: Vec<(usize, String)>,
    pub pol: String,
    pub at: u32,
}

impl Ans {
    pub fn parse(line: &str) -> Option<Ans> {
        let mut a = Ans { prop: None, st: String::new(), sup: Score::F(0.0), sg: 0, opp: Score::F(0.0), og: 0, s: vec![], o: vec![], u: vec![], x: vec![], pol: String::new(), at: 0 };
        let mut seen = 0;
        for tok in line.split(' ').filter(|t| !t.is_empty()) {
            let (k, v) = tok.split_once('=')?;
            match k {
                "p" => a.prop = Some(v.parse().ok()?),
                "st" => { a.st = v.to_string(); seen += 1 }
                "sup" => { a.sup = Score::parse(v)?; seen += 1 }
                "sg" => { a.sg = v.parse().ok()?; seen += 1 }
                "opp" => { a.opp = Score::parse(v)?; seen += 1 }
                "og" => { a.og = v.parse().ok()?; seen += 1 }
                "S" => a.s = list(v)?,
                "O" => a.o = list(v)?,
                "U" => a.u = list(v)?,
                "X" => {
                    if v != "-" {
                        for item in v.split(';') {
                            let (i, r) = item.split_once(':')?;
                            a.x.push((i.parse().ok()?, r.to_string()));
                        }
                    }
                }
                "pol" => a.pol = v.to_string(),
                "at" => a.at = v.parse().ok()?,
                _ => return None,
            }
        }
        if seen == 5 { Some(a) } else { None }
    }

    pub fn render(&self) -> String {
        let score = |s: &Score| match s { Score::F(f) => format!("{f:?}"), Score::Q(n, d) => format!("{n}/{d}") };
        let x = if self.x.is_empty() { "-".to_string() } else { self.x.iter().map(|(i, r)| format!("{i}:{r}")).collect::<Vec<_>>().join(";") };
        format!(
            "{}st={} sup={} sg={} opp={} og={} S={} O={} U={} X={} pol={} at={}",
            self.prop.map(|p| format!("p={p} ")).unwrap_or_default(), self.st, score(&self.sup), self.sg, score(&self.opp), self.og,
            show_list(&self.s), show_list(&self.o), show_list(&self.u), x, self.pol, self.at
        )
    }

    /// The same answer with Assertion ordinals mapped through `f`.
    pub fn renumbered(&self, f: &dyn Fn(usize) -> usize) -> Ans {
        let mut a = self.clone();
        for v in [&mut a.s, &mut a.o, &mut a.u] {
            for i in v.iter_mut() { *i = f(*i) }
        }
        for (i, _) in a.x.iter_mut() { *i = f(*i) }
        a
    }

    /// Order-insensitive view of the ledger.
    pub fn sets(&self) -> (Vec<usize>, Vec<usize>, Vec<usize>, Vec<(usize, String)>) {
        let sort = |v: &Vec<usize>| { let mut v = v.clone(); v.sort(); v };
        let mut x = self.x.clone();
        x.sort();
        (sort(&self.s), sort(&self.o), sort(&self.u), x)
    }

    pub fn render_sets(&self) -> String {
        let (s, o, u, x) = self.sets();
        format!("st={} sup={} sg={} opp={} og={} S={:?} O={:?} U={:?} X={:?}", self.st, self.sup.value(), self.sg, self.opp.value(), self.og, s, o, u, x)
    }
}

// ---------------------------------------------------------------------------------------------
// generators
// ---------------------------------------------------------------------------------------------

fn subsets3() -> Vec<Vec<u32>> {
    (0..8u32).map(|m| (0..3).filter(|b| m >> b & 1 == 1).collect()).collect()
}

/// Every sequence of `from..=n` supporting Assertions over 3 actors x the 8 subsets of 3 Evidence
/// ids (24 key shapes; sequences, so every recording order of every multiset occurs), confidences
/// fixed by position. With `canonical`, only sequences in which actors and Evidence ids appear in
/// first-occurrence order (one representative per renaming class: the code only compares keys for
/// equality).
pub fn exhaustive_group_cases(n: usize, canonical: bool, from: usize, emit: &mut dyn FnMut(Vec<String>)) {
    let shapes: Vec<(u32, Vec<u32>)> = (0..3u32).flat_map(|a| subsets3().into_iter().map(move |e| (a, e))).collect();
    // off the thresholds (30, 70 of 100), so that the status is compared exactly
    let confs = [31i64, 62, 44, 73, 55, 27];
    for len in from.max(1)..=n {
        let total = shapes.len().pow(len as u32);
        'seq: for code0 in 0..total {
            let mut code = code0;
            let mut seq = Vec::with_capacity(len);
            for _ in 0..len {
                seq.push(&shapes[code % shapes.len()]);
                code /= shapes.len();
            }
            if canonical {
                let (mut next_a, mut next_e) = (0u32, 0u32);
                for (a, e) in &seq {
                    if *a > next_a { continue 'seq }
                    if *a == next_a { next_a += 1 }
                    for x in e {
                        if *x > next_e { continue 'seq }
                        if *x == next_e { next_e += 1 }
                    }
                }
            }
            let mut lines = vec!["policy b 0 1 100 70 30 50 1 osim".to_string(), "slot 0 0".to_string()];
            for (pos, (a, e)) in seq.iter().enumerate() {
                lines.push(Op::A(RowSpec { prop: 0, actor: Some(*a), evs: e.clone(), stance: 's', conf: confs[pos % confs.len()], mode: 's', status: 'a', visible: true, from: None, until: None }).render());
            }
            lines.push("project 0".into());
            emit(lines);
        }
    }
}

/// k groups that look independent, then Assertions that bridge some of them, recorded in a random
/// order (the shape in which an off-by-one of the merge loop shows).
pub fn bridge_case(rng: &mut Rng) -> Vec<String> {
    let pol = random_policy(rng);
    let d = pol.den as i64;
    let mode = pol.modes.chars().next().unwrap_or('s');
    let mut lines = vec![Op::Policy(pol.clone()).render(), "slot 0 0".to_string()];
    let k = rng.range(2, 5) as u32;
    let stance = if rng.chance(1, 3) { 'r' } else { 's' };
    let mut rows = Vec::new();
    for g in 0..k {
        rows.push(RowSpec { prop: 0, actor: Some(g), evs: vec![g], stance, conf: rng.range(0, d), mode, status: 'a', visible: true, from: None, until: None });
    }
    for b in 0..rng.range(1, 2) as u32 {
        let mut evs: Vec<u32> = (0..k).filter(|_| rng.chance(1, 2)).collect();
        if evs.len() < 2 { evs = vec![0, k - 1] }
        let actor = if rng.chance(1, 3) { Some(rng.below(k as u64) as u32) } else { Some(20 + b) };
        rows.push(RowSpec { prop: 0, actor, evs, stance, conf: rng.range(0, d), mode, status: 'a', visible: true, from: None, until: None });
    }
    rng.shuffle(&mut rows);
    for r in rows { lines.push(Op::A(r).render()) }
    lines.push("project 0".into());
    lines
}

fn random_policy(rng: &mut Rng) -> PolicySpec {
    let den = *rng.pick(&[10u64, 10, 20, 100]);
    let d = den as i64;
    let (mut accept, mut material) = (rng.range(0, d), rng.range(0, d));
    if rng.chance(8, 10) {
        // the usual shape: material <= accept, away from the extremes
        accept = rng.range(d / 2, d);
        material = rng.range(0, accept);
    }
    if rng.chance(1, 12) { material = accept }
    if rng.chance(1, 25) { accept = 0 }
    if rng.chance(1, 25) { material = 0 }
    let unstated = if rng.chance(9, 10) { rng.range(0, d) } else { rng.range(-3, d + 3) };
    let all = ['o', 's', 'i', 'p', 'h', 'm'];
    let modes: String = if rng.chance(6, 10) { "osim".into() } else if rng.chance(1, 4) { "pi".into() } else { all.iter().filter(|_| rng.chance(1, 2)).collect() };
    PolicySpec { base: if rng.chance(1, 5) { 'f' } else { 'b' }, custom: rng.chance(1, 3), version: rng.range(1, 3) as u64, den, accept, material, unstated, expand: rng.chance(8, 10), modes }
}

pub fn random_row(rng: &mut Rng, nprops: usize, pol: &PolicySpec, nactors: u32, nevs: u32, clean: bool) -> RowSpec {
    let d = pol.den as i64;
    let prop = if nprops > 1 && rng.chance(4, 10) { rng.usize(nprops) } else { 0 };
    let actor = if rng.chance(1, 12) { None } else { Some(rng.below(nactors as u64) as u32) };
    let mut evs: Vec<u32> = (0..nevs).filter(|_| rng.chance(1, 3)).collect();
    if rng.chance(1, 15) && !evs.is_empty() { let e = evs[0]; evs.push(e) } // a duplicate citation
    let stance = match rng.below(20) { 0..=10 => 's', 11..=15 => 'r', _ => 'u' };
    let conf = match rng.below(12) { 0 => -1, 1 => 0, 2 => d, 3 => d + 2, 4 => pol.accept.clamp(0, d), 5 => pol.material.clamp(0, d), _ => rng.range(0, d) };
    let admitted: Vec<char> = pol.modes.chars().collect();
    let mode = if !admitted.is_empty() && (clean || rng.chance(8, 10)) { *rng.pick(&admitted) } else { *rng.pick(&['o', 's', 'i', 'p', 'h', 'm', '?']) };
    let status = if clean || rng.chance(8, 10) { 'a' } else { *rng.pick(&['r', 's', 'e', 'x']) };
    let visible = clean || !rng.chance(1, 15);
    let from = if !clean && rng.chance(1, 5) { Some(rng.below(10) as u32) } else { None };
    let until = if !clean && rng.chance(1, 5) { Some(rng.below(10) as u32) } else { None };
    RowSpec { prop, actor, evs, stance, conf, mode, status, visible, from, until }
}

/// A random history through the store route.
pub fn random_case(rng: &mut Rng, i: u64) -> Vec<String> {
    if i % 5 == 4 {
        return bridge_case(rng);
    }
    let mut lines = Vec::new();
    let pol = if rng.chance(1, 6) { PolicySpec::baseline() } else { random_policy(rng) };
    let use_settings = rng.chance(1, 8);
    let mut pol = pol;
    if use_settings {
        // Policy::from_settings: the thresholds are numerators over 10*k
        let k = *rng.pick(&[1u64, 2, 10]);
        let d = 10 * k as i64;
        let t = |rng: &mut Rng| match rng.below(8) { 0 | 1 | 2 => "-".to_string(), 3 => "x".into(), 4 => (d + 1).to_string(), 5 => "-1".into(), _ => rng.range(0, d).to_string() };
        let name = *rng.pick(&["-", "-", "b", "f", "u", "x"]);
        let modes = match rng.below(6) { 0 => "e".to_string(), 1 => "os?".into(), 2 => "ph".into(), 3 => "osimph".into(), _ => "-".into() };
        let (acc, mat) = (t(rng), t(rng));
        lines.push(Op::Settings { k, name: name.into(), accept: acc.clone(), material: mat.clone(), modes: modes.clone() }.render());
        // what the generator believes the resulting policy is only steers the row generator
        pol = PolicySpec::baseline();
        pol.den = d as u64;
        pol.accept = acc.parse().unwrap_or(7 * k as i64);
        pol.material = mat.parse().unwrap_or(3 * k as i64);
        pol.unstated = 5 * k as i64;
        if name == "f" { pol.modes = "pi".into() }
        if modes != "-" && modes != "e" { pol.modes = modes.replace('?', "") }
    } else {
        lines.push(Op::Policy(pol.clone()).render());
    }
    if rng.chance(1, 2) { lines.push(format!("now {}", rng.below(10))) }
    let nprops = *rng.pick(&[1usize, 1, 2, 2, 3]);
    let functional = nprops > 1 && rng.chance(3, 4) || rng.chance(1, 4);
    lines.push(Op::Slot { functional, props: (0..nprops).collect() }.render());
    let small = i % 3 == 0;
    let (nactors, nevs) = if small { (3, 3) } else { (*rng.pick(&[2u32, 4, 6]), *rng.pick(&[2u32, 4, 6])) };
    let maxrows = if small { 5 } else if pol.den >= 100 { 9 } else { 12 };
    let n = rng.usize(maxrows + 1);
    let clean = rng.chance(1, 3);
    for _ in 0..n {
        lines.push(Op::A(random_row(rng, nprops, &pol, nactors, nevs, clean)).render());
    }
    // RETRACT / SUPERSEDE with an explicit instant before, at or after the evaluation instants
    // (lifecycle exclusion must not depend on when the claim was withdrawn)
    if n > 0 && rng.chance(1, 3) {
        let rows: Vec<RowSpec> = lines.iter().filter_map(|l| if let Op::A(r) = Op::parse(l) { Some(r) } else { None }).collect();
        for _ in 0..rng.range(1, 2) {
            let i = rng.usize(n);
            let t = match rng.below(5) { 0 => None, 1 => Some(0), _ => Some(rng.below(14) as u32) };
            let same: Vec<usize> = (0..n).filter(|j| *j != i && rows[*j].prop == rows[i].prop).collect();
            if !same.is_empty() && rng.chance(1, 2) {
                lines.push(Op::Supersede(i, *rng.pick(&same), t).render());
            } else {
                lines.push(Op::Retract(i, t).render());
            }
        }
    }
    let target = if rng.chance(3, 4) { 0 } else { rng.usize(nprops) };
    match rng.below(10) {
        0 => lines.push("slotproject".into()),
        1 => {
            // a lifecycle change between two projections
            lines.push(format!("project {target}"));
            if n > 0 {
                lines.push(format!("status {} {}", rng.usize(n), rng.pick(&['r', 's', 'e', 'a', 'x'])));
                lines.push(format!("project {target}"));
            }
        }
        2 => {
            // moving evaluation time across the windows
            for t in [0u32, 3, 6, 9] {
                lines.push(format!("now {t}"));
                lines.push(format!("project {target}"));
            }
        }
        _ => lines.push(format!("project {target}")),
    }
    lines
}

/// A history for the KML/KQL route: everything it contains is expressible through commands
/// (`CREATE ASSERTION`, `SET STRUCTURAL ("evidence", …)`, `valid_time`, `RETRACT ASSERTION`,
/// `WITH EPISTEMIC {accept, material, policy, modes}`, `FOR TIME`).
pub fn random_kml_case(rng: &mut Rng) -> Vec<String> {
    // `kml`: evaluation instants in 2030 (after the wall-clock lifecycle changes);
    // `kml-past`: evaluation instants in 2020 (before them) - validity windows cover them either way
    let mut lines = vec![if rng.chance(1, 2) { "route kml".to_string() } else { "route kml-past".to_string() }];
    let k = 10u64;
    let d = 100i64;
    let mut pol = PolicySpec::baseline();
    pol.den = 100;
    pol.accept = 70;
    pol.material = 30;
    pol.unstated = 50;
    if rng.chance(1, 2) {
        let acc = rng.range(50, d);
        let mat = rng.range(0, acc);
        let name = *rng.pick(&["-", "b", "f"]);
        lines.push(Op::Settings { k, name: name.into(), accept: acc.to_string(), material: mat.to_string(), modes: "-".into() }.render());
        pol.accept = acc;
        pol.material = mat;
        if name == "f" { pol.modes = "pi".into() }
    } else {
        lines.push(Op::Settings { k, name: "-".into(), accept: "-".into(), material: "-".into(), modes: "-".into() }.render());
    }
    lines.push(format!("now {}", rng.below(10)));
    let nprops = *rng.pick(&[1usize, 2, 2]);
    let functional = nprops > 1 && rng.chance(3, 4);
    lines.push(Op::Slot { functional, props: (0..nprops).collect() }.render());
    let n = rng.usize(6) + 1;
    for _ in 0..n {
        let mut r = random_row(rng, nprops, &pol, 3, 3, false);
        // what KML cannot write: unknown status / stance, invisible state, out-of-range confidence,
        // superseded/expired status (no command sets them on an arbitrary row), unattributed rows
        r.status = 'a';
        r.visible = true;
        if r.actor.is_none() { r.actor = Some(0) }
        if r.mode == '?' { r.mode = 'h' }
        r.conf = r.conf.clamp(-1, d);
        r.evs.sort();
        r.evs.dedup();
        if let (Some(f), Some(u)) = (r.from, r.until) && f >= u { r.until = None }
        lines.push(Op::A(r).render());
    }
    if rng.chance(2, 3) {
        let rows: Vec<RowSpec> = lines.iter().filter_map(|l| if let Op::A(r) = Op::parse(l) { Some(r) } else { None }).collect();
        let i = rng.usize(n);
        let same: Vec<usize> = (0..n).filter(|j| *j != i && rows[*j].prop == rows[i].prop).collect();
        if !same.is_empty() && rng.chance(1, 2) {
            lines.push(Op::Supersede(i, *rng.pick(&same), None).render());
        } else {
            lines.push(Op::Retract(i, None).render());
        }
    }
    if rng.chance(1, 4) { lines.push("slotproject".into()) } else { lines.push("project 0".into()) }
    lines
}

/// Number of spellings of one instant the KML route knows (see `world::spell_instant`).
pub const SPELLINGS: u32 = 12;

/// A history for the route `kml-spell`: validity windows with sub-second edges (the clock ticks in
/// 250 ms), the evaluation instant just inside / exactly on / just outside an edge, and `FOR TIME`
/// written in one of the equivalent spellings of that instant (offsets crossing the day, 0/1/3/6/9
/// fractional digits, `+00:00`, lowercase). The harness re-runs the history under every spelling.
pub fn random_kml_spell_case(rng: &mut Rng) -> Vec<String> {
    let mut lines = vec!["route kml-spell".to_string()];
    let mut pol = PolicySpec::baseline();
    pol.den = 100; pol.accept = 70; pol.material = 30; pol.unstated = 50;
    lines.push(Op::Settings { k: 10, name: "-".into(), accept: "-".into(), material: "-".into(), modes: "-".into() }.render());
    let nprops = *rng.pick(&[1usize, 1, 2]);
    let functional = nprops > 1 && rng.chance(3, 4);
    lines.push(Op::Slot { functional, props: (0..nprops).collect() }.render());
    // edges: ticks 4..36 (1 tick = 250 ms, so 3 of 4 edges are sub-second)
    let n = rng.usize(4) + 1;
    let mut edges = Vec::new();
    for _ in 0..n {
        let mut r = random_row(rng, nprops, &pol, 3, 3, true);
        r.conf = r.conf.clamp(-1, 100);
        r.evs.sort(); r.evs.dedup();
        if r.actor.is_none() { r.actor = Some(0) }
        let a = 4 + rng.below(30) as u32;
        match rng.below(4) {
            0 => { r.from = Some(a); edges.push(a) }
            1 => { r.until = Some(a); edges.push(a) }
            _ => { let b = a + 1 + rng.below(6) as u32; r.from = Some(a); r.until = Some(b); edges.push(a); edges.push(b) }
        }
        lines.push(Op::A(r).render());
    }
    lines.push(Op::Spell(rng.below(SPELLINGS as u64) as u32).render());
    // just before, exactly on, just after one edge (and sometimes a second one)
    for _ in 0..rng.range(1, 2) {
        let e = *rng.pick(&edges);
        for t in [e - 1, e, e + 1] {
            lines.push(format!("now {t}"));
            if rng.chance(1, 5) { lines.push("slotproject".into()) } else { lines.push(format!("project {}", rng.usize(nprops))) }
        }
    }
    lines
}
