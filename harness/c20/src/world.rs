//! The real code: one in-memory Cognitive Nexus per worker; every case gets fresh Propositions.
//!
//! Store route: Assertion rows are written with the public `Store::insert` / `Store::update`, and
//! projected with the public `kql::Context::project_belief` / `project_slot` under a `Policy`
//! built directly (all fields are public) or by `Policy::from_settings`.
//! KML route: everything goes through `CognitiveNexus::execute` (parser, KML transaction, KQL).
use crate::ops::*;
use anda_cognitive_nexus::governance::{AuthContext, EffectiveAuthority};
use anda_cognitive_nexus::id::ElementId;
use anda_cognitive_nexus::kql::Context;
use anda_cognitive_nexus::nexus::DEFAULT_SPACE;
use anda_cognitive_nexus::projection::{Belief, Policy};
use anda_cognitive_nexus::rows::{AssertionRow, PropositionRow};
use anda_cognitive_nexus::schema::{PackageState, SchemaLock, SchemaPackage};
use anda_cognitive_nexus::{CognitiveNexus, Element, WriteContext};
use anda_db::database::{AndaDB, DBConfig};
use anda_kip::{AssertionMode, Executor, Json, Map, Request, TopLevelStatus};
use object_store::memory::InMemory;
use std::collections::HashMap;
use std::panic::{AssertUnwindSafe, catch_unwind};
use std::sync::Arc;
use vh_common::serde_json::{self, json};

const PROFILE_ID: &str = "kip://profiles/cognitive-memory";

/// A package with a functional and a non-functional predicate (the shipped profile has no
/// functional one), as in the repo's own tests/belief.rs.
const STATUS_PACKAGE: &str = r#"{
    "format": "KIP-Schema-Package",
    "manifest": {"package_id": "kip://test/status", "version": "1.0.0"},
    "definitions": {
        "concept_types": {
            "Service": {"kind": "ConceptType", "description": "A service."},
            "Status": {"kind": "ConceptType", "description": "A status value."}
        },
        "predicates": {
            "status": {"kind": "PredicateType", "description": "Single-valued.", "functional": true, "open_world": true},
            "mentions": {"kind": "PredicateType", "description": "Non-functional reference.", "functional": false}
        }
    }
}"#;

pub fn ts(t: u32) -> String {
    format!("2030-01-01T00:{:02}:{:02}.000Z", t / 60, t % 60)
}
/// The same clock, but before the wall clock (route `kml-past`).
pub fn ts_in(past: bool, t: u32) -> String {
    if past { format!("2020-01-01T00:{:02}:{:02}.000Z", t / 60, t % 60) } else { ts(t) }
}
// ---------------------------------------------------------------------------------------------
// instants and their spellings (route `kml-spell`); independent of the engine and of the model
// ---------------------------------------------------------------------------------------------

/// 2030-06-15T20:30:00Z: `+08:00` lands on the next day, `-08:00` on the same day, other hour
pub const SPELL_BASE_MS: i64 = 1_907_785_800_000;
pub const SPELL_TICK_MS: i64 = 250;

fn civil_from_days(z: i64) -> (i64, i64, i64) {
    let z = z + 719_468;
    let era = z.div_euclid(146_097);
    let doe = z.rem_euclid(146_097);
    let yoe = (doe - doe / 1460 + doe / 36_524 - doe / 146_096) / 365;
    let doy = doe - (365 * yoe + yoe / 4 - yoe / 100);
    let mp = (5 * doy + 2) / 153;
    let d = doy - (153 * mp + 2) / 5 + 1;
    let m = if mp < 10 { mp + 3 } else { mp - 9 };
    (yoe + era * 400 + if m <= 2 { 1 } else { 0 }, m, d)
}
fn days_from_civil(y: i64, m: i64, d: i64) -> i64 {
    let y = if m <= 2 { y - 1 } else { y };
    let era = y.div_euclid(400);
    let yoe = y.rem_euclid(400);
    let mp = (m + 9) % 12;
    let doy = (153 * mp + 2) / 5 + d - 1;
    era * 146_097 + yoe * 365 + yoe / 4 - yoe / 100 + doy - 719_468
}

/// Wall-clock fields of the instant `ms` seen at UTC offset `off_min`.
fn wall(ms: i64, off_min: i64) -> (i64, i64, i64, i64, i64, i64, i64) {
    let local = ms + off_min * 60_000;
    let (days, rem) = (local.div_euclid(86_400_000), local.rem_euclid(86_400_000));
    let (y, m, d) = civil_from_days(days);
    (y, m, d, rem / 3_600_000, rem / 60_000 % 60, rem / 1000 % 60, rem % 1000)
}

/// The canonical stored spelling of an instant.
pub fn canonical(ms: i64) -> String {
    let (y, m, d, hh, mi, ss, f) = wall(ms, 0);
    format!("{y:04}-{m:02}-{d:02}T{hh:02}:{mi:02}:{ss:02}.{f:03}Z")
}

/// Strict reader of the canonical spelling (anything else is not canonical): milliseconds.
pub fn canonical_ms(s: &str) -> Option<i64> {
    let b = s.as_bytes();
    if b.len() != 24 || b[4] != b'-' || b[7] != b'-' || b[10] != b'T' || b[13] != b':' || b[16] != b':' || b[19] != b'.' || b[23] != b'Z' { return None }
    let num = |r: std::ops::Range<usize>| -> Option<i64> { let t = &s[r]; if t.bytes().all(|c| c.is_ascii_digit()) { t.parse().ok() } else { None } };
    let (y, m, d, hh, mi, ss, f) = (num(0..4)?, num(5..7)?, num(8..10)?, num(11..13)?, num(14..16)?, num(17..19)?, num(20..23)?);
    if !(1..=12).contains(&m) || d < 1 || d > 31 || hh > 23 || mi > 59 || ss > 59 { return None }
    Some(days_from_civil(y, m, d) * 86_400_000 + hh * 3_600_000 + mi * 60_000 + ss * 1000 + f)
}

/// Spelling `k` of the instant `ms` (all denote the same instant; an inapplicable one falls back
/// to the canonical spelling).
pub fn spell_instant(ms: i64, k: u32) -> String {
    let with = |off: i64, frac: &dyn Fn(i64) -> String, sep: char, zulu: &str| -> String {
        let (y, m, d, hh, mi, ss, f) = wall(ms, off);
        let zone = if off == 0 { zulu.to_string() } else { format!("{}{:02}:{:02}", if off < 0 { '-' } else { '+' }, off.abs() / 60, off.abs() % 60) };
        format!("{y:04}-{m:02}-{d:02}{sep}{hh:02}:{mi:02}:{ss:02}{}{zone}", frac(f))
    };
    let f3 = |f: i64| format!(".{f:03}");
    let shortest = |f: i64| if f == 0 { String::new() } else { format!(".{}", format!("{f:03}").trim_end_matches('0')) };
    match k {
        1 => with(0, &f3, 'T', "+00:00"),
        2 => with(480, &f3, 'T', "Z"),
        3 => with(-480, &f3, 'T', "Z"),
        4 => with(330, &f3, 'T', "Z"),
        5 => with(0, &shortest, 'T', "Z"),
        6 => with(0, &|f| format!(".{f:03}000"), 'T', "Z"),
        7 => with(0, &|f| format!(".{f:03}000000"), 'T', "Z"),
        8 => with(0, &f3, 't', "z"),
        9 => with(-570, &shortest, 'T', "Z"),
        10 => with(840, &|f| format!(".{f:03}000"), 'T', "Z"),
        11 => with(0, &shortest, 'T', "-00:00"),
        _ => canonical(ms),
    }
}

fn ts_back(s: &str) -> u32 {
    let m: u32 = s.get(14..16).and_then(|x| x.parse().ok()).unwrap_or(99);
    let sec: u32 = s.get(17..19).and_then(|x| x.parse().ok()).unwrap_or(99);
    m * 60 + sec
}

fn mode_of(c: char) -> Option<AssertionMode> {
    Some(match c {
        'o' => AssertionMode::Observed,
        's' => AssertionMode::Stated,
        'i' => AssertionMode::Inferred,
        'p' => AssertionMode::Predicted,
        'h' => AssertionMode::Hypothetical,
        'm' => AssertionMode::Imported,
        _ => return None,
    })
}
fn mode_name(c: char) -> &'static str {
    match c { 'o' => "observed", 's' => "stated", 'i' => "inferred", 'p' => "predicted", 'h' => "hypothetical", 'm' => "imported", _ => "guessed" }
}
fn mode_char(m: &AssertionMode) -> char {
    match m {
        AssertionMode::Observed => 'o', AssertionMode::Stated => 's', AssertionMode::Inferred => 'i',
        AssertionMode::Predicted => 'p', AssertionMode::Hypothetical => 'h', AssertionMode::Imported => 'm',
    }
}
fn stance_name(c: char) -> &'static str {
    match c { 's' => "support", 'r' => "reject", _ => "uncertain" }
}
fn status_name(c: char) -> &'static str {
    match c { 'a' => "active", 'r' => "retracted", 's' => "superseded", 'e' => "expired", _ => "under_review" }
}

fn real_policy(p: &PolicySpec) -> Policy {
    let d = p.den as f64;
    Policy {
        id: p.id(),
        version: p.version,
        modes: p.modes.chars().filter_map(mode_of).collect(),
        accept: p.accept as f64 / d,
        material: p.material as f64 / d,
        unstated_confidence: p.unstated as f64 / d,
        expand_conflicts: p.expand,
    }
}

fn render_policy(p: &Policy, den: u64) -> String {
    let n = |x: f64| (x * den as f64).round() as i64;
    let modes: String = p.modes.iter().map(mode_char).collect();
    format!("{}@{} den={} accept={} material={} unstated={} expand={} modes={}", p.id, p.version, den, n(p.accept), n(p.material), n(p.unstated_confidence), p.expand_conflicts as u8, if modes.is_empty() { "-".into() } else { modes })
}

pub struct World {
    rt: tokio::runtime::Runtime,
    inner: Inner,
}

struct Inner {
    nexus: CognitiveNexus,
    auth: AuthContext,
    authority: EffectiveAuthority,
    tmpl_functional: PropositionRow,
    tmpl_plain: PropositionRow,
    wcx: WriteContext,
    counter: u64,
    kml_counter: u64,
}

/// Per-case state of the store route.
struct CaseState {
    policy: Policy,
    den: u64,
    now: u32,
    functional: bool,
    subject_key: String,
    props: HashMap<usize, ElementId>,
    prop_of: HashMap<String, usize>,
    rows: Vec<AssertionRow>,
    ord_of: HashMap<String, usize>,
    past: bool,
    /// route `kml-spell`: ticks of 250 ms from SPELL_BASE_MS, `FOR TIME` written in spelling `spelling`
    spell_route: bool,
    spelling: u32,
    /// KML route: prop ordinal -> (subject concept id, value concept id, predicate name)
    kml_terms: HashMap<usize, (String, String, &'static str)>,
}

impl CaseState {
    /// the stored (canonical) text of clock value `t`
    fn stored(&self, t: u32) -> String {
        if self.spell_route { canonical(SPELL_BASE_MS + t as i64 * SPELL_TICK_MS) } else { ts_in(self.past, t) }
    }
    /// the text the caller writes after `FOR TIME`
    fn asked(&self, t: u32) -> String {
        if self.spell_route { spell_instant(SPELL_BASE_MS + t as i64 * SPELL_TICK_MS, self.spelling) } else { ts_in(self.past, t) }
    }
    /// the clock value an answer's `valid_at` denotes (it must be canonical)
    fn clock_of(&self, valid_at: &str) -> u32 {
        if self.spell_route {
            match canonical_ms(valid_at) {
                Some(ms) if ms >= SPELL_BASE_MS && (ms - SPELL_BASE_MS) % SPELL_TICK_MS == 0 => ((ms - SPELL_BASE_MS) / SPELL_TICK_MS) as u32,
                _ => 99_999,
            }
        } else if canonical_ms(valid_at).is_some() { ts_back(valid_at) } else { 99_999 }
    }
}

impl World {
    pub fn new(rt: tokio::runtime::Runtime) -> World {
        let inner = rt.block_on(Inner::new());
        World { rt, inner }
    }

    /// Drops the database and starts a fresh one (memory stays bounded over long runs).
    pub fn recycle(&mut self) {
        self.inner = self.rt.block_on(Inner::new());
    }

    /// One output line per op; a panic inside the code under test yields `panic` lines.
    pub fn run(&mut self, ops: &[Op]) -> Vec<String> {
        let n = ops.len();
        let (rt, inner) = (&self.rt, &mut self.inner);
        match catch_unwind(AssertUnwindSafe(|| rt.block_on(inner.run(ops)))) {
            Ok(v) => v,
            Err(_) => vec!["panic".to_string(); n],
        }
    }

    pub fn run_kml(&mut self, ops: &[Op]) -> Vec<String> {
        let n = ops.len();
        let (rt, inner) = (&self.rt, &mut self.inner);
        match catch_unwind(AssertUnwindSafe(|| rt.block_on(inner.run_kml(ops)))) {
            Ok(v) => v,
            Err(_) => vec!["panic".to_string(); n],
        }
    }
}

async fn exec(nexus: &CognitiveNexus, command: &str, params: Json) -> Result<Json, String> {
    let request: Request = serde_json::from_value(json!({"kip": "2.0", "operations": [{"command": command, "parameters": params}]})).map_err(|e| e.to_string())?;
    let parsed = request.operations[0].parse().map_err(|e| format!("parse: {e:?}"))?;
    let response = nexus.execute(parsed, &request, &request.operations[0]).await;
    if response.status != TopLevelStatus::Succeeded {
        return Err(response.error.as_ref().map(|e| format!("{}: {}", e.code.as_str(), e.message)).unwrap_or_else(|| "failed".into()));
    }
    Ok(response.first_result().cloned().unwrap_or(Json::Null))
}

impl Inner {
    async fn new() -> Inner {
        let db = AndaDB::connect(Arc::new(InMemory::new()), DBConfig { name: "vh_c20".into(), description: "C20 harness".into(), ..Default::default() }).await.expect("db");
        let nexus = CognitiveNexus::connect(Arc::new(db)).await.expect("nexus");
        for source in [anda_cognitive_nexus::profiles::COGNITIVE_MEMORY, STATUS_PACKAGE] {
            nexus.install_package(&SchemaPackage::parse(source).expect("package"), "vh").await.expect("install");
        }
        let mut lock = SchemaLock::default();
        for (id, version) in [(PROFILE_ID, "2.0.0"), ("kip://test/status", "1.0.0")] {
            lock.packages.insert(id.to_string(), version.to_string());
            lock.states.insert(id.to_string(), PackageState::Active);
        }
        nexus.activate_schema(DEFAULT_SPACE, lock).await.expect("activate");
        let result = exec(&nexus, r#"MUTATE {
            CREATE CONCEPT ?svc { TYPE "Service" NAME "template" }
            CREATE CONCEPT ?v { TYPE "Status" NAME "template-value" }
            ENSURE PROPOSITION ?pf (?svc, "status", ?v)
            ENSURE PROPOSITION ?pn (?svc, "mentions", ?v)
        }"#, json!({})).await.expect("templates");
        let handle = |name: &str| -> ElementId { result["handles"][name].as_str().expect("handle").parse().expect("id") };
        let Ok(Element::Proposition(tmpl_functional)) = nexus.store.get_element(handle("pf")).await else { panic!("template") };
        let Ok(Element::Proposition(tmpl_plain)) = nexus.store.get_element(handle("pn")).await else { panic!("template") };
        let session = nexus.system_session();
        let authority = session.effective_authority(DEFAULT_SPACE).await.expect("authority");
        let wcx = WriteContext { space: DEFAULT_SPACE.to_string(), tx_id: "vh-c20".into(), seq: tmpl_plain.seq + 1, at: ts(0), origin: tmpl_plain.origin.clone() };
        Inner { nexus, auth: AuthContext::system(), authority, tmpl_functional: *tmpl_functional, tmpl_plain: *tmpl_plain, wcx, counter: 0, kml_counter: 0 }
    }

    async fn new_proposition(&mut self, functional: bool, subject_key: &str) -> ElementId {
        self.counter += 1;
        let mut row = if functional { self.tmpl_functional.clone() } else { self.tmpl_plain.clone() };
        row.subject_key = subject_key.to_string();
        row.object_key = format!("vh:object:{}", self.counter);
        row.tuple_key = format!("vh:tuple:{}", self.counter);
        row.state = String::new();
        self.nexus.store.insert(&self.wcx, &mut row).await.expect("insert proposition")
    }

    async fn prop(&mut self, cs: &mut CaseState, p: usize) -> ElementId {
        if let Some(id) = cs.props.get(&p) {
            return *id;
        }
        // a Proposition outside the declared slot lives in a slot of its own
        self.counter += 1;
        let key = format!("vh:lonely:{}", self.counter);
        let id = self.new_proposition(false, &key).await;
        cs.props.insert(p, id);
        cs.prop_of.insert(id.to_string(), p);
        id
    }

    fn render(&self, cs: &CaseState, b: &Belief, with_prop: bool) -> String {
        let j = b.to_json();
        // the struct fields and the JSON must tell the same story
        debug_assert_eq!(Some(b.support), j["support"]["score"].as_f64());
        debug_assert_eq!(Some(b.opposition), j["opposition"]["score"].as_f64());
        let prop = if with_prop { Some(cs.prop_of.get(&b.proposition.to_string()).copied().unwrap_or(usize::MAX)) } else { None };
        render_json(cs, &j, prop)
    }

    async fn run(&mut self, ops: &[Op]) -> Vec<String> {
        let mut out = Vec::with_capacity(ops.len());
        let mut cs = self.fresh_case();
        for op in ops {
            let line = match op {
                Op::Reset => { cs = self.fresh_case(); "ok".to_string() }
                Op::Route(_) | Op::Spell(_) => "ok".into(),
                Op::Norm(text) => norm_line(text),
                Op::Policy(p) => { cs.policy = real_policy(p); cs.den = p.den; "ok".into() }
                Op::Settings { k, name, accept, material, modes } => {
                    let den = 10 * k;
                    match Policy::from_settings(&settings_map(den, name, accept, material, modes)) {
                        Ok(p) => { cs.policy = p; cs.den = den; format!("ok {}", render_policy(&cs.policy, den)) }
                        Err(e) => match e.name() {
                            "ProjectionPolicyUnavailable" => "err:unavailable".into(),
                            "TypeMismatch" => "err:type".into(),
                            "InvalidSyntax" => "err:invalid".into(),
                            other => format!("err:{other}"),
                        },
                    }
                }
                Op::Now(t) => { cs.now = *t; "ok".into() }
                Op::Slot { functional, props } => {
                    self.counter += 1;
                    cs.functional = *functional;
                    cs.subject_key = format!("vh:subject:{}", self.counter);
                    for p in props {
                        if !cs.props.contains_key(p) {
                            let key = cs.subject_key.clone();
                            let id = self.new_proposition(*functional, &key).await;
                            cs.props.insert(*p, id);
                            cs.prop_of.insert(id.to_string(), *p);
                        }
                    }
                    "ok".into()
                }
                Op::A(r) => {
                    let pid = self.prop(&mut cs, r.prop).await;
                    let d = cs.den as f64;
                    let mut row = AssertionRow {
                        proposition_id: pid.to_string(),
                        asserted_by_key: r.actor.map(|a| format!("C-{}", 9000 + a)).unwrap_or_default(),
                        asserted_by: r.actor.map(|a| json!({"id": format!("C-{}", 9000 + a)})).unwrap_or(Json::Null),
                        stance: stance_name(r.stance).to_string(),
                        mode: if r.mode == '?' { "guessed".into() } else { mode_name(r.mode).to_string() },
                        confidence: if r.conf < 0 { -1.0 } else { r.conf as f64 / d },
                        valid_from: r.from.map(ts).unwrap_or_default(),
                        valid_until: r.until.map(ts).unwrap_or_default(),
                        evidence_ids: r.evs.iter().map(|e| format!("E-{}", 7000 + e)).collect(),
                        status: status_name(r.status).to_string(),
                        state: if r.visible { String::new() } else { "archived".to_string() },
                        ..Default::default()
                    };
                    let id = self.nexus.store.insert(&self.wcx, &mut row).await.expect("insert assertion");
                    cs.ord_of.insert(id.to_string(), cs.rows.len());
                    cs.rows.push(row);
                    "ok".into()
                }
                Op::Raise(i, c) => {
                    if let Some(row) = cs.rows.get_mut(*i) {
                        row.confidence = if *c < 0 { -1.0 } else { *c as f64 / cs.den as f64 };
                        self.nexus.store.update(&self.wcx, row).await.expect("update assertion");
                    }
                    "ok".into()
                }
                Op::Status(i, s) => {
                    if let Some(row) = cs.rows.get_mut(*i) {
                        row.status = status_name(*s).to_string();
                        self.nexus.store.update(&self.wcx, row).await.expect("update assertion");
                    }
                    "ok".into()
                }
                Op::Retract(i, t) => {
                    // what RETRACT ASSERTION writes, with the instant chosen by the case
                    if let Some(row) = cs.rows.get_mut(*i) {
                        let at = ts(t.unwrap_or(0));
                        row.status = "retracted".to_string();
                        row.retracted_at = if t.is_some() { at.clone() } else { String::new() };
                        let cx = WriteContext { at, ..self.wcx.clone() };
                        self.nexus.store.update(&cx, row).await.expect("update assertion");
                    }
                    "ok".into()
                }
                Op::Supersede(i, j, t) => {
                    // what SUPERSEDE ASSERTION writes: both rows change in one commit at one instant
                    if *j < cs.rows.len() && i != j && *i < cs.rows.len() {
                        let at = ts(t.unwrap_or(0));
                        let cx = WriteContext { at: at.clone(), ..self.wcx.clone() };
                        let old_id = ElementId::new(anda_kip::ElementKind::Assertion, cs.rows[*i]._id).to_string();
                        let new_id = ElementId::new(anda_kip::ElementKind::Assertion, cs.rows[*j]._id).to_string();
                        let old = &mut cs.rows[*i];
                        old.status = "superseded".to_string();
                        if !old.superseded_by.contains(&new_id) { old.superseded_by.push(new_id) }
                        self.nexus.store.update(&cx, old).await.expect("update assertion");
                        let new = &mut cs.rows[*j];
                        if !new.supersedes.contains(&old_id) { new.supersedes.push(old_id) }
                        if t.is_some() { new.asserted_at = at }
                        self.nexus.store.update(&cx, new).await.expect("update assertion");
                    }
                    "ok".into()
                }
                Op::Project(t) => {
                    let pid = self.prop(&mut cs, *t).await;
                    let mut cx = Context::open(&self.nexus.store, DEFAULT_SPACE, None, None, &self.authority, &self.auth).await.expect("context");
                    match cx.project_belief(pid, &cs.policy, &ts(cs.now)).await {
                        Ok(b) => self.render(&cs, &b, false),
                        Err(e) => format!("err:{}", e.name()),
                    }
                }
                Op::SlotProject => {
                    if cs.subject_key.is_empty() {
                        "-".into()
                    } else {
                        let predicate = if cs.functional { self.tmpl_functional.predicate_ref.clone() } else { self.tmpl_plain.predicate_ref.clone() };
                        let mut cx = Context::open(&self.nexus.store, DEFAULT_SPACE, None, None, &self.authority, &self.auth).await.expect("context");
                        match cx.project_slot(&cs.subject_key, &predicate, &cs.policy, &ts(cs.now)).await {
                            Ok(bs) if bs.is_empty() => "-".into(),
                            Ok(bs) => {
                                let summary = anda_cognitive_nexus::projection::slot_to_json(&cs.subject_key, &predicate, &bs);
                                bs.iter().map(|b| self.render(&cs, b, true)).collect::<Vec<_>>().join(" | ") + &render_slot_summary(&cs, &summary)
                            }
                            Err(e) => format!("err:{}", e.name()),
                        }
                    }
                }
                Op::Bad(_) => "bad-op".into(),
            };
            out.push(line);
        }
        out
    }

    fn fresh_case(&self) -> CaseState {
        CaseState {
            policy: Policy::baseline(), den: 10, now: 0, functional: false, subject_key: String::new(),
            props: HashMap::new(), prop_of: HashMap::new(), rows: Vec::new(), ord_of: HashMap::new(), past: false, spell_route: false, spelling: 0, kml_terms: HashMap::new(),
        }
    }

    // -----------------------------------------------------------------------------------------
    // KML / KQL route
    // -----------------------------------------------------------------------------------------

    /// One subject with one Proposition per listed number, through `MUTATE`.
    async fn kml_slot(&mut self, cs: &mut CaseState, tag: &str, functional: bool, props: &[usize]) -> Result<String, String> {
        let predicate = if functional { "status" } else { "mentions" };
        let mut cmd = format!("MUTATE {{\n CREATE CONCEPT ?svc {{ TYPE \"Service\" NAME \"svc-{tag}\" }}\n");
        for p in props {
            cmd.push_str(&format!(" CREATE CONCEPT ?v{p} {{ TYPE \"Status\" NAME \"val-{tag}-{p}\" }}\n ENSURE PROPOSITION ?p{p} (?svc, \"{predicate}\", ?v{p})\n"));
        }
        cmd.push('}');
        let res = exec(&self.nexus, &cmd, json!({})).await?;
        let svc = res["handles"]["svc"].as_str().unwrap_or("").to_string();
        for p in props {
            if let Some(Ok(id)) = res["handles"][format!("p{p}")].as_str().map(|s| s.parse::<ElementId>()) {
                cs.props.insert(*p, id);
                cs.prop_of.insert(id.to_string(), *p);
                cs.kml_terms.insert(*p, (svc.clone(), res["handles"][format!("v{p}")].as_str().unwrap_or("").to_string(), predicate));
            }
        }
        Ok(svc)
    }

    /// The same ops, but every write is a KML command and every read a KQL `FIND … BELIEF`.
    async fn run_kml(&mut self, ops: &[Op]) -> Vec<String> {
        self.kml_counter += 1;
        let tag = format!("k{}", self.kml_counter);
        let mut out = Vec::with_capacity(ops.len());
        let mut cs = self.fresh_case();
        let mut epistemic = String::new();
        let mut subject_id = String::new();
        let mut actors: HashMap<u32, String> = HashMap::new();
        let mut evidence: HashMap<u32, String> = HashMap::new();
        let mut assertion_ids: Vec<String> = Vec::new();
        'ops: for op in ops {
            let line: String = match op {
                Op::Route(r) => { cs.past = r == "kml-past"; cs.spell_route = r == "kml-spell"; "ok".into() }
                Op::Spell(k) => { cs.spelling = *k; "ok".into() }
                Op::Norm(text) => norm_line(text),
                Op::Reset => "ok".into(),
                Op::Settings { k, name, accept, material, modes } => {
                    let den = 10 * k;
                    cs.den = den;
                    // the block as command text; what it evaluates to is observed through the answers
                    let mut parts = Vec::new();
                    match name.as_str() { "b" => parts.push("policy: \"baseline\"".to_string()), "f" => parts.push("policy: \"forecast\"".to_string()), _ => {} }
                    if let Ok(a) = accept.parse::<i64>() { parts.push(format!("accept: {}", a as f64 / den as f64)) }
                    if let Ok(m) = material.parse::<i64>() { parts.push(format!("material: {}", m as f64 / den as f64)) }
                    if modes != "-" {
                        parts.push(format!("modes: [{}]", modes.chars().map(|c| format!("\"{}\"", mode_name(c))).collect::<Vec<_>>().join(", ")));
                    }
                    epistemic = if parts.is_empty() { String::new() } else { format!(" WITH EPISTEMIC {{{}}}", parts.join(", ")) };
                    match Policy::from_settings(&settings_map(den, name, accept, material, modes)) {
                        Ok(p) => format!("ok {}", render_policy(&p, den)),
                        Err(_) => "err".into(),
                    }
                }
                Op::Now(t) => { cs.now = *t; "ok".into() }
                Op::Slot { functional, props } => {
                    cs.functional = *functional;
                    match self.kml_slot(&mut cs, &tag, *functional, props).await {
                        Ok(svc) => { subject_id = svc; "ok".into() }
                        Err(e) => format!("err:slot {e}"),
                    }
                }
                Op::A(r) => {
                    // actors and Evidence are created on first use
                    let a = r.actor.unwrap_or(0);
                    if !actors.contains_key(&a) {
                        match exec(&self.nexus, &format!("MUTATE {{ CREATE CONCEPT ?c {{ TYPE \"Person\" NAME \"actor-{tag}-{a}\" }} }}"), json!({})).await {
                            Ok(res) => { actors.insert(a, res["handles"]["c"].as_str().unwrap_or("").to_string()); }
                            Err(e) => { out.push(format!("err:actor {e}")); continue 'ops }
                        }
                    }
                    for e in &r.evs {
                        if !evidence.contains_key(e) {
                            match exec(&self.nexus, &format!("MUTATE {{ CREATE EVIDENCE ?e {{ SET FIELDS {{evidence_class: \"message\", payload: \"obs-{tag}-{e}\"}} }} }}"), json!({})).await {
                                Ok(res) => { evidence.insert(*e, res["handles"]["e"].as_str().unwrap_or("").to_string()); }
                                Err(err) => { out.push(format!("err:evidence {err}")); continue 'ops }
                            }
                        }
                    }
                    if !cs.props.contains_key(&r.prop) {
                        let _ = self.kml_slot(&mut cs, &format!("{tag}-lonely{}", r.prop), false, &[r.prop]).await;
                    }
                    let Some(pid) = cs.props.get(&r.prop).copied() else { out.push("err:prop".into()); continue 'ops };
                    let mut fields = format!("proposition: :p, asserted_by: :actor, stance: \"{}\", mode: \"{}\"", stance_name(r.stance), mode_name(r.mode));
                    if r.conf >= 0 { fields.push_str(&format!(", confidence: {}", r.conf as f64 / cs.den as f64)) }
                    if r.from.is_some() || r.until.is_some() {
                        let mut vt = Vec::new();
                        if let Some(f) = r.from { vt.push(format!("from: \"{}\"", cs.stored(f))) }
                        if let Some(u) = r.until { vt.push(format!("until: \"{}\"", cs.stored(u))) }
                        fields.push_str(&format!(", valid_time: {{{}}}", vt.join(", ")));
                    }
                    let mut params = Map::new();
                    params.insert("p".into(), json!(pid.to_string()));
                    params.insert("actor".into(), json!(actors[&a]));
                    let mut structural = String::new();
                    if !r.evs.is_empty() {
                        let refs: Vec<String> = r.evs.iter().map(|e| { params.insert(format!("e{e}"), json!(evidence[e])); format!("(\"evidence\", :e{e}) {{role: \"support\"}}") }).collect();
                        structural = format!(" SET STRUCTURAL {{ {} }}", refs.join(" "));
                    }
                    let cmd = format!("MUTATE {{ CREATE ASSERTION ?a {{ SET FIELDS {{ {fields} }}{structural} }} }}");
                    match exec(&self.nexus, &cmd, Json::Object(params)).await {
                        Ok(res) => {
                            let id = res["handles"]["a"].as_str().unwrap_or("").to_string();
                            cs.ord_of.insert(id.clone(), assertion_ids.len());
                            assertion_ids.push(id);
                            "ok".into()
                        }
                        Err(e) => format!("err:assert {e}"),
                    }
                }
                Op::Supersede(i, j, _) => match (assertion_ids.get(*i), assertion_ids.get(*j)) {
                    (Some(a), Some(b)) if i != j => match exec(&self.nexus, "SUPERSEDE ASSERTION :a BY :b", json!({"a": a, "b": b})).await { Ok(_) => "ok".into(), Err(e) => format!("err:supersede {e}") },
                    _ => "ok".into(),
                },
                Op::Status(i, 'r') | Op::Retract(i, _) => match assertion_ids.get(*i) {
                    Some(id) => match exec(&self.nexus, "RETRACT ASSERTION :a", json!({"a": id})).await { Ok(_) => "ok".into(), Err(e) => format!("err:retract {e}") },
                    None => "ok".into(),
                },
                Op::Project(t) => {
                    if !cs.props.contains_key(t) {
                        let _ = self.kml_slot(&mut cs, &format!("{tag}-lonely{t}"), false, &[*t]).await;
                    }
                    let Some(pid) = cs.props.get(t).copied() else { out.push("err:prop".into()); continue 'ops };
                    // the three spellings of a BELIEF target: by id, through a bound variable, as a tuple
                    let at = cs.asked(cs.now);
                    let form = (self.kml_counter as usize + out.len()) % 3;
                    let (cmd, params) = match (form, cs.kml_terms.get(t)) {
                        (1, _) => (format!("FIND(?b) WHERE {{ ?p PROPOSITION (id: :p) ?b BELIEF (?p) }} FOR TIME \"{at}\"{epistemic}"), json!({"p": pid.to_string()})),
                        (2, Some((svc, val, pred))) => (format!("FIND(?b) WHERE {{ ?b BELIEF (:s, \"{pred}\", :o) }} FOR TIME \"{at}\"{epistemic}"), json!({"s": svc, "o": val})),
                        _ => (format!("FIND(?b) WHERE {{ ?b BELIEF (id: :p) }} FOR TIME \"{at}\"{epistemic}"), json!({"p": pid.to_string()})),
                    };
                    match exec(&self.nexus, &cmd, params).await {
                        Ok(res) => res.as_array().and_then(|a| a.first()).map(|j| render_json(&cs, j, None)).unwrap_or_else(|| "err:empty".into()),
                        Err(e) => format!("err:find(form {form}) {e}"),
                    }
                }
                Op::SlotProject if subject_id.is_empty() => "-".into(),
                Op::SlotProject => {
                    let predicate = if cs.functional { "status" } else { "mentions" };
                    let cmd = format!("FIND(?slot) WHERE {{ ?slot BELIEF SLOT (:svc, \"{predicate}\") }} FOR TIME \"{}\"{epistemic}", cs.asked(cs.now));
                    match exec(&self.nexus, &cmd, json!({"svc": subject_id})).await {
                        Ok(res) => {
                            let projections = res.as_array().and_then(|a| a.first()).and_then(|s| s["candidate_projections"].as_array().cloned()).unwrap_or_default();
                            if projections.is_empty() { "-".into() } else {
                                let summary = res.as_array().and_then(|a| a.first()).cloned().unwrap_or(Json::Null);
                                projections.iter().map(|j| { let p = cs.prop_of.get(j["proposition_id"].as_str().unwrap_or("")).copied(); render_json(&cs, j, Some(p.unwrap_or(usize::MAX))) }).collect::<Vec<_>>().join(" | ") + &render_slot_summary(&cs, &summary)
                            }
                        }
                        Err(e) => format!("err:find {e}"),
                    }
                }
                other => format!("err:not-expressible-in-kml {}", other.name()),
            };
            out.push(line);
        }
        out
    }
}

/// `time::normalize` on a text: `ok <ms since the epoch>` (the result must be canonical) or `err`.
fn norm_line(text: &str) -> String {
    match anda_cognitive_nexus::time::normalize(text, "FOR TIME") {
        Ok(stored) => match canonical_ms(&stored) { Some(ms) => format!("ok {ms}"), None => format!("ok not-canonical:{stored}") },
        Err(_) => "err".into(),
    }
}

/// ` | slot accepted=<props> contested=<0|1>` from the object `slot_to_json` builds.
fn render_slot_summary(cs: &CaseState, slot: &Json) -> String {
    let accepted: Vec<usize> = slot["accepted_values"].as_array().map(|a| a.iter().map(|x| cs.prop_of.get(x.as_str().unwrap_or("")).copied().unwrap_or(usize::MAX)).collect()).unwrap_or_else(|| vec![usize::MAX]);
    let contested = match slot["contested"].as_bool() { Some(true) => "1", Some(false) => "0", None => "?" };
    format!(" | slot accepted={} contested={}", show_list(&accepted), contested)
}

fn render_json(cs: &CaseState, j: &Json, prop: Option<usize>) -> String {
    let ids = |v: &Json| -> Vec<usize> {
        v.as_array().map(|a| a.iter().map(|x| cs.ord_of.get(x.as_str().unwrap_or("")).copied().unwrap_or(usize::MAX)).collect()).unwrap_or_default()
    };
    let x: Vec<(usize, String)> = j["explanation"]["excluded"].as_array().map(|a| {
        a.iter().map(|e| (cs.ord_of.get(e["assertion_id"].as_str().unwrap_or("")).copied().unwrap_or(usize::MAX), e["reason"].as_str().unwrap_or("?").to_string())).collect()
    }).unwrap_or_default();
    Ans {
        prop,
        st: j["status"].as_str().unwrap_or("?").to_string(),
        sup: Score::F(j["support"]["score"].as_f64().unwrap_or(f64::NAN)),
        sg: j["support"]["independent_groups"].as_u64().unwrap_or(u64::MAX),
        opp: Score::F(j["opposition"]["score"].as_f64().unwrap_or(f64::NAN)),
        og: j["opposition"]["independent_groups"].as_u64().unwrap_or(u64::MAX),
        s: ids(&j["support"]["assertion_ids"]),
        o: ids(&j["opposition"]["assertion_ids"]),
        u: ids(&j["explanation"]["uncertain_assertions"]),
        x,
        pol: format!("{}@{}", j["policy"]["id"].as_str().unwrap_or("?"), j["policy"]["version"]),
        at: cs.clock_of(j["temporal"]["valid_at"].as_str().unwrap_or("")),
    }
    .render()
}

/// The settings block `Policy::from_settings` reads, from the op's tokens (resolution `den`).
fn settings_map(den: u64, name: &str, accept: &str, material: &str, modes: &str) -> Map<String, Json> {
    let mut m = Map::new();
    match name {
        "b" => { m.insert("policy".into(), json!("baseline")); }
        "f" => { m.insert("policy".into(), json!("forecast")); }
        "u" => { m.insert("policy".into(), json!("strict")); }
        "x" => { m.insert("policy".into(), json!(3)); }
        _ => {}
    }
    for (key, text) in [("accept", accept), ("material", material)] {
        if text == "x" {
            m.insert(key.into(), json!("high"));
        } else if let Ok(n) = text.parse::<i64>() {
            m.insert(key.into(), json!(n as f64 / den as f64));
        }
    }
    if modes != "-" {
        let list: Vec<Json> = if modes == "e" { vec![] } else { modes.chars().map(|c| json!(mode_name(c))).collect() };
        m.insert("modes".into(), Json::Array(list));
    }
    m
}
