#!/usr/bin/env python3
"""Regenerates corpus/C15/*.ops (hand-written edge cases of C15). Not used by bin/check; run by hand after editing."""
import os
OUT=os.path.join(os.path.dirname(os.path.abspath(__file__)), '..', '..', '..', 'corpus', 'C15')
for f in os.listdir(OUT):
    if f.endswith('.ops'): os.remove(os.path.join(OUT,f))
def hx(s): return '-' if s=='' else s.encode().hex()
def head(comment, mode, expect):
    return ['# '+c for c in comment.split('\n')]+[mode]+(['expect '+expect] if expect else [])
def raw(name, comment, parts, expect=None):
    lines=head(comment,'mode raw',expect)
    for p in parts:
        if isinstance(p, tuple): lines.append('rep %d %s'%(p[0], hx(p[1])))
        else:
            for i in range(0, len(p), 48):
                lines.append('b '+hx(p[i:i+48]))
    open(os.path.join(OUT,name+'.ops'),'w').write('\n'.join(lines)+'\n')
def tok(name, comment, flags, vseed, toks, expect=None):
    lines=head(comment,'mode tok %s %d'%(flags, vseed),expect)
    for t in toks:
        if t.startswith('K:'): lines.append('t K '+hx(t[2:]))
        else: lines.append('t T '+hx(t))
    open(os.path.join(OUT,name+'.ops'),'w').write('\n'.join(lines)+'\n')
def same(name, comment, key, inputs, expect=None):
    lines=head(comment,'mode same '+key,expect)+['s '+hx(x) for x in inputs]
    open(os.path.join(OUT,name+'.ops'),'w').write('\n'.join(lines)+'\n')
def T(s):
    out=[]
    for w in s.split(' '):
        if w.isalpha() and w.isupper(): out.append('K:'+w)
        else: out.append(w)
    return out
KELVIN='\u212a'

raw('01-trivia-only', 'only whitespace and comments: a syntax error, never a panic', [' \t\n// only a comment " ( {\n  //'], 'err:syntax')
raw('02-empty', 'the empty string', [], 'err:syntax')
raw('03-comment-with-quote-and-70-brackets', 'a single quote and 70 openers inside a comment must not reach the depth guard or latch a string',
    ['// " ', (70,'('), '\nFIND(?x) WHERE { ?x {a: 1} } // ', (70,'{')], 'ok')
raw('04-string-with-70-brackets', 'brackets inside a string are not nesting', ['DESCRIBE TYPE "', (70,'['), '\\" ', (70,'}'), '"'], 'ok')
raw('04b-escaped-quote-then-70-brackets-in-string', 'an escaped quote does not end the string: the 70 openers after it are still inside', ['DESCRIBE TYPE "\\" ', (70,'['), '"'], 'ok')
raw('04c-escaped-backslash-then-quote', 'an escaped backslash does not escape the quote that follows: the string ends, the 70 openers are code', ['DESCRIBE TYPE "\\\\" ', (70,'[')], 'err:too_deep')
raw('05-kelvin-sign-in-keywords', "tag_no_case folds case with Unicode to_lowercase: U+212A (Kelvin sign) matches K, and the match is then cut at the keyword's byte length.\nNo panic today: every keyword containing K has at least two letters after it, so the cut lands on a character boundary.",
    ['DESCRIBE PAC'+KELVIN+'AGE "x" // '+KELVIN+'EY '+KELVIN+'ML '+KELVIN+'QL CHEC'+KELVIN+'POINT\n'], 'err:syntax')
raw('06-kelvin-sign-checkpoint', 'VERIFY CHECKPOINT spelled with a Kelvin sign', ['VERIFY CHEC'+KELVIN+'POINT "c"'], 'err:syntax')
raw('07-length-exactly-the-limit', 'exactly 262144 bytes: accepted by the budget', ['DESCRIBE PRIMER', (262144-15,' ')], 'ok')
raw('08-length-limit-plus-one', '262145 bytes: refused as too long by every entry point', ['DESCRIBE PRIMER', (262144-14,' ')], 'err:too_long')
raw('09-length-multibyte-over-limit', '87400 characters of 3 bytes each: fewer characters than the limit, more bytes', ['DESCRIBE PRIMER //', (87400,'中')], 'err:too_long')
raw('10-absurd-depth', '100000 openers: refused by the pre-scan (a parser that tried would overflow any stack)', ['FIND(?x) WHERE { ?x { a: ', (100000,'['), ' } }'], 'err:too_deep')
raw('11-slash-then-quote', 'a single slash followed by a quote still opens a string for the pre-scan (and is a syntax error for the parser)', ['FIND(?x) WHERE { ?x {a: /"', (70,'('), '"} }'], 'err:syntax')
raw('12-nbsp-after-head-keyword', 'U+00A0 / U+3000 are whitespace for skip_ws_and_comments and not alphanumeric for word_boundary: parses, family kql', ['FIND (?x) WHERE　{ ?x {a: 1} }'], 'ok')
raw('13-nonascii-letter-glued-to-keyword', 'a non-ASCII letter glues to a keyword (word_boundary uses char::is_alphanumeric): refused', ['FINDé(?x) WHERE { ?x {a: 1} }'], 'err:syntax')
raw('14-negating-i64-min', 'the literal the code comment says used to abort the parser', ['UPDATE :t SET FIELDS { a: ADD(--9223372036854775808, - 9223372036854775808) }'], 'ok')
raw('15-unterminated-escape', 'input ends inside an escape inside a string', ['DESCRIBE TYPE "abc\\'], 'err:syntax')
raw('16-truncated-unicode-escape', 'truncated \\u escape', ['DESCRIBE TYPE "\\u12"'], 'err:syntax')
raw('17-lone-surrogate-escape', 'lone surrogate escape', ['DESCRIBE TYPE "\\ud83d"'], 'err:syntax')
raw('18-bom', 'a byte order mark is not whitespace', ['﻿DESCRIBE PRIMER'], 'err:syntax')

raw('19a-keyword-glued-to-variable', 'word_boundary: a keyword does not end where a ?variable begins without trivia (INTO?b is two tokens written as one): refused', ['UPDATE?x SET ATTRIBUTES { a: 1 } WHERE { ?x {type: "T"} }'], 'err:syntax')
raw('19b-keyword-glued-to-string', 'word_boundary: a keyword glued to a quoted string is refused', ['ARCHIVE"id-1"'], 'err:syntax')
raw('19c-keyword-glued-to-underscore', 'word_boundary: FIND_ is not FIND', ['FIND_(?x) WHERE { ?x {a: 1} }'], 'err:syntax')
raw('19d-keyword-glued-to-digit', 'word_boundary: LIST9 is not LIST', ['LIST9 TYPES'], 'err:syntax')
raw('19e-bracket-soup-mismatched-closers', 'a closer pops only its own opener: 70 times "[)" nests 70 deep for the pre-scan (and is a syntax error anyway)', ['DESCRIBE ACCESS WITH ', (70,'[)')], 'err:too_deep')
raw('19f-bracket-soup-matched', '70 times "[]" is depth 1', ['DESCRIBE ACCESS WITH ', (70,'[]')], 'err:syntax')
deep=lambda n: T('DESCRIBE ACCESS WITH')+sum([['{','a',':'] if i%2==0 else ['['] for i in range(n)],[])+['null']+[('}' if i%2==0 else ']') for i in reversed(range(n))]
tok('20-depth-64-accepted', 'bracket nesting exactly 64: accepted by the budget and parsed on the small stack\n(the tree is 64 levels of Object/Array, which also shows finding 31)', 'cm', 7, deep(64), 'ok')
tok('21-depth-65-refused', 'bracket nesting 65: refused before parsing (too_deep), in every variant', 'cm', 7, deep(65), 'err:too_deep')
nots=lambda n: T('FIND ( ?x ) WHERE { FILTER (')+['!']*n+['?x.a','==','1',')','}']
tok('22-not-chain-63', '63 negations: within the filter nesting budget', 'cm', 3, nots(63), 'ok')
tok('23-not-chain-65', '65 negations: refused by the filter depth ceiling (syntax error, not a stack overflow)', 'cm', 3, nots(65), 'err:syntax')
ands=lambda n: T('FIND ( ?x ) WHERE { FILTER (')+sum([(['&&'] if i else [])+['?x.a','==','1'] for i in range(n+1)],[])+[')','}']
tok('24-and-chain-64', '64 conjunctions', 'cm', 5, ands(64), 'ok')
tok('25-and-chain-5000', '5000 conjunctions: refused by the ceiling, no recursion', 'cm', 5, ands(5000), 'err:syntax')
tok('26-where-blocks-64', 'NOT/OPTIONAL/UNION blocks nested to depth 64', 'cm', 9,
    T('FIND ( ?x ) WHERE {')+sum([['K:'+['NOT','OPTIONAL','UNION'][i%3],'{'] for i in range(62)],[])+['?x','{','a',':','1','}']+['}']*62+['}'], 'ok')

# ---- confirmed findings on the unchanged tree (see notes/C15.md) -------------------------------
tok('30-regression-float-roundtrip', 'REGRESSION serde-roundtrip-changes-tree (fixed by /repo b661e8b: serde_json feature float_roundtrip). Before the fix the f64 stored for\nthis literal was encoded as 9.531619828187313 and decoded as 9.531619828187312. Silent now; fires with that key if the feature is dropped.',
    '-', 1, T('CHANGES AFTER SEQ :p LIMIT 9.53161982818731310'), 'ok')
tok('31-finding-serde-recursion-limit', "KNOWN FINDING serde-decode-recursion-limit: 33 bracket levels (the limit is 64) give a tree whose JSON nests deeper than serde_json::from_str's 128",
    '-', 1, deep(33), 'ok')
same('32-regression-unicode-whitespace-in-multiword-keyword', 'REGRESSION unicode-whitespace-changes-parse (fixed by /repo b2b3330: trivia1 uses char::is_whitespace). Before the fix the third spelling was refused\n(trivia1 used multispace1). Silent now; fires with that key if the fix is reverted. Lean: Props.C15.words_trivia_uniform.',
    'unicode-whitespace-changes-parse', ['DESCRIBE EXECUTION CONTEXT', 'DESCRIBE\u000cEXECUTION CONTEXT', 'DESCRIBE EXECUTION\u000cCONTEXT', 'DESCRIBE\u00a0EXECUTION\u2028CONTEXT', 'LIST STRUCTURAL\u0085FIELDS LIMIT 1'][:4], 'ok')
same('33-trivia-and-case-explicit', 'spellings of one command that must agree', 'trivia-changes-parse',
    ['FIND(?x) WHERE { ?x {type: "Drug"} } ORDER BY ?x.name DESC LIMIT 5',
     'find ( ?x )\n// c " ( {\nwhere{?x{type:"Drug"}}order//x\nby ?x.name desc limit 5 // end',
     '\tFiNd(?x)WhErE{?x {type : "Drug" ,}}\r\nOrDeR\tbY ?x.name DeSc\nLiMiT 5\n'], 'ok')
def words(name, comment, seps):
    lines=head(comment,'mode words',None)+['s '+hx(x) for x in seps]
    open(os.path.join(OUT,name+'.ops'),'w').write('\n'.join(lines)+'\n')
words('34-words-separators', 'trivia1 between the words of EXECUTION CONTEXT: model (matchWords) against the parser, separator by separator\n(space, form feed, NBSP, U+2028, comments and mixtures ok; empty, single slash, a letter in between no)',
    [' ', '\x0c', '//c\n', ' \x0c', '\x0c ', '', '\u00a0', '/', ' x ', '\t\r\n', '//', ' // " (\n\u3000', '\u2028'])
def jsn(name, comment, text_parts):
    lines=head(comment,'mode json',None)
    for p in text_parts:
        if isinstance(p, tuple): lines.append('rep %d %s'%(p[0], hx(p[1])))
        else:
            for i in range(0, len(p), 48): lines.append('b '+hx(p[i:i+48]))
    open(os.path.join(OUT,name+'.ops'),'w').write('\n'.join(lines)+'\n')
jsn('50-json-dialect', "parse_json against its Lean model: identifier and string keys, comments, trailing commas, every escape, -0, u64 max", [' { a: 1, "b\\u00e9\\ud83d\\ude00": [1.5, -0, 18446744073709551615, null, true, "\\n\\t\\/\\\\\\"", ], } // c'])
jsn('51-json-empty-array-with-comma', "quirk of separated_list0 + opt(comma): `[,]` is the empty array", ['[,]'])
jsn('52-json-double-comma', "`[1,,]` is refused (only one trailing comma is read)", ['[1,,]'])
jsn('53-json-duplicate-key-escaped', "duplicate keys are compared after unescaping: \\u0061 is a", ['{"\\u0061": 1, a: 2}'])
jsn('54-json-float-boundary-finite', "largest decimal that still rounds to a finite f64", ['[1.7976931348623158e308, 17976931348623158e292, 1e-400, 0e99999999999999999999]'])
jsn('55-json-float-boundary-overflow', "first decimal that rounds to infinity: refused", ['1.7976931348623159e308'])
jsn('56-json-number-forms-refused', "recognize_float accepts these lexemes, serde_json's strict grammar refuses them", ['[+1]'])
jsn('56b-json-number-trailing-dot', "`1.` is a recognize_float lexeme, not a JSON number", ['1.'])
jsn('56c-json-number-leading-zero', "`01`", ['01'])
jsn('56d-json-exponent-without-digits', "`1e` is a hard failure (cut)", ['[1e]'])
jsn('57-json-integer-out-of-range', "u64::MAX + 1 and i64::MIN - 1 are refused, not degraded to f64", ['[18446744073709551616]'])
jsn('57b-json-integer-i64-min', "i64::MIN itself is exact", ['-9223372036854775808'])
jsn('58-json-lone-surrogate', "lone high surrogate, high + non-low, sign in \\u", ['["\\ud83d\\u0041"]'])
jsn('58b-json-u-plus', "`\\u+041` is not four hex digits", ['"\\u+041"'])
jsn('59-json-depth-64', "64 levels: accepted, the model needs no more than limit + 2 fuel", [(64,'['),(64,']')])
jsn('59b-json-depth-65', "65 levels: refused before parsing", [(65,'['),(65,']')])
jsn('59c-json-control-char-in-string', "a raw tab inside a string is refused, DEL is fine", ['["a\tb"]'])
jsn('59d-json-literals-case', "TRUE is not a literal", ['[true, TRUE]'])
def oneof(name, comment, key, x, alts):
    lines=head(comment,'mode oneof '+key,None)+['x '+hx(x)]+['a '+hx(a) for a in alts]
    open(os.path.join(OUT,name+'.ops'),'w').write('\n'.join(lines)+'\n')
for i,(tn,t) in enumerate([('cr','\r'),('ff','\x0c'),('vt','\x0b'),('nel','\u0085'),('ls','\u2028'),('ps','\u2029'),('crlf','\r\n'),('lf','\n')]):
    nest='['*100+']'*100+','
    oneof('6%d-comment-terminator-%s'%(i,tn), 'where a // comment ends: `%s` after the comment body, then 100 nested brackets on the same line.\nThe text must be read as one of its two explicit spellings by the pre-scan and all five entry points together\n(only LF and the end of the input end a comment: everything else keeps the brackets inside the comment).'%tn,
        'comment-end-inconsistent', '[1, // c'+t+nest+'\n 2]', ['[1,  '+nest+'\n 2]', '[1, \n 2]'])
oneof('68-comment-terminator-kql-cr', 'the same through parse_kip / parse_kql', 'comment-end-inconsistent',
    'FIND(?x) WHERE { ?x { a : [ // c\r'+'['*100+']'*100+',\n 1 ] } }', ['FIND(?x) WHERE { ?x { a : [  '+'['*100+']'*100+',\n 1 ] } }', 'FIND(?x) WHERE { ?x { a : [ \n 1 ] } }'])
oneof('69-comment-at-eof-with-brackets', 'a comment that the end of the input terminates, full of brackets', 'comment-end-inconsistent',
    'DESCRIBE PRIMER // '+'['*100, ['DESCRIBE PRIMER'])
raw('40-mutate-3000-clauses', 'MEASURED: validate_plan clones the handle set once per clause: quadratic (1000 clauses 0.17 s, 2000 0.45 s, 4000 2.0 s, 8000 9.6 s for all entry points)',
    ['MUTATE{']+['CREATE CONCEPT ?h%x{}'%i for i in range(3000)]+['}'], 'ok')
print(len(os.listdir(OUT)))
