//! Grammar-derived sentence generator for KQL / KML / META, written from `KIPSyntax.md` and the
//! parser sources (`parser/{common,kql,kml,meta,json}.rs`).
//!
//! A sentence is a list of *tokens*. A token is the smallest unit between which the grammar admits
//! trivia (whitespace / `//` comments): `?name`, `:name`, a whole dot path `?x.a["k"].b`, a quoted
//! string, a number, a predicate atom with its glued hop quantifier `"p"{1,3}`, an operator
//! (`&&`, `!=`, …), a bracket, a comma, or one keyword. Keyword tokens (`kw == true`) stand only in
//! keyword positions, so flipping their case must not change the parse.

use vh_common::Rng;

#[derive(Clone, Debug, PartialEq, Eq)]
pub struct Tok {
    pub kw: bool,
    pub text: String,
}

pub struct Gen<'a> {
    pub r: &'a mut Rng,
    pub out: Vec<Tok>,
    /// grammar features used by this sentence (for the input-distribution histogram)
    pub feats: Vec<&'static str>,
    /// soft bound on recursion of the *random* parts (deep nests are built explicitly)
    pub fuel: i32,
    /// handles created so far in the current KML plan
    pub handles: Vec<String>,
    /// make deliberate rule violations (duplicate keys, protected fields, unbound handles, …)
    pub naughty: bool,
}

const IDENTS: &[&str] = &[
    "name", "type", "id", "key", "by", "mode", "status", "limit", "risk_level", "attributes", "facets", "x", "a1", "_t", "Value",
    "find", "where", "set", "description", "salience", "n", "confidence", "score", "kind",
];
const VARS: &[&str] = &["x", "drug", "a", "b", "c", "p", "e", "t", "s1", "_v", "claim", "alice"];
const PARAMS: &[&str] = &["p", "alice", "id", "page", "t", "old", "new", "limit", "dark_mode"];
const STRINGS: &[&str] = &[
    r#""Drug""#,
    r#""Person""#,
    r#""prefers""#,
    r#""is_class_of""#,
    r#""""#,
    r#""a//b""#,
    r#""// not a comment""#,
    r#""({[""#,
    r#""}])""#,
    r#""say \"hi\"""#,
    r#""back\\slash""#,
    r#""\\""#,
    r#""tab\tnl\n""#,
    r#""é中""#,
    r#""😀""#,
    "\"é漢😀\"",
    r#""/""#,
    r#""\/""#,
    r#""FIND(?x) WHERE {}""#,
    r#""P-1""#,
    r#""2026-01-01T00:00:00Z""#,
    r#""MnemonicState""#,
    r#""it's""#,
    r#""a\"//\"b""#,
];
const NUMBERS: &[&str] = &[
    "0", "-0", "1", "-7", "42", "3.14", "1e3", "-2.5E-3", "18446744073709551615", "-9223372036854775808", "9223372036854775807",
    "0.1", "0.30000000000000004", "1.7976931348623157e308", "5e-324", "4.35", "0.000001", "123456.789e-2", "1E+2", "100", "0.5",
    "2.2250738585072014e-308", "9007199254740993", "1.0", "-1.5e10", "6.02214076e23", "0.1e1",
];

impl<'a> Gen<'a> {
    pub fn new(r: &'a mut Rng, fuel: i32) -> Gen<'a> {
        Gen { r, out: Vec::new(), feats: Vec::new(), fuel, handles: Vec::new(), naughty: false }
    }
    fn feat(&mut self, f: &'static str) {
        if !self.feats.contains(&f) {
            self.feats.push(f);
        }
    }
    /// keyword(s): `"ORDER BY"` pushes two keyword tokens
    pub fn kw(&mut self, s: &str) {
        for w in s.split(' ') {
            self.out.push(Tok { kw: true, text: w.to_string() });
        }
    }
    pub fn t(&mut self, s: &str) {
        self.out.push(Tok { kw: false, text: s.to_string() });
    }
    fn chance(&mut self, n: u64, d: u64) -> bool {
        self.r.chance(n, d)
    }
    fn some_fuel(&mut self) -> bool {
        self.fuel -= 1;
        self.fuel > 0
    }

    // ---- lexical atoms ------------------------------------------------------------------------
    pub fn ident_s(&mut self) -> String {
        self.r.pick(IDENTS).to_string()
    }
    pub fn var_s(&mut self) -> String {
        format!("?{}", self.r.pick(VARS))
    }
    pub fn param_s(&mut self) -> String {
        format!(":{}", self.r.pick(PARAMS))
    }
    pub fn string_s(&mut self) -> String {
        if self.chance(1, 12) {
            // random printable content with the characters the pre-scan cares about
            let n = self.r.usize(12);
            let mut s = String::from("\"");
            for _ in 0..n {
                let c = *self.r.pick(&['a', 'Z', ' ', '/', '(', ')', '{', '}', '[', ']', ',', ':', '?', '!', '-', 'é', '中', '\'', '|', '.']);
                s.push(c);
            }
            s.push('"');
            s
        } else {
            self.r.pick(STRINGS).to_string()
        }
    }
    pub fn number_s(&mut self) -> String {
        if self.chance(1, 6) {
            // a random decimal with up to 17 significant digits (float round trip)
            let digits = 1 + self.r.usize(17);
            let mut s = String::new();
            if self.chance(1, 4) {
                s.push('-');
            }
            s.push_str(&format!("{}", self.r.below(10)));
            s.push('.');
            for _ in 0..digits {
                s.push_str(&format!("{}", self.r.below(10)));
            }
            if self.chance(1, 3) {
                s.push_str(&format!("e{}", self.r.range(-30, 30)));
            }
            s
        } else {
            self.r.pick(NUMBERS).to_string()
        }
    }
    pub fn literal_s(&mut self) -> String {
        match self.r.below(8) {
            0 => "true".into(),
            1 => "false".into(),
            2 => "null".into(),
            3 | 4 => self.number_s(),
            _ => self.string_s(),
        }
    }
    pub fn scalar(&mut self) {
        let s = if self.chance(1, 3) { self.param_s() } else { self.literal_s() };
        self.t(&s);
    }
    pub fn symbol_ref(&mut self) {
        let s = if self.chance(1, 4) { self.param_s() } else { self.string_s() };
        self.t(&s);
    }
    pub fn element_ref(&mut self) {
        let s = match self.r.below(3) {
            0 => self.var_s(),
            1 => self.param_s(),
            _ => self.string_s(),
        };
        self.t(&s);
    }
    /// an element reference that resolves in a KML plan: a created handle, a parameter or an id
    pub fn plan_ref(&mut self) {
        if self.naughty && self.chance(1, 3) {
            // a handle nothing creates or binds: only whole-plan validation can refuse it
            self.t("?ghost");
            self.feat("violation:unbound-handle");
            return;
        }
        let s = if !self.handles.is_empty() && self.chance(1, 2) {
            format!("?{}", self.r.pick(&self.handles.clone()))
        } else if self.chance(1, 2) {
            self.param_s()
        } else {
            self.string_s()
        };
        self.t(&s);
    }
    pub fn dot_path_s(&mut self, var: Option<&str>) -> String {
        let mut s = match var {
            Some(v) => format!("?{v}"),
            None => self.var_s(),
        };
        let n = self.r.usize(4);
        for _ in 0..n {
            if self.chance(1, 4) {
                s.push('[');
                s.push_str(&self.string_s());
                s.push(']');
                self.feat("path:key");
            } else {
                s.push('.');
                s.push_str(&self.ident_s());
            }
        }
        s
    }
    fn field_name(&mut self, used: &mut Vec<String>) -> String {
        for _ in 0..20 {
            let k = if self.chance(1, 6) { self.string_s() } else { self.ident_s() };
            let bare = k.trim_matches('"').to_string();
            let protected = ["_system", "governance", "space_id", "space_seq"].contains(&bare.as_str());
            if (!used.contains(&bare) && !protected && !k.contains('\\')) || self.naughty {
                used.push(bare);
                return k;
            }
        }
        let k = format!("k{}", used.len());
        used.push(k.clone());
        k
    }

    // ---- JSON-like values ---------------------------------------------------------------------
    /// `data_value`: parameter, handle / dot path, literal, array, object
    pub fn bound_value(&mut self, allow_vars: bool) {
        let deep = self.some_fuel();
        match self.r.below(if deep { 9 } else { 6 }) {
            0 => {
                let s = self.param_s();
                self.t(&s)
            }
            1 if allow_vars && !self.handles.is_empty() => {
                let h = self.r.pick(&self.handles.clone()).clone();
                self.t(&format!("?{h}"));
                self.feat("value:handle");
            }
            6 | 7 => {
                self.feat("value:array");
                self.t("[");
                let n = self.r.usize(4);
                for i in 0..n {
                    if i > 0 {
                        self.t(",");
                    }
                    self.bound_value(allow_vars);
                }
                if n > 0 && self.chance(1, 5) {
                    self.t(",");
                    self.feat("trailing-comma");
                }
                self.t("]");
            }
            8 => self.bound_object(allow_vars),
            _ => {
                let s = self.literal_s();
                self.t(&s)
            }
        }
    }
    pub fn bound_object(&mut self, allow_vars: bool) {
        self.feat("value:object");
        self.t("{");
        let n = self.r.usize(4);
        let mut used = Vec::new();
        for i in 0..n {
            if i > 0 {
                self.t(",");
            }
            let k = self.field_name(&mut used);
            self.t(&k);
            self.t(":");
            self.bound_value(allow_vars);
        }
        if n > 0 && self.chance(1, 5) {
            self.t(",");
            self.feat("trailing-comma");
        }
        self.t("}");
    }
    fn update_expr(&mut self, target: Option<&str>) {
        let deep = self.some_fuel();
        match self.r.below(if deep { 6 } else { 4 }) {
            0 => {
                let s = self.param_s();
                self.t(&s)
            }
            1 => {
                let s = self.number_s();
                self.t(&s)
            }
            2 => {
                self.t("-");
                let s = self.r.pick(&["1", "0.5", "9223372036854775808", "0", "2e3"]).to_string();
                self.t(&s);
                self.feat("expr:unary-minus");
            }
            3 => {
                let s = self.dot_path_s(target);
                self.t(&s)
            }
            _ => self.update_call(target),
        }
    }
    fn update_call(&mut self, target: Option<&str>) {
        self.feat("expr:update-fn");
        let (f, n) = *self.r.pick(&[("ADD", 2), ("MUL", 2), ("CLAMP", 3), ("COALESCE", 2)]);
        self.kw(f);
        self.t("(");
        let n = if self.naughty && self.chance(1, 3) { n + 1 } else { n };
        for i in 0..n {
            if i > 0 {
                self.t(",");
            }
            self.update_expr(target);
        }
        self.t(")");
    }
    /// `mutation_value`
    fn mutation_value(&mut self, target: Option<&str>) {
        if target.is_some() && self.chance(1, 4) {
            self.update_call(target);
        } else if target.is_some() && self.chance(1, 6) {
            let s = self.dot_path_s(target);
            self.t(&s);
        } else {
            self.bound_value(true);
        }
    }
    fn assignments(&mut self, target: Option<&str>) {
        self.t("{");
        let n = self.r.usize(4);
        let mut used = Vec::new();
        for i in 0..n {
            if i > 0 {
                self.t(",");
            }
            let k = if self.naughty && self.chance(1, 4) { "_system".to_string() } else { self.field_name(&mut used) };
            self.t(&k);
            self.t(":");
            self.mutation_value(target);
        }
        if n > 0 && self.chance(1, 6) {
            self.t(",");
        }
        self.t("}");
    }
    fn unset_field_set(&mut self) {
        self.t("{");
        let n = 1 + self.r.usize(3);
        let mut used = Vec::new();
        for i in 0..n {
            if i > 0 {
                self.t(",");
            }
            let k = self.field_name(&mut used);
            self.t(&k);
        }
        self.t("}");
    }

    // ---- patterns -----------------------------------------------------------------------------
    fn pred_atom_s(&mut self, allow_var: bool) -> String {
        match self.r.below(if allow_var { 5 } else { 4 }) {
            0 => self.param_s(),
            4 => self.var_s(),
            _ => self.string_s(),
        }
    }
    fn predicate(&mut self, kql: bool, allow_var: bool) {
        if kql && self.chance(1, 3) {
            self.feat("pred:path");
            let n = 1 + self.r.usize(3);
            for i in 0..n {
                if i > 0 {
                    self.t("|");
                }
                let mut s = self.pred_atom_s(true);
                if self.chance(1, 2) {
                    let a = self.r.below(4);
                    match self.r.below(3) {
                        0 => s.push_str(&format!("{{{a}}}")),
                        1 => s.push_str(&format!("{{{a},}}")),
                        _ => s.push_str(&format!("{{{a},{}}}", a + self.r.below(3))),
                    }
                    self.feat("pred:hops");
                }
                self.t(&s);
            }
        } else {
            let s = self.pred_atom_s(allow_var);
            self.t(&s);
        }
    }
    fn term(&mut self, kql: bool, subject: bool) {
        let deep = self.some_fuel();
        match self.r.below(if deep { 7 } else { 4 }) {
            0 | 1 => {
                let s = self.var_s();
                self.t(&s)
            }
            2 => {
                let s = self.param_s();
                self.t(&s)
            }
            3 => {
                if subject && !self.naughty {
                    let s = self.var_s();
                    self.t(&s)
                } else {
                    let s = self.literal_s();
                    self.t(&s);
                    self.feat("term:literal");
                }
            }
            4 | 5 => {
                self.feat("term:match");
                self.object_matcher(kql)
            }
            _ => {
                self.feat("term:nested-proposition");
                self.proposition_matcher(kql, true)
            }
        }
    }
    pub fn proposition_matcher(&mut self, kql: bool, allow_var_pred: bool) {
        self.t("(");
        if self.chance(1, 6) {
            self.feat("prop:id");
            self.t("id");
            self.t(":");
            self.scalar();
        } else {
            self.term(kql, true);
            self.t(",");
            self.predicate(kql, allow_var_pred);
            self.t(",");
            self.term(kql, false);
        }
        self.t(")");
    }
    fn match_value(&mut self, kql: bool) {
        let deep = self.some_fuel();
        match self.r.below(if deep { 9 } else { 5 }) {
            0 => {
                let s = self.var_s();
                self.t(&s)
            }
            1 => {
                let s = self.param_s();
                self.t(&s)
            }
            5 | 6 => {
                self.feat("match:array");
                self.t("[");
                let n = self.r.usize(3);
                for i in 0..n {
                    if i > 0 {
                        self.t(",");
                    }
                    self.match_value(kql);
                }
                if n > 0 && self.chance(1, 6) {
                    self.t(",");
                }
                self.t("]");
            }
            7 => {
                self.feat("match:object");
                self.object_matcher(kql)
            }
            8 => {
                self.feat("match:proposition");
                self.proposition_matcher(kql, true)
            }
            _ => {
                let s = self.literal_s();
                self.t(&s)
            }
        }
    }
    pub fn object_matcher(&mut self, kql: bool) {
        self.t("{");
        let n = self.r.usize(4);
        let mut used = Vec::new();
        for i in 0..n {
            if i > 0 {
                self.t(",");
            }
            let k = self.field_name(&mut used);
            self.t(&k);
            self.t(":");
            self.match_value(kql);
        }
        if n > 0 && self.chance(1, 6) {
            self.t(",");
        }
        self.t("}");
    }

    // ---- FILTER -------------------------------------------------------------------------------
    fn filter_operand(&mut self) {
        let deep = self.some_fuel();
        match self.r.below(if deep { 9 } else { 5 }) {
            0 => {
                let s = self.param_s();
                self.t(&s)
            }
            1 | 2 => {
                let s = self.dot_path_s(None);
                self.t(&s)
            }
            5 => {
                self.feat("filter:list");
                self.t("[");
                let n = self.r.usize(4);
                for i in 0..n {
                    if i > 0 {
                        self.t(",");
                    }
                    self.filter_operand();
                }
                self.t("]");
            }
            6 => {
                self.feat("filter:negate");
                self.t("-");
                self.filter_operand();
            }
            7 => {
                self.feat("filter:object-literal");
                // wholly literal object
                self.t("{");
                let k = self.ident_s();
                self.t(&k);
                self.t(":");
                let s = self.literal_s();
                self.t(&s);
                self.t("}");
            }
            8 => {
                self.feat("filter:paren-operand");
                self.t("(");
                self.filter_operand();
                self.t(")");
            }
            _ => {
                let s = self.literal_s();
                self.t(&s)
            }
        }
    }
    fn filter_primary(&mut self) {
        let deep = self.some_fuel();
        match self.r.below(if deep { 6 } else { 4 }) {
            4 | 5 => {
                self.feat("filter:group");
                self.t("(");
                self.filter_or();
                self.t(")");
            }
            3 => {
                self.feat("filter:function");
                let (f, n) = *self.r.pick(&[
                    ("CONTAINS", 2),
                    ("STARTS_WITH", 2),
                    ("ENDS_WITH", 2),
                    ("REGEX", 2),
                    ("IN", 2),
                    ("IS_NULL", 1),
                    ("IS_NOT_NULL", 1),
                    ("IS_LITERAL", 1),
                    ("IS_ELEMENT", 1),
                    ("IS_KIND", 2),
                    ("LITERAL_TYPE", 2),
                ]);
                self.kw(f);
                self.t("(");
                for i in 0..n {
                    if i > 0 {
                        self.t(",");
                    }
                    self.filter_operand();
                }
                if self.chance(1, 8) {
                    self.t(",");
                }
                self.t(")");
            }
            _ => {
                self.filter_operand();
                let op = *self.r.pick(&["==", "!=", "<", ">", "<=", ">="]);
                self.t(op);
                self.filter_operand();
            }
        }
    }
    fn filter_unary(&mut self) {
        if self.chance(1, 5) {
            self.feat("filter:not");
            self.t("!");
            self.filter_unary();
        } else {
            self.filter_primary();
        }
    }
    fn filter_and(&mut self) {
        self.filter_unary();
        while self.chance(1, 4) && self.some_fuel() {
            self.feat("filter:and");
            self.t("&&");
            self.filter_unary();
        }
    }
    pub fn filter_or(&mut self) {
        self.filter_and();
        while self.chance(1, 5) && self.some_fuel() {
            self.feat("filter:or");
            self.t("||");
            self.filter_and();
        }
    }

    // ---- WHERE --------------------------------------------------------------------------------
    pub fn where_block(&mut self, kql: bool, bind: Option<(&str, &str)>) {
        self.t("{");
        if let Some((var, kind)) = bind {
            // bind the mutation target first so the plan validates
            self.t(&format!("?{var}"));
            if !kind.is_empty() {
                self.kw(kind);
            }
            self.object_matcher(kql);
        }
        let n = if bind.is_some() { self.r.usize(3) } else { 1 + self.r.usize(3) };
        for _ in 0..n {
            self.where_clause(kql);
        }
        self.t("}");
    }
    fn structural_tuple(&mut self, kql: bool) {
        self.t("(");
        self.term(kql, false);
        self.t(",");
        self.symbol_ref();
        self.t(",");
        self.term(kql, false);
        self.t(")");
    }
    fn where_clause(&mut self, kql: bool) {
        let deep = self.some_fuel();
        let k = self.r.below(if deep { 17 } else { 13 });
        match k {
            0 => {
                self.feat("where:filter");
                self.kw("FILTER");
                self.t("(");
                self.filter_or();
                self.t(")");
            }
            1 | 2 => {
                self.feat("where:concept");
                let v = self.var_s();
                self.t(&v);
                if self.chance(1, 2) {
                    self.kw("CONCEPT");
                }
                self.object_matcher(kql);
            }
            3 => {
                self.feat("where:assertion");
                let v = self.var_s();
                self.t(&v);
                self.kw("ASSERTION");
                self.object_matcher(kql);
            }
            4 => {
                self.feat("where:evidence");
                let v = self.var_s();
                self.t(&v);
                self.kw("EVIDENCE");
                self.object_matcher(kql);
            }
            5 => {
                self.feat("where:activity");
                let v = self.var_s();
                self.t(&v);
                self.kw("ACTIVITY");
                self.object_matcher(kql);
            }
            6 => {
                self.feat("where:structural");
                if self.chance(1, 2) {
                    let v = self.var_s();
                    self.t(&v);
                }
                self.kw("STRUCTURAL");
                self.structural_tuple(kql);
            }
            7 if kql || self.naughty => {
                self.feat("where:belief");
                let v = self.var_s();
                self.t(&v);
                self.kw("BELIEF");
                match self.r.below(4) {
                    0 => {
                        self.kw("SLOT");
                        self.t("(");
                        self.term(kql, true);
                        self.t(",");
                        let s = self.pred_atom_s(true);
                        self.t(&s);
                        self.t(")");
                        self.feat("where:belief-slot");
                    }
                    1 => {
                        self.t("(");
                        self.t("id");
                        self.t(":");
                        self.scalar();
                        self.t(")");
                    }
                    2 => {
                        self.t("(");
                        let v = self.var_s();
                        self.t(&v);
                        self.t(")");
                    }
                    _ => {
                        self.t("(");
                        self.term(kql, true);
                        self.t(",");
                        let s = self.pred_atom_s(true);
                        self.t(&s);
                        self.t(",");
                        self.term(kql, false);
                        self.t(")");
                    }
                }
            }
            8 => {
                self.feat("where:proposition-kw");
                if self.chance(1, 2) {
                    let v = self.var_s();
                    self.t(&v);
                }
                self.kw("PROPOSITION");
                self.proposition_matcher(kql, true);
            }
            9 => {
                self.feat("where:proposition-var");
                let v = self.var_s();
                self.t(&v);
                self.proposition_matcher(kql, true);
            }
            13 => {
                self.feat("where:not");
                self.kw("NOT");
                self.where_block(kql, None);
            }
            14 => {
                self.feat("where:optional");
                self.kw("OPTIONAL");
                self.where_block(kql, None);
            }
            15 | 16 => {
                self.feat("where:union");
                self.kw("UNION");
                self.where_block(kql, None);
            }
            _ => {
                self.feat("where:proposition-bare");
                self.proposition_matcher(kql, true);
            }
        }
    }

    // ---- KQL ----------------------------------------------------------------------------------
    fn aggregate_or_path(&mut self) {
        if self.chance(1, 3) {
            self.feat("kql:aggregate");
            let f = *self.r.pick(&["COUNT", "SUM", "AVG", "MIN", "MAX"]);
            self.kw(f);
            self.t("(");
            if self.chance(1, 3) {
                self.kw("DISTINCT");
            }
            let s = self.dot_path_s(None);
            self.t(&s);
            self.t(")");
        } else {
            let s = self.dot_path_s(None);
            self.t(&s);
        }
    }
    fn as_of(&mut self) {
        self.feat("as-of");
        self.kw("AS OF");
        let k = *self.r.pick(&["SEQ", "TX", "TIME"]);
        self.kw(k);
        self.scalar();
    }
    pub fn kql(&mut self) {
        self.feat("kql");
        self.kw("FIND");
        self.t("(");
        let n = 1 + self.r.usize(3);
        for i in 0..n {
            if i > 0 {
                self.t(",");
            }
            self.aggregate_or_path();
        }
        self.t(")");
        self.kw("WHERE");
        self.where_block(true, None);
        if self.chance(1, 3) {
            self.as_of();
        }
        if self.chance(1, 4) {
            self.feat("kql:for-time");
            self.kw("FOR TIME");
            self.scalar();
        }
        if self.chance(1, 4) {
            self.feat("kql:epistemic");
            self.kw("WITH EPISTEMIC");
            self.bound_object(false);
        }
        if self.chance(1, 3) {
            self.feat("kql:order-by");
            self.kw("ORDER BY");
            let n = 1 + self.r.usize(2);
            for i in 0..n {
                if i > 0 {
                    self.t(",");
                }
                self.aggregate_or_path();
                match self.r.below(3) {
                    0 => self.kw("ASC"),
                    1 => self.kw("DESC"),
                    _ => {}
                }
            }
        }
        if self.chance(1, 2) {
            self.kw("LIMIT");
            self.scalar();
        }
        if self.chance(1, 4) {
            self.kw("CURSOR");
            self.scalar();
        }
    }

    // ---- KML ----------------------------------------------------------------------------------
    fn new_handle(&mut self) -> String {
        let h = if self.naughty && !self.handles.is_empty() && self.chance(1, 2) {
            self.feat("violation:duplicate-handle");
            self.handles[0].clone()
        } else {
            format!("h{}", self.handles.len())
        };
        self.handles.push(h.clone());
        h
    }
    fn structural_edges(&mut self, with_options: bool, target: Option<&str>) {
        self.t("{");
        let n = 1 + self.r.usize(2);
        for _ in 0..n {
            self.t("(");
            self.symbol_ref();
            self.t(",");
            self.mutation_value(target);
            self.t(")");
            if with_options && self.chance(1, 2) {
                self.bound_object(true);
            }
        }
        self.t("}");
    }
    /// body clauses of CREATE / UPSERT (`allowed` = labels admitted there), each at most once
    fn body(&mut self, allowed: &[&'static str], must: &[&'static str]) {
        self.t("{");
        let mut order: Vec<&'static str> = allowed.to_vec();
        self.r.shuffle(&mut order);
        let mut seen_single: Vec<&str> = Vec::new();
        for label in order {
            let forced = must.contains(&label);
            if !forced && !self.chance(1, 2) {
                continue;
            }
            if seen_single.contains(&label) {
                continue;
            }
            seen_single.push(label);
            self.body_clause(label, None);
            if label == "SET FACET" && self.chance(1, 3) {
                self.body_clause(label, None);
            }
        }
        if self.naughty && self.chance(1, 2) {
            self.body_clause("NAME", None);
            self.body_clause("NAME", None);
        }
        self.t("}");
    }
    fn body_clause(&mut self, label: &str, target: Option<&str>) {
        match label {
            "TYPE" => {
                self.feat("body:type");
                self.kw("TYPE");
                self.symbol_ref();
            }
            "CLIENT KEY" => {
                self.feat("body:client-key");
                self.kw("CLIENT KEY");
                self.scalar();
            }
            "NAME" => {
                self.feat("body:name");
                self.kw("NAME");
                self.scalar();
            }
            "MATCH" => {
                self.feat("body:match");
                self.kw("MATCH");
                // a stable identity selector first
                self.t("{");
                let k = if self.naughty && self.chance(1, 2) { "name" } else { *self.r.pick(&["id", "key"]) };
                self.t(k);
                self.t(":");
                self.scalar();
                if self.chance(1, 3) {
                    self.t(",");
                    self.t("type");
                    self.t(":");
                    let s = self.string_s();
                    self.t(&s);
                }
                self.t("}");
            }
            "EXPECT VERSION" => {
                self.feat("body:expect-version");
                self.kw("EXPECT VERSION");
                self.scalar();
            }
            "SET FIELDS" => {
                self.feat("body:set-fields");
                self.kw("SET FIELDS");
                self.assignments(target);
            }
            "SET ATTRIBUTES" => {
                self.feat("body:set-attributes");
                self.kw("SET ATTRIBUTES");
                self.assignments(target);
            }
            "SET FACET" => {
                self.feat("body:set-facet");
                self.kw("SET FACET");
                self.symbol_ref();
                self.assignments(target);
            }
            "UNSET ATTRIBUTES" => {
                self.feat("body:unset-attributes");
                self.kw("UNSET ATTRIBUTES");
                self.unset_field_set();
            }
            "UNSET FACET" => {
                self.feat("body:unset-facet");
                self.kw("UNSET FACET");
                self.symbol_ref();
                self.unset_field_set();
            }
            "SET STRUCTURAL" => {
                self.feat("body:set-structural");
                self.kw("SET STRUCTURAL");
                self.structural_edges(true, target);
            }
            "UNSET STRUCTURAL" => {
                self.feat("body:unset-structural");
                self.kw("UNSET STRUCTURAL");
                self.structural_edges(false, target);
            }
            _ => unreachable!(),
        }
    }
    fn opt_where_limit(&mut self, var: Option<(&str, &str)>) {
        if var.is_some() || self.chance(1, 3) {
            self.kw("WHERE");
            self.where_block(false, var);
        }
        if self.chance(1, 3) {
            self.kw("LIMIT");
            self.scalar();
        }
    }
    /// a target that is either a parameter / id, or a variable bound by the clause's own WHERE
    fn target_with_where(&mut self, kind: &'static str) -> Option<String> {
        if self.chance(1, 2) {
            let v = self.r.pick(VARS).to_string();
            self.t(&format!("?{v}"));
            let _ = kind;
            Some(v)
        } else {
            let s = if self.chance(1, 2) { self.param_s() } else { self.string_s() };
            self.t(&s);
            None
        }
    }
    fn mutation_clause(&mut self) {
        let k = self.r.below(19);
        match k {
            0 | 1 => {
                self.feat("kml:create-concept");
                self.kw("CREATE CONCEPT");
                let h = self.new_handle();
                self.t(&format!("?{h}"));
                self.body(&["TYPE", "CLIENT KEY", "NAME", "SET FIELDS", "SET ATTRIBUTES", "SET FACET", "SET STRUCTURAL"], &[]);
            }
            2 => {
                self.feat("kml:upsert-concept");
                self.kw("UPSERT CONCEPT");
                let h = self.new_handle();
                self.t(&format!("?{h}"));
                self.body(
                    &[
                        "MATCH",
                        "EXPECT VERSION",
                        "SET FIELDS",
                        "SET ATTRIBUTES",
                        "SET FACET",
                        "UNSET ATTRIBUTES",
                        "UNSET FACET",
                        "SET STRUCTURAL",
                        "UNSET STRUCTURAL",
                    ],
                    &["MATCH"],
                );
            }
            3 => {
                self.feat("kml:ensure-proposition");
                self.kw("ENSURE PROPOSITION");
                if self.chance(1, 2) {
                    let h = self.new_handle();
                    self.t(&format!("?{h}"));
                }
                self.exact_tuple();
                if self.chance(1, 3) {
                    self.kw("EXPECT VERSION");
                    self.scalar();
                }
            }
            4 | 5 => {
                self.feat("kml:assert");
                self.kw("ASSERT");
                if self.chance(1, 2) {
                    let h = self.new_handle();
                    self.t(&format!("?{h}"));
                }
                self.exact_tuple();
                self.t("{");
                let mut members: Vec<&str> = vec!["by", "mode"];
                for m in ["stance", "confidence", "at", "valid", "evidence", "key"] {
                    if self.chance(1, 3) {
                        members.push(m);
                    }
                }
                if self.naughty && self.chance(1, 2) {
                    members.remove(0);
                }
                self.r.shuffle(&mut members);
                for (i, m) in members.iter().enumerate() {
                    if i > 0 {
                        self.t(",");
                    }
                    self.t(m);
                    self.t(":");
                    match *m {
                        "by" => self.plan_ref_value(),
                        "mode" => {
                            let s = *self.r.pick(&["\"stated\"", "\"observed\"", "\"inferred\"", ":mode"]);
                            self.t(s)
                        }
                        "stance" => {
                            let s = *self.r.pick(&["\"support\"", "\"oppose\""]);
                            self.t(s)
                        }
                        "confidence" => {
                            let s = self.number_s();
                            self.t(&s)
                        }
                        "evidence" => {
                            if self.chance(1, 2) {
                                self.t("[");
                                self.t(":msg");
                                self.t(",");
                                self.t("\"E-1\"");
                                self.t("]");
                            } else {
                                self.plan_ref_value();
                            }
                        }
                        "key" => self.scalar(),
                        _ => self.bound_value(false),
                    }
                }
                self.t("}");
                if self.chance(1, 3) {
                    self.feat("kml:superseding");
                    self.kw("SUPERSEDING");
                    self.plan_ref();
                }
            }
            6 => {
                self.feat("kml:create-record");
                self.kw("CREATE");
                let k = *self.r.pick(&["EVIDENCE", "ASSERTION", "ACTIVITY"]);
                self.kw(k);
                let h = self.new_handle();
                self.t(&format!("?{h}"));
                self.body(&["CLIENT KEY", "SET FIELDS", "SET FACET", "SET STRUCTURAL"], &[]);
            }
            7 | 8 => {
                self.feat("kml:update");
                self.kw("UPDATE");
                let var = self.target_with_where("CONCEPT");
                if self.chance(1, 4) {
                    self.kw("EXPECT VERSION");
                    self.scalar();
                }
                let n = 1 + self.r.usize(3);
                let labels = ["SET FIELDS", "SET ATTRIBUTES", "SET FACET", "UNSET ATTRIBUTES", "UNSET FACET", "SET STRUCTURAL", "UNSET STRUCTURAL"];
                for _ in 0..n {
                    let l = *self.r.pick(&labels);
                    self.body_clause(l, var.as_deref());
                }
                let kind = *self.r.pick(&["CONCEPT", "", "CONCEPT", "ASSERTION", "EVIDENCE", "ACTIVITY"]);
                let v2 = var.clone();
                self.opt_where_limit(v2.as_deref().map(|v| (v, kind)));
            }
            9 => {
                self.feat("kml:retract");
                self.kw("RETRACT ASSERTION");
                let var = self.target_with_where("ASSERTION");
                self.opt_where_limit(var.as_deref().map(|v| (v, "ASSERTION")));
                self.opt_expect_state();
            }
            10 => {
                self.feat("kml:supersede");
                self.kw("SUPERSEDE ASSERTION");
                self.plan_ref();
                self.kw("BY");
                self.plan_ref();
                self.opt_expect_state();
            }
            11 => {
                self.feat("kml:correct-evidence");
                self.kw("CORRECT EVIDENCE");
                self.plan_ref();
                self.kw("BY");
                self.plan_ref();
                self.opt_expect_state();
            }
            12 => {
                self.feat("kml:transition");
                self.kw("TRANSITION ACTIVITY");
                self.plan_ref();
                self.kw("TO");
                self.scalar();
                if self.chance(1, 2) {
                    self.body_clause("SET FIELDS", None);
                }
                if self.chance(1, 3) {
                    self.body_clause("SET STRUCTURAL", None);
                }
                self.opt_expect_state();
            }
            13 => {
                self.feat("kml:set-retention");
                self.kw("SET RETENTION");
                let var = self.target_with_where("CONCEPT");
                self.assignments(None);
                self.opt_where_limit(var.as_deref().map(|v| (v, "CONCEPT")));
                if self.chance(1, 3) {
                    self.kw("EXPECT VERSION");
                    self.scalar();
                }
            }
            14 | 15 => {
                let verb = if k == 14 { "ARCHIVE" } else { "TOMBSTONE" };
                self.feat(if k == 14 { "kml:archive" } else { "kml:tombstone" });
                self.kw(verb);
                let var = self.target_with_where("CONCEPT");
                self.opt_where_limit(var.as_deref().map(|v| (v, "")));
                self.opt_expect_state();
            }
            16 => {
                self.feat("kml:purge");
                self.kw("PURGE");
                let var = self.target_with_where("CONCEPT");
                self.opt_where_limit(var.as_deref().map(|v| (v, "EVIDENCE")));
                if self.chance(1, 3) {
                    self.kw("REFERENCE POLICY");
                    self.scalar();
                }
                self.kw("CONFIRM");
                if self.naughty && self.chance(1, 2) {
                    self.t("\"purge\"");
                } else {
                    self.t("\"PURGE\"");
                }
            }
            _ => {
                self.feat("kml:merge");
                self.kw("MERGE CONCEPT");
                self.plan_ref();
                self.kw("INTO");
                self.plan_ref();
                if self.chance(1, 3) {
                    self.kw("WHERE");
                    self.where_block(false, None);
                }
                if self.chance(1, 3) {
                    self.kw("EXPECT VERSION");
                    self.scalar();
                }
            }
        }
    }
    fn plan_ref_value(&mut self) {
        if self.naughty && self.chance(1, 3) {
            self.t("?ghost");
            self.feat("violation:unbound-handle");
            return;
        }
        if !self.handles.is_empty() && self.chance(1, 2) {
            let h = self.r.pick(&self.handles.clone()).clone();
            self.t(&format!("?{h}"));
        } else {
            let s = if self.chance(1, 2) { self.param_s() } else { self.string_s() };
            self.t(&s);
        }
    }
    fn opt_expect_state(&mut self) {
        if self.chance(1, 3) {
            self.feat("kml:expect-state");
            self.kw("EXPECT STATE");
            self.scalar();
        }
    }
    /// `(subject, "predicate", object)` in the exact flavor with plan-resolvable references
    fn exact_tuple(&mut self) {
        self.t("(");
        if self.naughty && self.chance(1, 3) {
            self.t("id");
            self.t(":");
            self.scalar();
            self.t(")");
            return;
        }
        // subject: handle / param / nested match / nested tuple
        match self.r.below(6) {
            0 if !self.handles.is_empty() => {
                let h = self.r.pick(&self.handles.clone()).clone();
                self.t(&format!("?{h}"))
            }
            1 if self.some_fuel() => self.object_matcher(false),
            2 if self.some_fuel() => self.proposition_matcher(false, false),
            3 => {
                let v = self.var_s();
                self.t(&v)
            }
            _ => {
                let s = self.param_s();
                self.t(&s)
            }
        }
        self.t(",");
        let s = if self.chance(1, 4) { self.param_s() } else { self.string_s() };
        self.t(&s);
        self.t(",");
        match self.r.below(5) {
            0 => {
                let s = self.literal_s();
                self.t(&s)
            }
            1 if self.some_fuel() => self.object_matcher(false),
            2 if self.some_fuel() => self.proposition_matcher(false, false),
            _ => {
                let s = self.param_s();
                self.t(&s)
            }
        }
        self.t(")");
    }
    pub fn kml(&mut self) {
        self.feat("kml");
        if self.chance(1, 2) || self.naughty {
            self.feat("kml:mutate-block");
            self.kw("MUTATE");
            self.t("{");
            let n = 1 + self.r.usize(4);
            for _ in 0..n {
                self.mutation_clause();
            }
            self.t("}");
        } else {
            self.mutation_clause();
        }
    }

    // ---- META ---------------------------------------------------------------------------------
    fn paging(&mut self) {
        if self.chance(1, 3) {
            self.kw("LIMIT");
            self.scalar();
        }
        if self.chance(1, 4) {
            self.kw("CURSOR");
            self.scalar();
        }
    }
    pub fn meta(&mut self) {
        self.feat("meta");
        match self.r.below(10) {
            0 | 1 => {
                self.feat("meta:describe");
                self.kw("DESCRIBE");
                match self.r.below(21) {
                    0 => {
                        self.kw("SCHEMA ENVIRONMENT");
                        if self.chance(1, 2) {
                            self.as_of();
                        }
                    }
                    1 => self.kw("EXECUTION CONTEXT"),
                    2 => {
                        self.kw("STRUCTURAL FIELD");
                        self.scalar();
                    }
                    3 => {
                        self.kw("EPISTEMIC POLICY");
                        if self.chance(1, 2) {
                            self.scalar();
                        }
                    }
                    4 => self.kw("PROJECTION CAPABILITY"),
                    5 => {
                        self.kw("PRIMER");
                        if self.chance(1, 2) {
                            self.kw("MODE");
                            self.scalar();
                        }
                    }
                    6 => self.kw("PROTOCOL"),
                    7 => self.kw("CAPABILITIES"),
                    8 => {
                        self.kw("SPACE");
                        if self.chance(1, 2) {
                            self.scalar();
                        }
                    }
                    9 => {
                        self.kw("PACKAGE");
                        self.scalar();
                    }
                    10 => {
                        self.kw("TYPE");
                        self.scalar();
                    }
                    11 => {
                        self.kw("PREDICATE");
                        self.scalar();
                    }
                    12 => {
                        self.kw("FACET");
                        self.scalar();
                    }
                    13 => {
                        self.kw("COMPATIBILITY FROM");
                        self.scalar();
                        self.kw("TO");
                        self.scalar();
                    }
                    14 => {
                        self.kw("ERROR");
                        self.scalar();
                    }
                    15 => {
                        self.kw("TRANSACTION");
                        if self.chance(1, 2) {
                            self.kw("BY IDEMPOTENCY KEY");
                        }
                        self.scalar();
                    }
                    16 => {
                        self.kw("SNAPSHOT");
                        if self.chance(1, 2) {
                            self.as_of();
                        }
                    }
                    17 => {
                        self.kw("CAPSULE");
                        self.scalar();
                    }
                    18 => {
                        self.kw("TRUST");
                        if self.chance(1, 2) {
                            self.scalar();
                        }
                    }
                    _ => {
                        self.kw("ACCESS");
                        if self.chance(1, 2) {
                            self.kw("WITH");
                            self.bound_object(false);
                        }
                    }
                }
            }
            2 => {
                self.feat("meta:list");
                self.kw("LIST");
                match self.r.below(7) {
                    0 => {
                        self.kw("SCHEMA PACKAGES");
                        if self.chance(1, 2) {
                            self.kw("STATUS");
                            self.scalar();
                        }
                    }
                    1 => self.kw("STRUCTURAL FIELDS"),
                    2 => self.kw("EPISTEMIC POLICIES"),
                    3 => self.kw("SPACES"),
                    4 => self.kw("TYPES"),
                    5 => self.kw("PREDICATES"),
                    _ => self.kw("FACETS"),
                }
                self.paging();
            }
            3 => {
                self.feat("meta:search");
                self.kw("SEARCH");
                let k = *self.r.pick(&["CONCEPT", "PROPOSITION", "ASSERTION", "EVIDENCE", "ACTIVITY", "COGNITION"]);
                self.kw(k);
                self.scalar();
                if self.chance(1, 3) {
                    self.kw("WITH TYPE");
                    self.scalar();
                }
                if self.chance(1, 3) {
                    self.kw("WITH PREDICATE");
                    self.scalar();
                }
                if self.chance(1, 3) {
                    self.kw("MODE");
                    self.scalar();
                }
                if self.chance(1, 3) {
                    self.kw("THRESHOLD");
                    self.scalar();
                }
                if self.chance(1, 3) {
                    self.kw("AS OF SEQ");
                    self.scalar();
                }
                self.paging();
            }
            4 => {
                self.feat("meta:verify");
                self.kw("VERIFY");
                let k = *self.r.pick(&["SCHEMA PACKAGE", "CAPSULE", "RECEIPT", "BLOB", "CHECKPOINT"]);
                self.kw(k);
                self.scalar();
            }
            5 => {
                self.feat("meta:validate");
                self.kw("VALIDATE");
                let k = *self.r.pick(&["SCHEMA PACKAGE", "IMPORT PLAN", "KQL", "KML", "CAPSULE"]);
                self.kw(k);
                self.scalar();
                if self.chance(1, 2) {
                    self.kw("WITH");
                    self.bound_object(false);
                }
            }
            6 => {
                self.feat("meta:preview");
                self.kw("PREVIEW");
                if self.chance(1, 2) {
                    self.kw("IMPORT CAPSULE");
                    self.scalar();
                    self.kw("INTO");
                    self.scalar();
                } else {
                    self.kw("KML");
                    self.scalar();
                }
            }
            7 => {
                self.feat("meta:history-changes-snapshot");
                match self.r.below(4) {
                    0 => {
                        self.kw("HISTORY SPACE");
                        self.history_range();
                    }
                    1 => {
                        self.kw("HISTORY ELEMENT");
                        self.scalar();
                        self.history_range();
                    }
                    2 => {
                        self.kw("CHANGES");
                        if self.chance(1, 2) {
                            self.kw("AFTER SEQ");
                        } else {
                            self.kw("SINCE");
                        }
                        self.scalar();
                        if self.chance(1, 2) {
                            self.kw("LIMIT");
                            self.scalar();
                        }
                    }
                    _ => {
                        self.kw("SNAPSHOT");
                        if self.chance(1, 2) {
                            self.as_of();
                        }
                    }
                }
            }
            _ => {
                self.feat("meta:export");
                self.kw("EXPORT CAPSULE");
                self.element_ref();
                self.kw("WHERE");
                if self.naughty && self.chance(1, 2) {
                    self.t("{");
                    self.t("}");
                } else {
                    self.where_block(false, None);
                }
                if self.chance(1, 2) {
                    self.kw("WITH");
                    self.bound_object(false);
                }
                if self.chance(1, 3) {
                    self.as_of();
                }
            }
        }
    }
    fn history_range(&mut self) {
        if self.chance(1, 3) {
            self.kw("FROM SEQ");
            self.scalar();
        }
        if self.chance(1, 3) {
            self.kw("TO SEQ");
            self.scalar();
        }
        self.paging();
    }

    // ---- explicit deep nests ------------------------------------------------------------------
    /// A sentence whose bracket nesting reaches exactly `depth` through one construct family.
    /// Returns the family name. The base sentence adds its own levels (counted in `depth`).
    pub fn deep(&mut self, kind: u64, depth: usize) -> &'static str {
        let d = depth.max(3);
        match kind % 9 {
            0 => {
                // FIND(?x) WHERE { NOT { NOT { … ?x {a:1} } } }
                self.kw("FIND");
                self.t("(");
                self.t("?x");
                self.t(")");
                self.kw("WHERE");
                self.t("{");
                let n = d - 2; // WHERE brace + innermost matcher
                let kws = ["NOT", "OPTIONAL", "UNION"];
                for i in 0..n {
                    self.kw(kws[i % 3]);
                    self.t("{");
                }
                self.t("?x");
                self.t("{");
                self.t("a");
                self.t(":");
                self.t("1");
                self.t("}");
                for _ in 0..n {
                    self.t("}");
                }
                self.t("}");
                "deep:where-blocks"
            }
            1 => {
                // FIND(?x) WHERE { ?x { a: [[[…1…]]] } }
                self.kw("FIND");
                self.t("(");
                self.t("?x");
                self.t(")");
                self.kw("WHERE");
                self.t("{");
                self.t("?x");
                self.t("{");
                self.t("a");
                self.t(":");
                let n = d - 2;
                for _ in 0..n {
                    self.t("[");
                }
                self.t("1");
                for _ in 0..n {
                    self.t("]");
                }
                self.t("}");
                self.t("}");
                "deep:match-arrays"
            }
            2 => {
                // FIND(?x) WHERE { ?x {a:{a:{…}}} }
                self.kw("FIND");
                self.t("(");
                self.t("?x");
                self.t(")");
                self.kw("WHERE");
                self.t("{");
                self.t("?x");
                let n = d - 1;
                for _ in 0..n {
                    self.t("{");
                    self.t("a");
                    self.t(":");
                }
                self.t("?v");
                for _ in 0..n {
                    self.t("}");
                }
                self.t("}");
                "deep:match-objects"
            }
            3 => {
                // FIND(?x) WHERE { (((…(?a,"p",?b)…,"p",?b),"p",?b) }
                self.kw("FIND");
                self.t("(");
                self.t("?x");
                self.t(")");
                self.kw("WHERE");
                self.t("{");
                let n = d - 1;
                for _ in 0..n {
                    self.t("(");
                }
                self.t("?a");
                for _ in 0..n {
                    self.t(",");
                    self.t("\"p\"");
                    self.t(",");
                    self.t("?b");
                    self.t(")");
                }
                self.t("}");
                "deep:nested-propositions"
            }
            4 => {
                // FILTER((((… ?x.a == 1 …))))
                self.kw("FIND");
                self.t("(");
                self.t("?x");
                self.t(")");
                self.kw("WHERE");
                self.t("{");
                self.kw("FILTER");
                let n = d - 1;
                for _ in 0..n {
                    self.t("(");
                }
                self.t("?x.a");
                self.t("==");
                self.t("1");
                for _ in 0..n {
                    self.t(")");
                }
                self.t("}");
                "deep:filter-groups"
            }
            5 => {
                // FILTER(((((1)))) == ?x.a)  — parenthesised operands
                self.kw("FIND");
                self.t("(");
                self.t("?x");
                self.t(")");
                self.kw("WHERE");
                self.t("{");
                self.kw("FILTER");
                self.t("(");
                let n = d - 2;
                for _ in 0..n {
                    self.t("(");
                }
                self.t("1");
                for _ in 0..n {
                    self.t(")");
                }
                self.t("==");
                self.t("?x.a");
                self.t(")");
                self.t("}");
                "deep:filter-operands"
            }
            6 => {
                // CREATE CONCEPT ?h0 { SET ATTRIBUTES { a: [[[…]]] } }
                self.kw("CREATE CONCEPT");
                self.t("?h0");
                self.t("{");
                self.kw("SET ATTRIBUTES");
                self.t("{");
                self.t("a");
                self.t(":");
                let n = d - 2;
                for i in 0..n {
                    if i % 2 == 0 {
                        self.t("[");
                    } else {
                        self.t("{");
                        self.t("k");
                        self.t(":");
                    }
                }
                self.t(":p");
                for i in (0..n).rev() {
                    self.t(if i % 2 == 0 { "]" } else { "}" });
                }
                self.t("}");
                self.t("}");
                "deep:kml-values"
            }
            7 => {
                // UPDATE :t SET FIELDS { a: ADD(ADD(ADD(…1,1…),1),1) }
                self.kw("UPDATE");
                self.t(":t");
                self.kw("SET FIELDS");
                self.t("{");
                self.t("a");
                self.t(":");
                let n = d - 1;
                for _ in 0..n {
                    self.kw("ADD");
                    self.t("(");
                }
                self.t("1");
                for _ in 0..n {
                    self.t(",");
                    self.t("1");
                    self.t(")");
                }
                self.t("}");
                "deep:update-exprs"
            }
            _ => {
                // DESCRIBE ACCESS WITH { a: { a: [ … ] } }
                self.kw("DESCRIBE ACCESS WITH");
                let n = d;
                for i in 0..n {
                    if i % 2 == 0 {
                        self.t("{");
                        self.t("a");
                        self.t(":");
                    } else {
                        self.t("[");
                    }
                }
                self.t("null");
                for i in (0..n).rev() {
                    self.t(if i % 2 == 0 { "}" } else { "]" });
                }
                "deep:meta-options"
            }
        }
    }

    /// Operators that nest without opening a bracket (`!`, unary `-`, `&&`, `||`): `n` of them.
    pub fn bracketless(&mut self, kind: u64, n: usize) -> &'static str {
        self.kw("FIND");
        self.t("(");
        self.t("?x");
        self.t(")");
        self.kw("WHERE");
        self.t("{");
        self.kw("FILTER");
        self.t("(");
        let name = match kind % 4 {
            0 => {
                for _ in 0..n {
                    self.t("!");
                }
                self.t("?x.a");
                self.t("==");
                self.t("1");
                "flat:not-chain"
            }
            1 => {
                self.t("?x.a");
                self.t("==");
                for _ in 0..n {
                    self.t("-");
                }
                self.t("1");
                "flat:minus-chain"
            }
            2 => {
                for i in 0..=n {
                    if i > 0 {
                        self.t("&&");
                    }
                    self.t("?x.a");
                    self.t("==");
                    self.t("1");
                }
                "flat:and-chain"
            }
            _ => {
                for i in 0..=n {
                    if i > 0 {
                        self.t("||");
                    }
                    self.t("?x.a");
                    self.t("==");
                    self.t("1");
                }
                "flat:or-chain"
            }
        };
        self.t(")");
        self.t("}");
        name
    }

    /// Wide rather than deep: many sibling clauses / items (work must stay linear).
    pub fn wide(&mut self, kind: u64, n: usize) -> &'static str {
        match kind % 3 {
            0 => {
                self.kw("FIND");
                self.t("(");
                self.t("?x");
                self.t(")");
                self.kw("WHERE");
                self.t("{");
                for i in 0..n {
                    self.t(&format!("?v{i}"));
                    self.t("{");
                    self.t("type");
                    self.t(":");
                    self.t("\"T\"");
                    self.t("}");
                }
                self.t("}");
                "wide:where-clauses"
            }
            1 => {
                self.kw("MUTATE");
                self.t("{");
                for i in 0..n {
                    self.kw("CREATE CONCEPT");
                    self.t(&format!("?h{i}"));
                    self.t("{");
                    self.kw("TYPE");
                    self.t("\"T\"");
                    self.t("}");
                }
                self.t("}");
                "wide:mutate-clauses"
            }
            _ => {
                self.kw("DESCRIBE ACCESS WITH");
                self.t("{");
                self.t("a");
                self.t(":");
                self.t("[");
                for i in 0..n {
                    if i > 0 {
                        self.t(",");
                    }
                    self.t(&format!("{i}"));
                }
                self.t("]");
                self.t("}");
                "wide:array-items"
            }
        }
    }
}
