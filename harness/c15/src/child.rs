//! The part of the harness that touches the real parser. It runs in a *child process* of the
//! harness binary (`vh-c15 --child <stack_bytes>`): a real stack overflow aborts the process, and
//! the parent turns a dead child into a failure of the case it was evaluating.
//!
//! One request per line (`<hex of the UTF-8 input>`, `-` for the empty string), one JSON line back.
//! Every parse runs under `catch_unwind` on a fresh thread with a small fixed stack.

use anda_kip::{Command, KipErrorCode};
use std::io::{BufRead, Write};
use std::panic::{AssertUnwindSafe, catch_unwind};
use std::time::Instant;
use vh_common::serde_json::{self, Value, json};

/// The documented limits (parser.rs doc comments, KIP docs): 256 KiB and 64 levels.
pub const DOC_MAX_LEN: usize = 256 * 1024;
pub const DOC_MAX_DEPTH: i64 = 64;

#[derive(Clone, Debug, PartialEq)]
pub enum Res {
    Ok,
    /// error code name and whether it is the budget's refusal (`too_long` / `too_deep`)
    Err(String),
    Panic(String),
}

impl Res {
    pub fn show(&self) -> String {
        match self {
            Res::Ok => "ok".into(),
            Res::Err(c) => format!("err:{c}"),
            Res::Panic(m) => format!("panic:{m}"),
        }
    }
}

fn classify_err(e: &anda_kip::KipError) -> String {
    if e.code == KipErrorCode::ResourceExhausted {
        if e.message.contains("input length") {
            "too_long".into()
        } else if e.message.contains("nesting exceeds") {
            "too_deep".into()
        } else {
            "resource_exhausted".into()
        }
    } else {
        "syntax".into()
    }
}

fn guarded<T>(f: impl FnOnce() -> Result<T, anda_kip::KipError>) -> (Res, Option<T>) {
    match catch_unwind(AssertUnwindSafe(f)) {
        Ok(Ok(v)) => (Res::Ok, Some(v)),
        Ok(Err(e)) => (Res::Err(classify_err(&e)), None),
        Err(p) => {
            let msg = p.downcast_ref::<String>().cloned().or_else(|| p.downcast_ref::<&str>().map(|s| s.to_string())).unwrap_or_else(|| "?".into());
            (Res::Panic(msg.chars().take(160).collect()), None)
        }
    }
}

// ---------------------------------------------------------------------------------------------
// independent reference for the budget (lookahead lexer + plain counting; not the Lean model,
// not a copy of the automaton)
// ---------------------------------------------------------------------------------------------

/// Bracket tokens of the text: brackets outside `"…"` strings (`\` takes the next character with
/// it) and outside `//` comments (through the next `\n`).
pub fn code_brackets(x: &str) -> Vec<char> {
    let cs: Vec<char> = x.chars().collect();
    let mut out = Vec::new();
    let mut i = 0;
    while i < cs.len() {
        let c = cs[i];
        if c == '/' && i + 1 < cs.len() && cs[i + 1] == '/' {
            i += 2;
            while i < cs.len() && cs[i] != '\n' {
                i += 1;
            }
            i += 1;
        } else if c == '"' {
            i += 1;
            while i < cs.len() && cs[i] != '"' {
                i += if cs[i] == '\\' { 2 } else { 1 };
            }
            i += 1;
        } else {
            if matches!(c, '(' | ')' | '[' | ']' | '{' | '}') {
                out.push(c);
            }
            i += 1;
        }
    }
    out
}

/// The class of every character according to the same reading (`c` code, `s` string, `m` comment);
/// compared with the Lean reference lexer `refLex`, so that the oracle's notion of "bracket token"
/// and the one the theorems are stated with are checked to be the same function.
pub fn ref_classes(x: &str) -> String {
    let cs: Vec<char> = x.chars().collect();
    let mut out = String::with_capacity(cs.len());
    let mut i = 0;
    while i < cs.len() {
        let c = cs[i];
        if c == '/' && i + 1 < cs.len() && cs[i + 1] == '/' {
            while i < cs.len() && cs[i] != '\n' {
                out.push('m');
                i += 1;
            }
            if i < cs.len() {
                out.push('m');
                i += 1;
            }
        } else if c == '"' {
            out.push('s');
            i += 1;
            while i < cs.len() && cs[i] != '"' {
                let n = if cs[i] == '\\' { 2 } else { 1 };
                for _ in 0..n.min(cs.len() - i) {
                    out.push('s');
                }
                i += n;
            }
            if i < cs.len() {
                out.push('s');
            }
            i += 1;
        } else {
            out.push('c');
            i += 1;
        }
    }
    out
}

/// max over prefixes of (#openers − #closers)
pub fn max_net_depth(br: &[char]) -> i64 {
    let (mut d, mut best) = (0i64, 0i64);
    for c in br {
        if matches!(c, '(' | '[' | '{') {
            d += 1;
        } else {
            d -= 1;
        }
        best = best.max(d);
    }
    best
}

/// `Some(max depth)` when every closer matches the innermost open bracket, else `None`.
pub fn matched_depth(br: &[char]) -> Option<i64> {
    let mut st: Vec<char> = Vec::new();
    let mut best = 0usize;
    for &c in br {
        match c {
            '(' | '[' | '{' => {
                st.push(c);
                best = best.max(st.len());
            }
            _ => {
                let want = match c {
                    ')' => '(',
                    ']' => '[',
                    _ => '{',
                };
                if st.pop() != Some(want) {
                    return None;
                }
            }
        }
    }
    Some(best as i64)
}

// ---------------------------------------------------------------------------------------------
// evaluation of one input
// ---------------------------------------------------------------------------------------------

/// On a text the parser accepted: is the reference lexer's reading (the one the theorems are stated
/// with) the parser's own? Every region it calls a string must be a string literal for the parser's
/// string rule, and replacing every region it calls a comment by a newline must not change the tree.
fn lexer_agrees_with_parser(x: &str, cmd: &Command) -> Vec<String> {
    let cls: Vec<char> = ref_classes(x).chars().collect();
    let cs: Vec<char> = x.chars().collect();
    let mut out = Vec::new();
    if cls.len() != cs.len() {
        out.push("reference lexer did not classify every character".to_string());
        return out;
    }
    let mut stripped = String::new();
    let mut i = 0;
    while i < cs.len() {
        let mut j = i;
        while j < cs.len() && cls[j] == cls[i] {
            j += 1;
        }
        let region: String = cs[i..j].iter().collect();
        match cls[i] {
            'm' => stripped.push('\n'),
            's' => {
                // adjacent strings form one run of class `s`: split at the closing quotes
                let mut k = 0;
                let rc: Vec<char> = region.chars().collect();
                while k < rc.len() {
                    let mut e = k + 1;
                    while e < rc.len() && rc[e] != '"' {
                        e += if rc[e] == '\\' { 2 } else { 1 };
                    }
                    let lit: String = rc[k..(e + 1).min(rc.len())].iter().collect();
                    match catch_unwind(AssertUnwindSafe(|| anda_kip::parse_json(&lit))) {
                        Ok(Ok(anda_kip::Json::String(_))) => {}
                        _ => out.push(format!("the region {lit:?} is a string for the reference lexer but not a string literal for the parser")),
                    }
                    k = e + 1;
                }
                stripped.push_str(&region);
            }
            _ => stripped.push_str(&region),
        }
        i = j;
    }
    if stripped != x {
        match catch_unwind(AssertUnwindSafe(|| anda_kip::parse_kip(&stripped))) {
            Ok(Ok(c2)) if &c2 == cmd => {}
            _ => out.push("replacing the regions the reference lexer calls comments by newlines changes the parse".to_string()),
        }
    }
    out
}

/// Canonical text of a value `parse_json` returned (the Lean driver prints the same form): numbers
/// are `i<decimal>` when serde_json holds an integer and `F` otherwise (the f64 itself is std's
/// business), strings are hex, object members are sorted by key (serde_json's map is a BTreeMap).
pub fn canon_json(v: &anda_kip::Json, out: &mut String) {
    use anda_kip::Json;
    match v {
        Json::Null => out.push('n'),
        Json::Bool(true) => out.push('t'),
        Json::Bool(false) => out.push('f'),
        Json::Number(n) => {
            if let Some(i) = n.as_i64() {
                out.push_str(&format!("i{i}"));
            } else if let Some(u) = n.as_u64() {
                out.push_str(&format!("i{u}"));
            } else {
                out.push('F');
            }
        }
        Json::String(s) => {
            out.push('s');
            out.push_str(&vh_common::hex(s.as_bytes()));
        }
        Json::Array(items) => {
            out.push('[');
            for (i, x) in items.iter().enumerate() {
                if i > 0 {
                    out.push(',');
                }
                canon_json(x, out);
            }
            out.push(']');
        }
        Json::Object(m) => {
            out.push('{');
            let mut keys: Vec<&String> = m.keys().collect();
            keys.sort();
            for (i, k) in keys.iter().enumerate() {
                if i > 0 {
                    out.push(',');
                }
                out.push('s');
                out.push_str(&vh_common::hex(k.as_bytes()));
                out.push(':');
                canon_json(&m[*k], out);
            }
            out.push('}');
        }
    }
}

pub fn json_depth_of(v: &anda_kip::Json) -> usize {
    use anda_kip::Json;
    match v {
        Json::Array(items) => 1 + items.iter().map(json_depth_of).max().unwrap_or(0),
        Json::Object(m) => 1 + m.values().map(json_depth_of).max().unwrap_or(0),
        _ => 0,
    }
}

pub struct Parsed {
    json_canon: String,
    lexer_mismatch: Vec<String>,
    kip: Res,
    kql: Res,
    kml: Res,
    meta: Res,
    json: Res,
    cmd: Option<Command>,
    problems: Vec<Value>,
    micros: u128,
}

fn problem(key: &str, what: &str, expected: &str, observed: &str) -> Value {
    json!({"key": key, "what": what, "expected": expected, "observed": observed})
}

/// Everything that must run on the small stack: the five entry points, the cross-entry-point
/// agreement, re-validation, the trailing-input check, and a clone + drop of the tree.
fn parse_all(x: &str) -> Parsed {
    let t0 = Instant::now();
    let mut problems: Vec<Value> = Vec::new();
    let mut lexer_mismatch: Vec<String> = Vec::new();
    let (kip, cmd) = guarded(|| anda_kip::parse_kip(x));
    let (kql, q) = guarded(|| anda_kip::parse_kql(x));
    let (kml, m) = guarded(|| anda_kip::parse_kml(x));
    let (meta, me) = guarded(|| anda_kip::parse_meta(x));
    let (json, jv) = guarded(|| anda_kip::parse_json(x));
    let mut json_canon = String::new();
    if let Some(v) = &jv {
        let d = json_depth_of(v);
        if d as i64 > DOC_MAX_DEPTH {
            problems.push(problem(
                "accepted-nesting-beyond-limit",
                &format!("parse_json returned a value nested {d} deep: brackets nested beyond the documented limit of {DOC_MAX_DEPTH} were parsed, not refused"),
                &format!("refused, or a value nested at most {DOC_MAX_DEPTH} deep"),
                &format!("ok, value nesting {d}"),
            ));
        }
        json_canon.push_str(&format!("{} ", json_depth_of(v)));
        canon_json(v, &mut json_canon);
    }
    let micros = t0.elapsed().as_micros();
    // deterministic: the same text gives the same answer (tree or error, message included)
    if let Ok(first) = catch_unwind(AssertUnwindSafe(|| anda_kip::parse_kip(x))) {
        if let Ok(second) = catch_unwind(AssertUnwindSafe(|| anda_kip::parse_kip(x))) {
            if first != second {
                problems.push(problem("nondeterministic-result", "parse_kip gave two different answers for the same text", &format!("{first:?}").chars().take(300).collect::<String>(), &format!("{second:?}").chars().take(300).collect::<String>()));
            }
        }
    }

    for (name, r) in [("parse_kip", &kip), ("parse_kql", &kql), ("parse_kml", &kml), ("parse_meta", &meta), ("parse_json", &json)] {
        if let Res::Panic(m) = r {
            problems.push(problem(&format!("panic-{name}"), &format!("{name} panicked"), "Ok or Err", &format!("panic: {m}")));
        }
    }

    // the general entry point agrees with the three specific ones: exactly one of them accepts
    // what parse_kip accepts (same tree), none accepts what it refuses
    let specific_ok = [&kql, &kml, &meta].iter().filter(|r| ***r == Res::Ok).count();
    if specific_ok > 1 {
        problems.push(problem("family-not-exclusive", "more than one of parse_kql/parse_kml/parse_meta accepted the text", "at most one", &format!("kql={} kml={} meta={}", kql.show(), kml.show(), meta.show())));
    }
    match (&kip, &cmd) {
        (Res::Ok, Some(c)) => {
            let (fam, same) = match c {
                Command::Kql(a) => ("kql", q.as_ref() == Some(a)),
                Command::Kml(a) => ("kml", m.as_ref() == Some(a)),
                Command::Meta(a) => ("meta", me.as_ref() == Some(a)),
            };
            if !same {
                problems.push(problem(
                    "entry-points-disagree",
                    &format!("parse_kip returned a {fam} command but parse_{fam} did not return the same tree"),
                    "same tree",
                    &format!("kql={} kml={} meta={}", kql.show(), kml.show(), meta.show()),
                ));
            }
            // passes the parser's own validation again
            let (v, _) = guarded(|| anda_kip::validate_command(c));
            if v != Res::Ok {
                problems.push(problem("revalidation-fails", "validate_command refuses a tree parse_kip returned", "ok", &v.show()));
            }
            // consumes the whole input: text after the command (on a new line, so that it is not
            // inside a trailing comment) is never silently ignored
            let junk = format!("{x}\n@");
            let (j, _) = guarded(|| anda_kip::parse_kip(&junk));
            if j == Res::Ok {
                problems.push(problem("trailing-input-ignored", "parse_kip accepted the text followed by a stray `@` on a new line", "err", "ok"));
            }
            // recursive Clone / Drop of the tree on the same small stack
            let c2 = c.clone();
            drop(c2);
            lexer_mismatch = lexer_agrees_with_parser(x, c);
        }
        (Res::Ok, None) => unreachable!(),
        _ => {
            if specific_ok > 0 && !matches!(kip, Res::Panic(_)) {
                problems.push(problem(
                    "entry-points-disagree",
                    "parse_kip refused a text one of the specific entry points accepts",
                    "all refuse",
                    &format!("kip={} kql={} kml={} meta={}", kip.show(), kql.show(), kml.show(), meta.show()),
                ));
            }
        }
    }

    // the budget verdict is the same at every entry point
    let bud = |r: &Res| match r {
        Res::Err(c) if c == "too_long" || c == "too_deep" || c == "resource_exhausted" => c.clone(),
        _ => "pass".to_string(),
    };
    let b = bud(&kip);
    for (name, r) in [("parse_kql", &kql), ("parse_kml", &kml), ("parse_meta", &meta), ("parse_json", &json)] {
        if !matches!(r, Res::Panic(_)) && !matches!(kip, Res::Panic(_)) && bud(r) != b {
            problems.push(problem("budget-differs-across-entry-points", &format!("{name} and parse_kip give different budget verdicts"), &b, &bud(r)));
        }
    }

    // inputs beyond the documented limits are refused (and nothing within them is)
    let br = code_brackets(x);
    let too_long = x.len() > DOC_MAX_LEN;
    let net = max_net_depth(&br);
    if too_long && b != "too_long" {
        problems.push(problem("budget-accepts-too-long", "an input longer than the documented limit was not refused as too long", "too_long", &b));
    }
    if !too_long && net > DOC_MAX_DEPTH && b == "pass" {
        problems.push(problem("budget-accepts-too-deep", &format!("an input with bracket nesting {net} was not refused"), "too_deep", &b));
    }
    if !too_long && b != "pass" {
        if let Some(d) = matched_depth(&br) {
            if d <= DOC_MAX_DEPTH {
                problems.push(problem("budget-refuses-within-limits", &format!("an input of {} bytes whose brackets match and nest {d} deep was refused", x.len()), "pass", &b));
            }
        }
    }
    Parsed { json_canon, lexer_mismatch, kip, kql, kml, meta, json, cmd, problems, micros }
}

/// JSON encode / decode of the tree (run on a roomy stack: the recursion here is serde's, not the
/// parser's). Returns the canonical text of the tree.
fn serde_checks(cmd: &Command, problems: &mut Vec<Value>) -> String {
    let text = match catch_unwind(AssertUnwindSafe(|| serde_json::to_string(cmd))) {
        Ok(Ok(t)) => t,
        Ok(Err(e)) => {
            problems.push(problem("serde-encode-fails", "serde_json::to_string of the parsed tree failed", "ok", &e.to_string()));
            return String::new();
        }
        Err(_) => {
            problems.push(problem("serde-encode-panics", "serde_json::to_string of the parsed tree panicked", "ok", "panic"));
            return String::new();
        }
    };
    match catch_unwind(AssertUnwindSafe(|| serde_json::from_str::<Command>(&text))) {
        Ok(Ok(back)) => {
            if &back != cmd {
                let again = serde_json::to_string(&back).unwrap_or_default();
                problems.push(problem("serde-roundtrip-changes-tree", "decode(encode(tree)) differs from the tree", &clip(&text), &clip(&again)));
            }
        }
        Ok(Err(e)) => {
            let msg = e.to_string();
            let key = if msg.contains("recursion limit") { "serde-decode-recursion-limit" } else { "serde-decode-fails" };
            problems.push(problem(key, "serde_json::from_str cannot decode the encoded tree", "the same tree", &format!("{msg}; json nesting {}", json_depth(&text))));
        }
        Err(_) => problems.push(problem("serde-decode-panics", "serde_json::from_str of the encoded tree panicked", "ok", "panic")),
    }
    if let Ok(Ok(val)) = catch_unwind(AssertUnwindSafe(|| serde_json::to_value(cmd))) {
        let n = result_nesting(&val);
        if n as i64 > DOC_MAX_DEPTH {
            problems.push(problem(
                "accepted-nesting-beyond-limit",
                &format!("parse_kip returned a tree whose bracket-made nodes nest {n} deep: brackets nested beyond the documented limit of {DOC_MAX_DEPTH} were parsed, not refused"),
                &format!("refused, or a tree nested at most {DOC_MAX_DEPTH} deep"),
                &format!("ok, result nesting {n}"),
            ));
        }
        drop_deep(val);
    }
    // through serde_json::Value as well (no recursion limit on this path)
    match catch_unwind(AssertUnwindSafe(|| serde_json::to_value(cmd).and_then(serde_json::from_value::<Command>))) {
        Ok(Ok(back)) => {
            if &back != cmd {
                problems.push(problem("serde-value-roundtrip-changes-tree", "from_value(to_value(tree)) differs from the tree", &clip(&text), "different"));
            }
        }
        Ok(Err(e)) => problems.push(problem("serde-value-roundtrip-fails", "from_value(to_value(tree)) failed", "ok", &e.to_string())),
        Err(_) => problems.push(problem("serde-value-roundtrip-panics", "from_value(to_value(tree)) panicked", "ok", "panic")),
    }
    text
}

/// Nesting of the RESULT, counted on the encoded tree: every node kind that only a bracket pair in the
/// source can produce (array / object values, object matchers, proposition tuples, NOT / OPTIONAL /
/// UNION blocks, operand lists, function calls). Independent of any reading of comments or strings:
/// whatever the text was, a tree nested deeper than the documented limit means brackets nested deeper
/// than the limit were parsed.
pub fn result_nesting(v: &Value) -> usize {
    const BRACKET_NODES: &[&str] = &["Array", "Object", "Match", "Tuple", "Not", "Optional", "Union", "List", "Function"];
    // explicit stack: the tree may be very deep
    let mut best = 0usize;
    let mut todo: Vec<(&Value, usize)> = vec![(v, 0)];
    while let Some((x, d)) = todo.pop() {
        best = best.max(d);
        match x {
            Value::Array(items) => todo.extend(items.iter().map(|i| (i, d))),
            Value::Object(m) => {
                for (k, i) in m {
                    todo.push((i, if BRACKET_NODES.contains(&k.as_str()) { d + 1 } else { d }));
                }
            }
            _ => {}
        }
    }
    best
}

/// drops a possibly very deep Value without recursion
fn drop_deep(v: Value) {
    let mut todo = vec![v];
    while let Some(x) = todo.pop() {
        match x {
            Value::Array(items) => todo.extend(items),
            Value::Object(m) => todo.extend(m.into_iter().map(|(_, v)| v)),
            _ => {}
        }
    }
}

fn clip(s: &str) -> String {
    if s.len() > 600 { format!("{}…", s.chars().take(600).collect::<String>()) } else { s.to_string() }
}

pub fn json_depth(text: &str) -> usize {
    let (mut d, mut best, mut in_str, mut esc) = (0usize, 0usize, false, false);
    for c in text.chars() {
        if in_str {
            if esc {
                esc = false
            } else if c == '\\' {
                esc = true
            } else if c == '"' {
                in_str = false
            }
        } else if c == '"' {
            in_str = true
        } else if c == '[' || c == '{' {
            d += 1;
            best = best.max(d);
        } else if c == ']' || c == '}' {
            d = d.saturating_sub(1);
        }
    }
    best
}

/// Evaluates one input; `stack` is the size of the parser thread's stack.
pub fn eval(x: &str, stack: usize) -> Value {
    let xs = x.to_string();
    let h = std::thread::Builder::new().name("kip-parse".into()).stack_size(stack).spawn(move || parse_all(&xs)).expect("spawn parser thread");
    let mut p = match h.join() {
        Ok(p) => p,
        Err(_) => {
            return json!({"fatal": "parser thread died outside catch_unwind"});
        }
    };
    let mut tree = String::new();
    if let Some(cmd) = p.cmd.take() {
        let mut problems = std::mem::take(&mut p.problems);
        let h = std::thread::Builder::new()
            .name("kip-serde".into())
            .stack_size(64 << 20)
            .spawn(move || {
                let t = serde_checks(&cmd, &mut problems);
                (t, problems)
            })
            .expect("spawn serde thread");
        match h.join() {
            Ok((t, pr)) => {
                tree = t;
                p.problems = pr;
            }
            Err(_) => p.problems.push(problem("serde-thread-died", "serde round trip thread died", "ok", "died")),
        }
    }
    let family = if p.kip == Res::Ok {
        if p.kql == Res::Ok {
            "kql"
        } else if p.kml == Res::Ok {
            "kml"
        } else if p.meta == Res::Ok {
            "meta"
        } else {
            "?"
        }
    } else {
        "none"
    };
    json!({
        "kip": p.kip.show(), "kql": p.kql.show(), "kml": p.kml.show(), "meta": p.meta.show(), "json": p.json.show(),
        "family": family, "tree": tree, "problems": p.problems, "micros": p.micros as u64, "lexer_mismatch": p.lexer_mismatch, "json_canon": p.json_canon,
    })
}

pub fn unhex(s: &str) -> Option<String> {
    if s == "-" {
        return Some(String::new());
    }
    if s.len() % 2 != 0 {
        return None;
    }
    let b = s.as_bytes();
    let mut out = Vec::with_capacity(b.len() / 2);
    for i in (0..b.len()).step_by(2) {
        let h = (b[i] as char).to_digit(16)?;
        let l = (b[i + 1] as char).to_digit(16)?;
        out.push((h * 16 + l) as u8);
    }
    String::from_utf8(out).ok()
}

/// `vh-c15 --child <stack_bytes>`
pub fn child_main(stack: usize) {
    // a panic inside catch_unwind is reported in the result; keep stderr quiet
    std::panic::set_hook(Box::new(|_| {}));
    let stdin = std::io::stdin();
    let stdout = std::io::stdout();
    for line in stdin.lock().lines() {
        let Ok(line) = line else { break };
        let line = line.trim();
        if line.is_empty() {
            continue;
        }
        let out = match unhex(line) {
            Some(x) => eval(&x, stack),
            None => json!({"fatal": "bad request"}),
        };
        let mut o = stdout.lock();
        let _ = writeln!(o, "{out}");
        let _ = o.flush();
    }
}
