//! Renderings and mutations of token lists, and the unstructured (raw) input generators.

use crate::grammar::Tok;
use vh_common::Rng;

/// Trivia the grammar must ignore between tokens (ASCII whitespace and `//` comments). Comments
/// carry quotes and brackets on purpose: they must not reach the depth guard or the string lexer.
pub const TRIVIA: &[&str] = &[
    " ",
    "  ",
    "\t",
    "\n",
    "\r\n",
    " \n\t ",
    " // c\n",
    "//\n",
    " //x\n  ",
    " // \" unbalanced quote\n",
    " // ((((((( [[[[ {{{{\n",
    "// }}} ))) ]]]\n",
    " // \"a\" // nested // \n",
    "\n// FIND(?x) WHERE { }\n",
    " // é 中 😀\n",
    " //\\\n",
    " ///\n",
    "\n\n",
];

/// Whitespace that `char::is_whitespace` accepts beyond what `multispace1` does.
pub const UNICODE_WS: &[&str] = &["\u{0B}", "\u{0C}", "\u{85}", "\u{A0}", "\u{1680}", "\u{2003}", "\u{2028}", "\u{2029}", "\u{202F}", "\u{205F}", "\u{3000}"];

pub fn render(toks: &[Tok]) -> String {
    let mut s = String::new();
    for (i, t) in toks.iter().enumerate() {
        if i > 0 {
            s.push(' ');
        }
        s.push_str(&t.text);
    }
    s
}

/// A choice of trivia for every gap of a token list: before the first token, between tokens
/// (never empty), after the last one.
#[derive(Clone, Debug)]
pub struct Seps {
    pub lead: String,
    pub between: Vec<String>,
    pub trail: String,
}

/// Every separator replaced by random trivia (never empty), plus leading / trailing trivia.
pub fn trivia_seps(n_toks: usize, r: &mut Rng, unicode: bool) -> Seps {
    let pick = |r: &mut Rng| -> String {
        if unicode && r.chance(1, 2) {
            let mut t = String::new();
            if r.chance(1, 3) {
                t.push(' ');
            }
            t.push_str(*r.pick(UNICODE_WS));
            t
        } else {
            r.pick(TRIVIA).to_string()
        }
    };
    let mut seps = Seps { lead: String::new(), between: Vec::new(), trail: String::new() };
    if r.chance(1, 2) {
        seps.lead = pick(r);
    }
    for _ in 1..n_toks.max(1) {
        let mut s = String::new();
        if r.chance(1, 2) {
            s.push(' ');
        } else {
            s.push_str(&pick(r));
            if r.chance(1, 4) {
                s.push_str(&pick(r));
            }
        }
        seps.between.push(s);
    }
    if r.chance(1, 2) {
        seps.trail = pick(r);
        if r.chance(1, 3) {
            seps.trail.push_str("// trailing comment without newline \" ( {");
        }
    }
    seps
}

pub fn render_with(toks: &[Tok], seps: &Seps) -> String {
    let mut s = seps.lead.clone();
    for (i, t) in toks.iter().enumerate() {
        if i > 0 {
            s.push_str(seps.between.get(i - 1).map(|x| x.as_str()).unwrap_or(" "));
        }
        s.push_str(&t.text);
    }
    s.push_str(&seps.trail);
    s
}

pub fn render_trivia(toks: &[Tok], r: &mut Rng, unicode: bool) -> String {
    let seps = trivia_seps(toks.len(), r, unicode);
    render_with(toks, &seps)
}

fn is_punct(t: &Tok) -> bool {
    matches!(t.text.as_str(), "(" | ")" | "{" | "}" | "[" | "]" | ",")
}

/// Separators dropped wherever one neighbour is a bracket or a comma.
pub fn render_squeezed(toks: &[Tok]) -> String {
    let mut s = String::new();
    for (i, t) in toks.iter().enumerate() {
        if i > 0 && !(is_punct(t) || is_punct(&toks[i - 1])) {
            s.push(' ');
        }
        s.push_str(&t.text);
    }
    s
}

/// Keyword tokens re-cased (lower / upper / random per letter); everything else untouched.
pub fn flip_case(toks: &[Tok], r: &mut Rng) -> Vec<Tok> {
    let style = r.below(3);
    toks.iter()
        .map(|t| {
            if !t.kw {
                return t.clone();
            }
            let text: String = t
                .text
                .chars()
                .map(|c| match style {
                    0 => c.to_ascii_lowercase(),
                    1 => c.to_ascii_uppercase(),
                    _ => {
                        if r.chance(1, 2) {
                            c.to_ascii_lowercase()
                        } else {
                            c.to_ascii_uppercase()
                        }
                    }
                })
                .collect();
            Tok { kw: true, text }
        })
        .collect()
}

/// Token-level mutation: splice / delete / duplicate / truncate / swap / stray bracket or quote token.
/// Tokens stay whole, so the result still has well-defined token boundaries.
pub fn mutate_tokens(toks: &[Tok], donor: &[Tok], r: &mut Rng) -> (Vec<Tok>, &'static str) {
    let mut v = toks.to_vec();
    if v.is_empty() {
        return (donor.to_vec(), "mut:empty");
    }
    let i = r.usize(v.len());
    match r.below(9) {
        0 => {
            // splice a run of the donor
            if donor.is_empty() {
                return (v, "mut:none");
            }
            let a = r.usize(donor.len());
            let b = (a + 1 + r.usize(6)).min(donor.len());
            let run: Vec<Tok> = donor[a..b].to_vec();
            v.splice(i..i, run);
            (v, "mut:splice")
        }
        1 => {
            let b = (i + 1 + r.usize(3)).min(v.len());
            v.drain(i..b);
            (v, "mut:delete")
        }
        2 => {
            let b = (i + 1 + r.usize(4)).min(v.len());
            let run: Vec<Tok> = v[i..b].to_vec();
            v.splice(b..b, run);
            (v, "mut:duplicate")
        }
        3 => {
            v.truncate(i);
            (v, "mut:truncate")
        }
        4 => {
            let j = r.usize(v.len());
            v.swap(i, j);
            (v, "mut:swap")
        }
        5 => {
            let b = *r.pick(&["(", ")", "{", "}", "[", "]", ",", ":", "|", "!", "-"]);
            v.insert(i, Tok { kw: false, text: b.to_string() });
            (v, "mut:stray-punct")
        }
        6 => {
            // replace by another token kind
            let t = *r.pick(&["?x", ":p", "\"s\"", "1", "true", "null", "x", "?x.a[\"k\"]", "-1", "\"(\"", "\"//\""]);
            v[i] = Tok { kw: false, text: t.to_string() };
            (v, "mut:replace")
        }
        7 => {
            // a keyword from elsewhere
            let k = *r.pick(&["FIND", "WHERE", "NOT", "SET", "LIMIT", "MUTATE", "DESCRIBE", "BELIEF", "FILTER", "AS", "OF", "BY", "WITH"]);
            v.insert(i, Tok { kw: false, text: k.to_string() });
            (v, "mut:stray-keyword")
        }
        _ => {
            // drop the closing half: everything after i that is a closer
            let mut n = 0;
            v.retain(|t| {
                let closer = matches!(t.text.as_str(), ")" | "}" | "]");
                if closer && n < 2 {
                    n += 1;
                    false
                } else {
                    true
                }
            });
            (v, "mut:drop-closers")
        }
    }
}

/// Character-level damage of a rendered sentence (token boundaries are lost: only the
/// non-metamorphic checks apply to the result).
pub fn mutate_chars(s: &str, r: &mut Rng) -> (String, &'static str) {
    let chars: Vec<char> = s.chars().collect();
    if chars.is_empty() {
        return (String::new(), "raw:empty");
    }
    let i = r.usize(chars.len());
    match r.below(9) {
        0 => (chars[..i].iter().collect(), "raw:truncate"),
        1 => {
            let mut v = chars.clone();
            let b = (i + 1 + r.usize(5)).min(v.len());
            v.drain(i..b);
            (v.into_iter().collect(), "raw:delete")
        }
        2 => {
            let mut v = chars.clone();
            let c = *r.pick(&['"', '\\', '/', '(', ')', '{', '}', '[', ']', '\n', '\u{0}', '\u{7f}', 'é', '😀', '\u{212A}', '\u{FEFF}', '\u{A0}', '\u{0130}', '\u{2028}']);
            v.insert(i, c);
            (v.into_iter().collect(), "raw:insert-char")
        }
        3 => {
            let mut v = chars.clone();
            let c = *r.pick(&['"', '\\', '/', '(', '}', ' ', '?', ':', '_', '\u{212A}', 'ſ', 'İ', '\u{1}', '９', 'Ⅷ']);
            v[i] = c;
            (v.into_iter().collect(), "raw:replace-char")
        }
        4 => {
            // Kelvin sign / long s / dotted I for K / S / I (Unicode case folding of `tag_no_case`)
            let v: String = chars
                .iter()
                .map(|&c| match c {
                    'K' | 'k' if r.chance(1, 2) => '\u{212A}',
                    'S' | 's' if r.chance(1, 4) => 'ſ',
                    'I' if r.chance(1, 4) => 'İ',
                    _ => c,
                })
                .collect();
            (v, "raw:unicode-case")
        }
        5 => {
            let mut v = chars.clone();
            let b = (i + 1 + r.usize(8)).min(v.len());
            let run: Vec<char> = v[i..b].to_vec();
            for _ in 0..(1 + r.usize(3)) {
                v.splice(i..i, run.clone());
            }
            (v.into_iter().collect(), "raw:duplicate")
        }
        6 => {
            // unterminated string / comment at a random place
            let mut v = chars.clone();
            let t = *r.pick(&["\"", "//", "\"\\", "/", "\\\""]);
            v.splice(i..i, t.chars());
            (v.into_iter().collect(), "raw:open-string-or-comment")
        }
        7 => {
            let j = r.usize(chars.len());
            let mut v = chars.clone();
            v.swap(i, j);
            (v.into_iter().collect(), "raw:swap")
        }
        _ => {
            // glue: remove one whitespace character
            let mut v = chars.clone();
            if let Some(p) = v.iter().skip(i).position(|c| c.is_whitespace()) {
                v.remove(i + p);
            }
            (v.into_iter().collect(), "raw:glue")
        }
    }
}

/// Arbitrary Unicode text (not derived from the grammar).
pub fn arbitrary_unicode(r: &mut Rng) -> String {
    let cap = if r.chance(1, 10) { 400 } else { 60 };
    let n = r.usize(cap);
    let mut s = String::new();
    for _ in 0..n {
        let c = match r.below(12) {
            0 => *r.pick(&['"', '\\', '/', '(', ')', '{', '}', '[', ']', ',', ':', '?', '!', '|', '-', '.', '_', '&', '=', '<', '>']),
            1 => *r.pick(&[' ', '\n', '\t', '\r', '\u{A0}', '\u{2003}', '\u{0B}', '\u{0C}']),
            2 => char::from_u32(r.below(0x80) as u32).unwrap(),
            3 => char::from_u32(0x80 + r.below(0x780) as u32).unwrap_or('¿'),
            4 => char::from_u32(0x800 + r.below(0xF000) as u32).unwrap_or('中'),
            5 => char::from_u32(0x10000 + r.below(0xFFFFF) as u32).unwrap_or('😀'),
            6 => *r.pick(&['\u{212A}', 'ſ', 'İ', 'ı', 'ß', 'ǅ', '\u{FEFF}', '\u{200B}', '\u{202E}', '\u{0}', '\u{FFFD}', '\u{10FFFF}', '\u{D7FF}', '\u{E000}']),
            7 => *r.pick(&['F', 'I', 'N', 'D', 'S', 'E', 'T', 'f', 'i', 'n', 'd']),
            _ => (b'a' + r.below(26) as u8) as char,
        };
        s.push(c);
    }
    if r.chance(1, 3) {
        // start with something that looks like a command head
        let head = *r.pick(&["FIND", "find(", "MUTATE {", "DESCRIBE ", "SET", "UPDATE ?x ", "ASSERT (", "LIST", "EXPORT CAPSULE", "FIND\u{A0}(", "//x\nFIND"]);
        s = format!("{head}{s}");
    }
    s
}

/// Bracket soup: openers, closers (often the wrong kind), quotes, backslashes, slashes and newlines,
/// with the running count steered to hover around the depth limit. Exercises the pre-scan's stack
/// discipline (a closer pops only its own opener), its string / escape / comment states and the
/// exact position of the refusal — the things the Lean model mirrors branch by branch.
pub fn bracket_soup(r: &mut Rng) -> String {
    let cap = if r.chance(1, 4) { 900 } else { 300 };
    let n = 40 + r.usize(cap);
    let target: i64 = *r.pick(&[10, 60, 63, 64, 65, 66, 70, 120]);
    let wrong_closers = r.chance(1, 2);
    let mut s = String::new();
    let mut open: Vec<char> = Vec::new();
    if r.chance(1, 3) {
        s.push_str(*r.pick(&["FIND(?x) WHERE { ?x { a: ", "DESCRIBE ACCESS WITH ", "MUTATE { ", "// ", "\""]));
    }
    for _ in 0..n {
        let d = open.len() as i64;
        let k = r.below(100);
        if k < 8 {
            s.push(*r.pick(&['"', '"', '\\', '/', '/', '\n', ' ', 'a', ',', ':', '1', '?', '\'', '\t', 'é']));
            if r.chance(1, 3) {
                s.push(*r.pick(&['"', '/', '\\', '\n']));
            }
        } else if (d < target && k < 70) || (d >= target && k < 30) {
            let c = *r.pick(&['(', '[', '{']);
            open.push(c);
            s.push(c);
        } else {
            let right = match open.last() {
                Some('(') => ')',
                Some('[') => ']',
                Some('{') => '}',
                _ => ')',
            };
            if wrong_closers && r.chance(1, 3) {
                s.push(*r.pick(&[')', ']', '}']));
            } else {
                open.pop();
                s.push(right);
            }
        }
    }
    s
}

// ---------------------------------------------------------------------------------------------
// KIP's JSON dialect (parser/json.rs): identifier keys, `//` comments, trailing commas
// ---------------------------------------------------------------------------------------------

const JSON_NUMBERS: &[&str] = &[
    "0", "-0", "1", "-1", "42", "007", "01", "+1", "1.", ".5", "-.5", "1.5", "-2.25", "1e3", "1E3", "1e+3", "1e-3", "1e", "1e+", "1.e5", "1.5e",
    "18446744073709551615", "18446744073709551616", "-9223372036854775808", "-9223372036854775809", "9223372036854775807", "99999999999999999999999",
    "1e308", "1e309", "1.7976931348623157e308", "1.7976931348623158e308", "1.7976931348623159e308", "17976931348623158e292", "0.00000000001e400",
    "1e-400", "0e999999999999999999999", "1e999999999999999999999", "1e-999999999999999999999", "0.0", "-0.0", "-0e0", "5e-324", "2.5e-324", "123456789012345678901234567890.5",
    "1.0", "100", "-", "--1", "1-", "0x10", "1_000", "Infinity", "NaN", "-Infinity", "1e1.5", "1..2", "00", "-00", "0.0e0", "9.53161982818731310",
];
const JSON_STRINGS: &[&str] = &[
    r#""""#, r#""a""#, r#""key""#, r#""é中😀""#, r#""\n\t\r\b\f\/\\\"""#, r#""\u0041""#, r#""\u00e9""#, r#""\ud83d\ude00""#, r#""\ud83d""#, r#""\ude00""#, r#""\ud83d\u0041""#,
    r#""\uD83D\uDE00""#, r#""\u12""#, r#""\u+041""#, r#""\u 041""#, r#""\x41""#, r#""\a""#, r#""\U0041""#, r#""\u0000""#, r#""\u001f""#, r#""\uffff""#, r#""\ud7ff\ue000""#, "\"tab\there\"", "\"nl\nhere\"",
    "\"del\u{7f}ok\"", r#""// not a comment""#, r#""[{(""#, r#""a\"b""#, r#""\\""#, r#""\\\"""#, r#""unterminated"#, r#""a"#, r#""\"#, r#""\ud83d\"#, r#""\ud83d\u"#, r#""\ud83d\ude0"#, r#""\u0061""#,
];
const JSON_KEYS: &[&str] = &["a", "b", "name", "_x", "A1", "type", "null", "true", "k_9", "9a", "é", "a-b", "", "a b"];

fn json_value_text(r: &mut Rng, depth: u32, out: &mut String) {
    let trivia = |r: &mut Rng, out: &mut String| {
        if r.chance(1, 3) {
            out.push_str(*r.pick(&[" ", "  ", "\n", "\t", " // c\n", "//\n", " // \" [ {\n", "\u{a0}", "\u{c}", "\r\n"]));
        }
    };
    let k = r.below(if depth == 0 { 6 } else { 10 });
    match k {
        0 => out.push_str(*r.pick(&["null", "true", "false", "null", "true", "false", "NULL", "True", "nul", "nulll", "truefalse", "undefined"])),
        1 | 2 => out.push_str(*r.pick(JSON_NUMBERS)),
        3 | 4 => out.push_str(*r.pick(JSON_STRINGS)),
        5 => {
            // a random decimal
            if r.chance(1, 3) {
                out.push('-');
            }
            out.push_str(&format!("{}", r.below(100000)));
            if r.chance(1, 2) {
                out.push_str(&format!(".{}", r.below(1000)));
            }
            if r.chance(1, 3) {
                out.push_str(&format!("e{}", r.range(-320, 320)));
            }
        }
        6 | 7 => {
            out.push('[');
            let n = r.usize(4);
            trivia(r, out);
            for i in 0..n {
                if i > 0 {
                    trivia(r, out);
                    out.push(',');
                    trivia(r, out);
                }
                json_value_text(r, depth - 1, out);
            }
            match r.below(12) {
                0 => out.push(','),
                1 => out.push_str(" , "),
                2 => out.push_str(",,"),
                _ => {}
            }
            trivia(r, out);
            if !r.chance(1, 25) {
                out.push(']');
            }
        }
        _ => {
            out.push('{');
            let n = r.usize(4);
            trivia(r, out);
            for i in 0..n {
                if i > 0 {
                    trivia(r, out);
                    out.push(',');
                    trivia(r, out);
                }
                match r.below(8) {
                    0 | 1 => out.push_str(*r.pick(JSON_STRINGS)),
                    2 => out.push_str(*r.pick(&["\"a\"", "\"\\u0061\"", "\"b\"", "\"name\""])),
                    _ => out.push_str(*r.pick(JSON_KEYS)),
                }
                trivia(r, out);
                if !r.chance(1, 25) {
                    out.push(':');
                }
                trivia(r, out);
                json_value_text(r, depth - 1, out);
            }
            if r.chance(1, 8) {
                out.push(',');
            }
            trivia(r, out);
            if !r.chance(1, 25) {
                out.push('}');
            }
        }
    }
}

/// A text in (or near) KIP's JSON dialect.
pub fn json_text(r: &mut Rng) -> String {
    let mut s = String::new();
    if r.chance(1, 4) {
        s.push_str(*r.pick(&[" ", "\n", "// lead\n", "\u{feff}", "\t// a\n// b\n"]));
    }
    if r.chance(1, 12) {
        // nests around the depth limit
        let d = *r.pick(&[60usize, 63, 64, 65, 66, 70]);
        let open = *r.pick(&["[", "{a:", "[{b:["]);
        let close = match open {
            "[" => "]",
            "{a:" => "}",
            _ => "]}]",
        };
        let per = open.chars().filter(|c| "[{".contains(*c)).count();
        let n = d / per;
        s.push_str(&open.repeat(n));
        s.push_str(*r.pick(&["1", "null", "\"x\"", ""]));
        s.push_str(&close.repeat(n));
    } else {
        let depth = 1 + r.below(4) as u32;
        json_value_text(r, depth, &mut s);
    }
    if r.chance(1, 4) {
        s.push_str(*r.pick(&[" ", "\n", " // trail", " x", ",", " 1", "\u{a0}"]));
    }
    s
}

// ---------------------------------------------------------------------------------------------
// where a `//` comment ends
// ---------------------------------------------------------------------------------------------

/// Candidate line terminators (name, text). Only `\n` (and the end of the input) ends a comment in the
/// documented grammar ("// comments to end of line", `skip_ws_and_comments`, the pre-scan).
pub const TERMINATORS: &[(&str, &str)] =
    &[("lf", "\n"), ("crlf", "\r\n"), ("cr", "\r"), ("ff", "\u{c}"), ("vt", "\u{b}"), ("nel", "\u{85}"), ("ls", "\u{2028}"), ("ps", "\u{2029}")];

/// `pre // body <T> payload \n post` with the two explicit spellings of its admissible readings:
/// T ends the comment (`pre payload \n post`) or it does not (`pre \n post`). Whatever a parser and the
/// pre-scan take T for, together they must read the text as one of the two. Covers all entry points
/// (a JSON frame for parse_json, KQL / KML / META frames for the others).
pub fn comment_terminator_case(r: &mut Rng, thorough: bool) -> (String, Vec<String>, String) {
    let frames: &[(&str, &str, &str)] = &[
        ("json", "[1, ", " 2]"),
        ("json", "{a: [ ", " null ], }"),
        ("meta", "DESCRIBE ACCESS WITH { a : [ ", " 1 ] }"),
        ("kql", "FIND(?x) WHERE { ?x { a : [ ", " 1 ] } } LIMIT 5"),
        ("kml", "CREATE CONCEPT ?h { SET ATTRIBUTES { a : [ ", " 1 ] } }"),
        ("kml", "UPDATE :t SET FIELDS { a : [ ", " 1 ] }"),
    ];
    let (fam, pre, post) = *r.pick(frames);
    let (tname, t) = *r.pick(TERMINATORS);
    let body = *r.pick(&[" c", "", " \" (", " [[[[", " ]]]] }", " x // y", " é"]);
    let nest = |d: usize| format!("{}{},", "[".repeat(d), "]".repeat(d));
    let (pname, payload): (&str, String) = match r.below(if thorough { 12 } else { 10 }) {
        0 | 1 => ("nest-3", nest(3)),
        2 => ("nest-60", nest(60)),
        3 | 4 => ("nest-100", nest(100)),
        5 => ("scalar", "2 ,".to_string()),
        6 => ("string", "\"s\" ,".to_string()),
        7 => ("closers", "] ] ] }".to_string()),
        8 => ("open-quote", "\" ".to_string()),
        9 => ("nest-1000", nest(1000)),
        // inside the length limit, far beyond any stack: only the pre-scan can stop a parser here
        _ => ("nest-130000", "[".repeat(130_000)),
    };
    if r.chance(1, 12) {
        // the comment is the last thing in the text: the end of the input terminates it
        let x = format!("{pre}{post} //{body} {payload}");
        return (x, vec![format!("{pre}{post}")], format!("cterm:{fam}:eof:{pname}"));
    }
    let x = format!("{pre}//{body}{t}{payload}\n{post}");
    let live = format!("{pre} {payload}\n{post}");
    let dead = format!("{pre}\n{post}");
    (x, vec![live, dead], format!("cterm:{fam}:{tname}:{pname}"))
}
