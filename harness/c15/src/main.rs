//! Harness for property C15 — KIP parsing is total, bounded, deterministic and classifies by content.
//!
//! * generator: grammar-derived KQL / KML / META sentences (`grammar.rs`), token-level and
//!   character-level mutations, arbitrary Unicode, nests around and beyond the depth limit,
//!   inputs around and beyond the length limit (`mutate.rs`);
//! * real code: `anda_kip::{parse_kip, parse_kql, parse_kml, parse_meta, parse_json,
//!   validate_command}` in a child process of this binary, every parse under `catch_unwind` on a
//!   thread with a small fixed stack, with a wall-clock bound enforced by the parent (`child.rs`);
//! * correspondence: budget verdict and family against the Lean model (`drv_c15`);
//! * oracle (independent of the model): see `child.rs::parse_all` / `serde_checks` and the
//!   metamorphic comparisons in `run_case` below.
//!
//! Line protocol of a case (what the corpus stores and a replay carries). First line: the mode.
//!   mode raw                   the input is the concatenation of the chunks that follow
//!     b <hex>                  a chunk (UTF-8 bytes in hex)
//!     rep <n> <hex>            a chunk repeated n times
//!   mode tok <flags> <vseed>   the input is a token list, rendered with single spaces (base) and as
//!                              variants seeded by vseed; flags: `m` trivia metamorphism applies, `c`
//!                              keyword tokens stand in keyword positions (case metamorphism applies), `-` none
//!     t K <hex> | t T <hex>    a keyword token / any other token
//!   mode json                  like `mode raw`; the input is in (or near) KIP's JSON dialect and is compared
//!                              with the Lean model of `parse_json` (request `j <hex>`): verdict and value
//!   mode oneof <key>           `x <hex>` is the input, every `a <hex>` an explicit spelling of one admissible
//!     x <hex> / a <hex>        reading; the answers of all five entry points for x (verdict kinds, tree,
//!                              JSON value) must be those for one of the alternatives (failure key = <key>)
//!   mode same <key>            explicit metamorphic set: every line is a whole input, all of them must
//!     s <hex>                  parse to the same result (failure key = <key>)
//!   mode words                 correspondence of `words(&[..])` / `trivia1`: every line is a separator;
//!     s <hex>                  `DESCRIBE EXECUTION<sep>CONTEXT` is parsed and the model is asked whether
//!                              `words(&["EXECUTION","CONTEXT"])` matches `EXECUTION<sep>CONTEXT`
//!   expect <result>            (any mode, optional) parse_kip's answer for the base input:
//!                              ok | err:syntax | err:too_deep | err:too_long
//! Requests to the Lean driver (one per evaluated string): `k <hex> <non-ASCII alphanumerics>` (budget
//! verdict + family), `x <hex>` (reference lexer classes, sampled), `w …` (words), `wsset` / `alnumset`.

mod child;
mod grammar;
mod mutate;

use grammar::{Gen, Tok};
use std::collections::BTreeMap;
use std::io::{BufRead, BufReader, Write};
use std::process::{Child, ChildStdin, Command, Stdio};
use std::sync::mpsc::{Receiver, RecvTimeoutError, channel};
use std::time::{Duration, Instant};
use vh_common::serde_json::{Value, json};
use vh_common::{Args, ModelProc, Report, Rng, hex, read_corpus, read_replay, shrink};

/// Stack of the thread the real parser runs on. Rust's default for spawned threads (and for tokio
/// workers, which is where the servers call the parser) is 2 MiB; the check allows a quarter of it.
const PARSER_STACK: usize = 512 * 1024;
/// Wall-clock bound for one input at all five entry points (plus re-validation, re-parse with a
/// trailing token, clone/drop, serde round trip). A first timeout is retried once with three times
/// the bound on a fresh child (the machine may be loaded); only the second one is a failure.
const EVAL_TIMEOUT: Duration = Duration::from_secs(20);

// ---------------------------------------------------------------------------------------------
// child process
// ---------------------------------------------------------------------------------------------

struct ChildProc {
    child: Child,
    stdin: ChildStdin,
    rx: Receiver<String>,
    stack: usize,
    pub respawns: u64,
}

enum EvalErr {
    Died(String),
    Timeout,
}

impl ChildProc {
    fn spawn(stack: usize) -> ChildProc {
        // `/proc/self/exe` still names this very binary when the file on disk has been replaced by a
        // rebuild in the meantime (current_exe() would then end in " (deleted)")
        let exe = if std::path::Path::new("/proc/self/exe").exists() { std::path::PathBuf::from("/proc/self/exe") } else { std::env::current_exe().expect("current_exe") };
        let mut child = Command::new(exe).arg("--child").arg(stack.to_string()).stdin(Stdio::piped()).stdout(Stdio::piped()).stderr(Stdio::null()).spawn().expect("spawn child");
        let stdin = child.stdin.take().unwrap();
        let stdout = child.stdout.take().unwrap();
        let (tx, rx) = channel();
        std::thread::spawn(move || {
            for line in BufReader::new(stdout).lines() {
                let Ok(line) = line else { break };
                if tx.send(line).is_err() {
                    break;
                }
            }
        });
        ChildProc { child, stdin, rx, stack, respawns: 0 }
    }
    fn restart(&mut self) {
        let _ = self.child.kill();
        let _ = self.child.wait();
        let stack = self.stack;
        let n = self.respawns + 1;
        *self = ChildProc::spawn(stack);
        self.respawns = n;
    }
    fn eval(&mut self, x: &str) -> Result<Value, EvalErr> {
        match self.eval_with(x, EVAL_TIMEOUT) {
            Err(EvalErr::Timeout) => self.eval_with(x, EVAL_TIMEOUT * 3),
            r => r,
        }
    }
    fn eval_with(&mut self, x: &str, timeout: Duration) -> Result<Value, EvalErr> {
        let line = if x.is_empty() { "-".to_string() } else { hex(x.as_bytes()) };
        let sent = self.stdin.write_all(line.as_bytes()).and_then(|_| self.stdin.write_all(b"\n")).and_then(|_| self.stdin.flush());
        if sent.is_err() {
            let st = self.child.wait().map(|s| s.to_string()).unwrap_or_default();
            self.restart();
            return Err(EvalErr::Died(st));
        }
        match self.rx.recv_timeout(timeout) {
            Ok(l) => vh_common::serde_json::from_str(&l).map_err(|e| EvalErr::Died(format!("bad child output: {e}"))),
            Err(RecvTimeoutError::Timeout) => {
                self.restart();
                Err(EvalErr::Timeout)
            }
            Err(RecvTimeoutError::Disconnected) => {
                let st = self.child.wait().map(|s| s.to_string()).unwrap_or_default();
                self.restart();
                Err(EvalErr::Died(st))
            }
        }
    }
}

impl Drop for ChildProc {
    fn drop(&mut self) {
        let _ = self.child.kill();
        let _ = self.child.wait();
    }
}

// ---------------------------------------------------------------------------------------------
// cases
// ---------------------------------------------------------------------------------------------

#[derive(Clone, Debug)]
enum Case {
    Raw(String),
    /// compared with the model of `parse_json` as well
    Json(String),
    /// `vseed` fixes the random choices of the metamorphic variants (kept stable while shrinking)
    Tok { flags: String, vseed: u64, toks: Vec<Tok> },
    /// inputs that must all parse to the same result
    Same { key: String, inputs: Vec<String> },
    /// separators tried between the two words of `EXECUTION CONTEXT`
    Words { seps: Vec<String> },
    /// the input must be read as one of the alternatives (all entry points at once)
    OneOf { key: String, x: String, alts: Vec<String> },
}

fn case_to_ops(c: &Case) -> Vec<String> {
    match c {
        Case::Raw(s) | Case::Json(s) => {
            let mut ops = vec![if matches!(c, Case::Json(_)) { "mode json".to_string() } else { "mode raw".to_string() }];
            // runs of one repeated character are stored as `rep`, the rest in small chunks
            let chars: Vec<char> = s.chars().collect();
            let mut i = 0;
            let mut buf = String::new();
            let flush = |buf: &mut String, ops: &mut Vec<String>| {
                if !buf.is_empty() {
                    ops.push(format!("b {}", hex(buf.as_bytes())));
                    buf.clear();
                }
            };
            while i < chars.len() {
                let mut j = i;
                while j < chars.len() && chars[j] == chars[i] {
                    j += 1;
                }
                if j - i >= 24 {
                    flush(&mut buf, &mut ops);
                    ops.push(format!("rep {} {}", j - i, hex(chars[i].to_string().as_bytes())));
                    i = j;
                } else {
                    buf.push(chars[i]);
                    if buf.chars().count() >= 8 {
                        flush(&mut buf, &mut ops);
                    }
                    i += 1;
                }
            }
            flush(&mut buf, &mut ops);
            ops
        }
        Case::OneOf { key, x, alts } => {
            let hx = |t: &String| if t.is_empty() { "-".to_string() } else { hex(t.as_bytes()) };
            let mut ops = vec![format!("mode oneof {key}"), format!("x {}", hx(x))];
            ops.extend(alts.iter().map(|a| format!("a {}", hx(a))));
            ops
        }
        Case::Words { seps } => {
            let mut ops = vec!["mode words".to_string()];
            for x in seps {
                ops.push(format!("s {}", if x.is_empty() { "-".to_string() } else { hex(x.as_bytes()) }));
            }
            ops
        }
        Case::Same { key, inputs } => {
            let mut ops = vec![format!("mode same {key}")];
            for x in inputs {
                ops.push(format!("s {}", if x.is_empty() { "-".to_string() } else { hex(x.as_bytes()) }));
            }
            ops
        }
        Case::Tok { flags, vseed, toks } => {
            let mut ops = vec![format!("mode tok {} {}", if flags.is_empty() { "-" } else { flags }, vseed)];
            for t in toks {
                ops.push(format!("t {} {}", if t.kw { "K" } else { "T" }, hex(t.text.as_bytes())));
            }
            ops
        }
    }
}

fn expectation(ops: &[String]) -> Option<String> {
    ops.iter().find_map(|l| l.strip_prefix("expect ").map(|s| s.trim().to_string()))
}

fn ops_to_case(ops: &[String]) -> Option<Case> {
    let ops: Vec<String> = ops.iter().filter(|l| !l.starts_with("expect ")).cloned().collect();
    let ops = &ops[..];
    let head: Vec<&str> = ops.first()?.split_whitespace().collect();
    match head.as_slice() {
        ["mode", m @ ("raw" | "json")] => {
            let is_json = *m == "json";
            let mut s = String::new();
            for l in &ops[1..] {
                let w: Vec<&str> = l.split_whitespace().collect();
                match w.as_slice() {
                    ["b", h] => s.push_str(&child::unhex(h)?),
                    ["rep", n, h] => {
                        let n: usize = n.parse().ok()?;
                        if n > 4_000_000 {
                            return None;
                        }
                        let c = child::unhex(h)?;
                        for _ in 0..n {
                            s.push_str(&c);
                        }
                    }
                    _ => return None,
                }
            }
            Some(if is_json { Case::Json(s) } else { Case::Raw(s) })
        }
        ["mode", "oneof", key] => {
            let (mut x, mut alts) = (None, Vec::new());
            for l in &ops[1..] {
                let w: Vec<&str> = l.split_whitespace().collect();
                match w.as_slice() {
                    ["x", h] => x = Some(child::unhex(h)?),
                    ["a", h] => alts.push(child::unhex(h)?),
                    _ => return None,
                }
            }
            Some(Case::OneOf { key: key.to_string(), x: x?, alts })
        }
        ["mode", "words"] => {
            let mut seps = Vec::new();
            for l in &ops[1..] {
                let w: Vec<&str> = l.split_whitespace().collect();
                match w.as_slice() {
                    ["s", h] => seps.push(child::unhex(h)?),
                    _ => return None,
                }
            }
            Some(Case::Words { seps })
        }
        ["mode", "same", key] => {
            let mut inputs = Vec::new();
            for l in &ops[1..] {
                let w: Vec<&str> = l.split_whitespace().collect();
                match w.as_slice() {
                    ["s", h] => inputs.push(child::unhex(h)?),
                    _ => return None,
                }
            }
            Some(Case::Same { key: key.to_string(), inputs })
        }
        ["mode", "tok", flags, vseed] => {
            let vseed: u64 = vseed.parse().ok()?;
            let mut toks = Vec::new();
            for l in &ops[1..] {
                let w: Vec<&str> = l.split_whitespace().collect();
                match w.as_slice() {
                    ["t", k, h] => toks.push(Tok { kw: *k == "K", text: child::unhex(h)? }),
                    _ => return None,
                }
            }
            Some(Case::Tok { flags: flags.replace('-', ""), vseed, toks })
        }
        _ => None,
    }
}


// ---------------------------------------------------------------------------------------------
// evaluation of a case
// ---------------------------------------------------------------------------------------------

#[derive(Default, Clone)]
struct Outcome {
    canon: String,
    nontrivial: bool,
    hits: Vec<String>,
    /// (what, model, impl)
    disagreements: Vec<(String, String, String)>,
    /// (key, what, expected, observed)
    failures: Vec<(String, String, String, String)>,
    model_compared: u64,
    strings: u64,
    max_micros: u64,
    sample: Option<Value>,
    /// parse_kip's answer for the base input
    base_result: String,
}

struct Worker {
    child: ChildProc,
    model: Option<ModelProc>,
    /// failures shrunk so far, per key (shrinking is expensive: the first few of a kind only)
    shrunk_per_key: BTreeMap<String, u32>,
    located_per_key: BTreeMap<String, u32>,
    /// the case being evaluated is a `mode json` case
    json_mode: bool,
}

#[derive(Clone)]
struct Ev {
    status: String,
    family: String,
    tree: String,
    json_ok: bool,
    json_canon: String,
    /// the answers of all five entry points (verdict kinds), the tree and the JSON value
    all: String,
}

/// deepest stack of a strict matcher until it stops (independent re-statement of `strictDepth`)
fn strict_depth(br: &[char]) -> usize {
    let mut st: Vec<char> = Vec::new();
    let mut best = 0;
    for &c in br {
        match c {
            '(' | '[' | '{' => {
                st.push(c);
                best = best.max(st.len());
            }
            _ => {
                let want = match c {
                    ')' => '(',
                    ']' => '[',
                    _ => '{',
                };
                if st.last() == Some(&want) {
                    st.pop();
                } else {
                    break;
                }
            }
        }
    }
    best
}

fn clip(s: &str, n: usize) -> String {
    if s.chars().count() > n { format!("{}… ({} bytes)", s.chars().take(n).collect::<String>(), s.len()) } else { s.to_string() }
}

impl Worker {
    /// Evaluates one rendered input on the real parser (all checks that concern a single string)
    /// and compares budget verdict and family with the model.
    fn eval_string(&mut self, x: &str, label: &str, o: &mut Outcome) -> Option<Ev> {
        o.strings += 1;
        let v = match self.child.eval(x) {
            Ok(v) => v,
            Err(EvalErr::Died(st)) => {
                o.failures.push((
                    "process-abort".into(),
                    format!("the process running the parser died while parsing the {label} input ({} bytes) on a {} KiB stack: stack overflow or abort", x.len(), self.child.stack / 1024),
                    "Ok or Err".into(),
                    format!("child exit: {st}; input: {}", clip(x, 300)),
                ));
                return None;
            }
            Err(EvalErr::Timeout) => {
                o.failures.push((
                    "no-termination-within-bound".into(),
                    format!("parsing the {label} input ({} bytes) did not finish within {} s (retried with {} s)", x.len(), EVAL_TIMEOUT.as_secs(), EVAL_TIMEOUT.as_secs() * 3),
                    "terminates".into(),
                    format!("timeout; input: {}", clip(x, 300)),
                ));
                return None;
            }
        };
        if let Some(f) = v.get("fatal") {
            o.failures.push(("parser-thread-died".into(), format!("{label}: {f}"), "Ok or Err".into(), clip(x, 300)));
            return None;
        }
        let g = |k: &str| v.get(k).and_then(|s| s.as_str()).unwrap_or("").to_string();
        for p in v.get("problems").and_then(|p| p.as_array()).cloned().unwrap_or_default() {
            let s = |k: &str| p.get(k).and_then(|s| s.as_str()).unwrap_or("").to_string();
            o.failures.push((s("key"), format!("{} [{label} input: {}]", s("what"), clip(x, 300)), s("expected"), s("observed")));
        }
        o.max_micros = o.max_micros.max(v.get("micros").and_then(|m| m.as_u64()).unwrap_or(0));
        // the reference lexer (the specification the theorems use) against the parser's own reading
        for m in v.get("lexer_mismatch").and_then(|p| p.as_array()).cloned().unwrap_or_default() {
            o.disagreements.push((
                format!("reference lexer vs parser on the accepted {label} input {}", clip(x, 200)),
                "refLex: strings are string literals, comments are trivia".into(),
                m.as_str().unwrap_or("").to_string(),
            ));
        }
        if v.get("kip").and_then(|s| s.as_str()) == Some("ok") {
            o.hits.push("reflex-vs-parser:checked".into());
        }
        let kip = g("kip");
        let ev = Ev { status: if kip == "ok" { "ok".into() } else { "err".into() }, family: g("family"), tree: g("tree"), json_ok: g("json") == "ok", json_canon: g("json_canon"), all: format!("kip={} kql={} kml={} meta={} json={} tree={} value={}", kip, g("kql"), g("kml"), g("meta"), g("json"), g("tree"), g("json_canon")) };
        o.hits.push(format!("result:{}", if kip == "ok" { format!("ok-{}", ev.family) } else { kip.clone() }));
        if label == "base" || label == "raw" || label == "#0" {
            o.base_result = kip.clone();
        }

        // ---- correspondence with the Lean model ------------------------------------------------
        if let Some(m) = self.model.as_mut() {
            let mut cps: Vec<u32> = x.chars().filter(|c| !c.is_ascii() && c.is_alphanumeric()).map(|c| c as u32).collect();
            cps.sort_unstable();
            cps.dedup();
            let alnum = if cps.is_empty() { "-".to_string() } else { vh_common::join(cps, ",") };
            let req = format!("k {} {}", if x.is_empty() { "-".to_string() } else { hex(x.as_bytes()) }, alnum);
            let ans = m.ask(&req);
            o.model_compared += 1;
            // parse_json against its Lean model: always in json mode, and whenever parse_json accepted
            let ij = g("json");
            if (self.json_mode || ij == "ok") && x.len() <= 300_000 {
                let mj = m.ask(&format!("j {}", if x.is_empty() { "-".to_string() } else { hex(x.as_bytes()) }));
                o.model_compared += 1;
                let ij_full = match ij.as_str() {
                    "ok" => format!("ok {}", g("json_canon")),
                    "err:too_long" => "too_long".to_string(),
                    "err:too_deep" => "too_deep".to_string(),
                    "err:syntax" => "err".to_string(),
                    other => other.to_string(),
                };
                o.hits.push(format!("json:{}", mj.split(' ').next().unwrap_or("")));
                if mj != ij_full {
                    o.disagreements.push((format!("parse_json differs from its model on the {label} input {}", clip(x, 200)), clip(&mj, 300), clip(&ij_full, 300)));
                }
            }
            // the oracle's own reference lexer against the Lean one (a check of the harness, on a sample)
            if !x.is_empty() && x.len() <= 1500 && o.strings % 3 == 1 {
                // the specification functions of the budget theorems against the oracle's own counting
                let br = child::code_brackets(x);
                let mine = format!("{} {} {}", child::max_net_depth(&br), if child::matched_depth(&br).is_some() { "yes" } else { "no" }, strict_depth(&br));
                let theirs = m.ask(&format!("d {}", hex(x.as_bytes())));
                if theirs != mine {
                    o.disagreements.push((format!("netDepth / strictReads / strictDepth of the Lean specification differ from the oracle's counting on {}", clip(x, 200)), theirs, mine));
                }
                let lean = m.ask(&format!("x {}", hex(x.as_bytes())));
                let rust = child::ref_classes(x);
                o.hits.push("reflex:compared".into());
                if lean != rust {
                    o.disagreements.push((format!("the harness's reference lexer and the Lean refLex classify {} differently", clip(x, 200)), lean, rust));
                }
            }
            let mut it = ans.split(' ');
            let (mb, mf) = (it.next().unwrap_or(""), it.next().unwrap_or(""));
            let ib = match kip.as_str() {
                "err:too_long" => "too_long",
                "err:too_deep" => "too_deep",
                "err:resource_exhausted" => "resource_exhausted",
                _ => "ok",
            };
            let impl_desc = format!("budget={ib} kip={kip} kql={} kml={} meta={}", g("kql"), g("kml"), g("meta"));
            if mb != ib {
                o.disagreements.push((format!("budget verdict differs on the {label} input {}", clip(x, 200)), ans.clone(), impl_desc.clone()));
            } else if ib == "ok" {
                // family: whatever a parser accepted must be of the family the model names
                let mut bad = false;
                for (fam, r) in [("kql", g("kql")), ("kml", g("kml")), ("meta", g("meta"))] {
                    if r == "ok" && mf != fam {
                        bad = true;
                    }
                }
                if kip == "ok" && mf != ev.family {
                    bad = true;
                }
                if bad {
                    o.disagreements.push((format!("family differs on the {label} input {}", clip(x, 200)), ans.clone(), impl_desc));
                }
            }
        }
        Some(ev)
    }

    fn run_case(&mut self, ops: &[String]) -> Outcome {
        let mut o = Outcome::default();
        let Some(case) = ops_to_case(ops) else {
            o.hits.push("case:malformed-ops".into());
            return o;
        };
        self.json_mode = matches!(case, Case::Json(_) | Case::OneOf { .. });
        match case {
            Case::Raw(s) | Case::Json(s) => {
                if let Some(ev) = self.eval_string(&s, "raw", &mut o) {
                    o.nontrivial = ev.status == "ok" || (self.json_mode && ev.json_ok);
                    o.canon = format!("{}|{}|{}", ev.status, ev.tree, if self.json_mode { &ev.json_canon } else { "" });
                    if o.nontrivial {
                        o.sample = Some(json!({"input": clip(&s, 200), "family": ev.family}));
                    }
                }
            }
            Case::OneOf { key, x, alts } => {
                self.json_mode = true;
                if let Some(ex) = self.eval_string(&x, "raw", &mut o) {
                    o.nontrivial = ex.status == "ok" || ex.json_ok;
                    o.canon = format!("oneof|{}", ex.all);
                    let mut matched = alts.is_empty();
                    let mut seen = Vec::new();
                    for (n, a) in alts.iter().enumerate() {
                        let Some(ea) = self.eval_string(a, &format!("alt#{n}"), &mut o) else { continue };
                        if ea.all == ex.all {
                            matched = true;
                        }
                        seen.push(format!("{:?} -> {}", clip(a, 160), clip(&ea.all, 200)));
                    }
                    if !matched {
                        o.failures.push((
                            key.clone(),
                            format!(
                                "the text is read like none of its admissible explicit spellings (where a `//` comment ends decides what is comment and what is live input; the pre-scan and every parser must agree, and the result must not depend on the comment's content): {:?}",
                                clip(&x, 300)
                            ),
                            seen.join(" | "),
                            clip(&ex.all, 300),
                        ));
                    }
                }
            }
            Case::Words { seps } => {
                for (n, sep) in seps.iter().enumerate() {
                    let x = format!("DESCRIBE EXECUTION{sep}CONTEXT");
                    let Some(ev) = self.eval_string(&x, &format!("#{n}"), &mut o) else { continue };
                    if n == 0 {
                        o.canon = format!("words|{}", ev.status);
                    }
                    o.hits.push(format!("words:{}", ev.status));
                    if let Some(m) = self.model.as_mut() {
                        let tail = format!("EXECUTION{sep}CONTEXT");
                        let mut cps: Vec<u32> = tail.chars().filter(|c| !c.is_ascii() && c.is_alphanumeric()).map(|c| c as u32).collect();
                        cps.sort_unstable();
                        cps.dedup();
                        let alnum = if cps.is_empty() { "-".to_string() } else { vh_common::join(cps, ",") };
                        let ans = m.ask(&format!("w {} {} {} {}", hex(b"EXECUTION"), hex(b"CONTEXT"), hex(tail.as_bytes()), alnum));
                        o.model_compared += 1;
                        let want = if ev.status == "ok" { "yes" } else { "no" };
                        if ans != want {
                            o.disagreements.push((format!("words(&[\"EXECUTION\", \"CONTEXT\"]) on the separator {sep:?}"), ans, format!("parse_kip(\"DESCRIBE EXECUTION<sep>CONTEXT\") = {}", ev.status)));
                        }
                    }
                }
            }
            Case::Same { key, inputs } => {
                let mut first: Option<(String, Ev)> = None;
                for (n, x) in inputs.iter().enumerate() {
                    let Some(ev) = self.eval_string(x, &format!("#{n}"), &mut o) else { continue };
                    match &first {
                        None => {
                            o.nontrivial = ev.status == "ok";
                            o.canon = format!("{}|{}", ev.status, ev.tree);
                            first = Some((x.clone(), ev));
                        }
                        Some((x0, e0)) => {
                            if e0.status != ev.status || e0.tree != ev.tree {
                                o.failures.push((
                                    key.clone(),
                                    format!("two spellings that differ only in trivia / keyword case parse differently: {:?} vs {:?}", clip(x0, 300), clip(x, 300)),
                                    format!("{} {}", e0.status, clip(&e0.tree, 300)),
                                    format!("{} {}", ev.status, clip(&ev.tree, 300)),
                                ));
                            }
                        }
                    }
                }
            }
            Case::Tok { flags, vseed, toks } => {
                let mut vr = Rng::new(vseed);
                let base = mutate::render(&toks);
                let Some(b) = self.eval_string(&base, "base", &mut o) else { return o };
                o.nontrivial = b.status == "ok";
                o.canon = format!("{}|{}", b.status, b.tree);
                if o.nontrivial {
                    o.sample = Some(json!({"input": clip(&base, 240), "family": b.family}));
                }
                // (label, failure key, rendered text, the separators used when the variant is a trivia variant)
                let mut variants: Vec<(&str, &str, String, Option<(Vec<Tok>, mutate::Seps)>)> = Vec::new();
                if flags.contains('m') {
                    let s1 = mutate::trivia_seps(toks.len(), &mut vr, false);
                    variants.push(("trivia", "trivia-changes-parse", mutate::render_with(&toks, &s1), Some((toks.clone(), s1))));
                    variants.push(("squeezed", "separator-removal-changes-parse", mutate::render_squeezed(&toks), None));
                    let s2 = mutate::trivia_seps(toks.len(), &mut vr, true);
                    variants.push(("unicode-whitespace", "unicode-whitespace-changes-parse", mutate::render_with(&toks, &s2), Some((toks.clone(), s2))));
                }
                if flags.contains('c') {
                    let flipped = mutate::flip_case(&toks, &mut vr);
                    variants.push(("case", "keyword-case-changes-parse", mutate::render(&flipped), None));
                    if flags.contains('m') {
                        let flipped = mutate::flip_case(&toks, &mut vr);
                        let s3 = mutate::trivia_seps(toks.len(), &mut vr, false);
                        variants.push(("case+trivia", "case-and-trivia-change-parse", mutate::render_with(&flipped, &s3), None));
                    }
                }
                for (label, key, text, seps) in variants {
                    if text == base {
                        continue;
                    }
                    let Some(v) = self.eval_string(&text, label, &mut o) else { continue };
                    if v.status != b.status || v.tree != b.tree {
                        // locate: which single gap, changed alone, already changes the parse?
                        let mut located = String::new();
                        let n_located = self.located_per_key.entry(key.to_string()).or_insert(0);
                        *n_located += 1;
                        let do_locate = *n_located <= 3;
                        if let (Some((tk, sp)), true) = (seps, do_locate) {
                            let plain = mutate::Seps { lead: String::new(), between: vec![" ".to_string(); tk.len().saturating_sub(1)], trail: String::new() };
                            let mut tried = 0;
                            for j in 0..sp.between.len() {
                                if sp.between[j] == " " || tried >= 400 {
                                    continue;
                                }
                                tried += 1;
                                let mut one = plain.clone();
                                one.between[j] = sp.between[j].clone();
                                let t1 = mutate::render_with(&tk, &one);
                                let mut scratch = Outcome::default();
                                if let Some(e1) = self.eval_string(&t1, "located", &mut scratch) {
                                    if e1.status != b.status || e1.tree != b.tree {
                                        located = format!(
                                            " ; already with a single change: the gap between `{}` and `{}` written as {:?} instead of one space gives `{}`",
                                            tk[j].text, tk[j + 1].text, sp.between[j], e1.status
                                        );
                                        break;
                                    }
                                }
                            }
                        }
                        o.failures.push((
                            key.to_string(),
                            format!("the {label} variant parses differently from the base rendering{located}; base: {} ; variant: {}", clip(&base, 300), clip(&text, 400)),
                            format!("{} {}", b.status, clip(&b.tree, 300)),
                            format!("{} {}", v.status, clip(&v.tree, 300)),
                        ));
                    }
                }
            }
        }
        if let Some(want) = expectation(ops) {
            if !o.base_result.is_empty() && o.base_result != want {
                o.failures.push(("corpus-expectation".into(), "parse_kip's answer for this corpus case changed".into(), want, o.base_result.clone()));
            }
        }
        o
    }
}

// ---------------------------------------------------------------------------------------------
// generation
// ---------------------------------------------------------------------------------------------

fn sentence(r: &mut Rng, naughty: bool) -> (Vec<Tok>, Vec<&'static str>) {
    let fuel = *r.pick(&[6, 12, 12, 25, 60]);
    let which = r.below(3);
    let mut g = Gen::new(r, fuel);
    g.naughty = naughty;
    match which {
        0 => g.kql(),
        1 => g.kml(),
        _ => g.meta(),
    }
    (g.out, g.feats)
}

/// The case of index `i` (deterministic in `(seed, i)`), with its histogram tags.
fn generate(seed: u64, i: u64, thorough: bool, lexical_focus: bool) -> (Case, Vec<String>) {
    let mut r = Rng::for_case(seed, i);
    let mut tags: Vec<String> = Vec::new();
    let mut k = r.below(100);
    if lexical_focus {
        // search mode after a broken obligation about the pre-scan / the tables: spend most of the
        // budget where the lexical layer decides (bracket soup, nests around the limit, lengths,
        // character-level damage, head keywords)
        k = match r.below(10) {
            0..=3 => 82,      // bracket soup
            4 | 5 => 86,      // nests
            6 => 99,          // lengths / absurd depths
            7 => 70,          // character mutations
            8 => 78,          // arbitrary unicode
            _ => k,
        };
    }
    let case = if r.below(100) < if lexical_focus { 12 } else { 6 } {
        // where does a `//` comment end? every candidate terminator, with a payload after it on the same line
        let (x, alts, tag) = mutate::comment_terminator_case(&mut r, thorough);
        tags.push("gen:comment-terminator".into());
        tags.push(tag);
        Case::OneOf { key: "comment-end-inconsistent".into(), x, alts }
    } else if r.below(100) < if lexical_focus { 20 } else { 10 } {
        // KIP's JSON dialect against the model of parse_json
        let mut t = mutate::json_text(&mut r);
        if r.chance(1, 4) {
            let (w, tag) = mutate::mutate_chars(&t, &mut r);
            t = w;
            tags.push(tag.to_string());
        }
        tags.push("gen:json".into());
        Case::Json(t)
    } else if k < 34 {
        let (toks, feats) = sentence(&mut r, false);
        tags.push("gen:sentence".into());
        tags.extend(feats.iter().map(|f| format!("g:{f}")));
        Case::Tok { flags: "cm".into(), vseed: r.next_u64() % 1_000_000, toks }
    } else if k < 42 {
        let (toks, feats) = sentence(&mut r, true);
        tags.push("gen:sentence-with-rule-violations".into());
        tags.extend(feats.iter().map(|f| format!("g:{f}")));
        Case::Tok { flags: "cm".into(), vseed: r.next_u64() % 1_000_000, toks }
    } else if k < 66 {
        let (toks, _) = sentence(&mut r, false);
        let (donor, _) = sentence(&mut r, false);
        let mut v = toks;
        let n = 1 + r.usize(3);
        for _ in 0..n {
            let (w, tag) = mutate::mutate_tokens(&v, &donor, &mut r);
            v = w;
            tags.push(tag.to_string());
        }
        tags.push("gen:token-mutation".into());
        Case::Tok { flags: "m".into(), vseed: r.next_u64() % 1_000_000, toks: v }
    } else if k < 77 {
        let (toks, _) = sentence(&mut r, false);
        let uni = r.chance(1, 4);
        let mut s = if r.chance(1, 2) { mutate::render(&toks) } else { mutate::render_trivia(&toks, &mut r, uni) };
        let n = 1 + r.usize(3);
        for _ in 0..n {
            let (w, tag) = mutate::mutate_chars(&s, &mut r);
            s = w;
            tags.push(tag.to_string());
        }
        tags.push("gen:char-mutation".into());
        Case::Raw(s)
    } else if k < 81 {
        tags.push("gen:arbitrary-unicode".into());
        Case::Raw(mutate::arbitrary_unicode(&mut r))
    } else if k < 84 {
        tags.push("gen:bracket-soup".into());
        Case::Raw(mutate::bracket_soup(&mut r))
    } else if k < 85 {
        tags.push("gen:words-separators".into());
        let mut seps = Vec::new();
        for _ in 0..6 {
            let n = r.usize(5);
            let mut s = String::new();
            for _ in 0..n {
                match r.below(10) {
                    0..=3 => s.push(*r.pick(&[' ', '\t', '\n', '\r'])),
                    4 | 5 => s.push_str(*r.pick(mutate::UNICODE_WS)),
                    6 => s.push_str(*r.pick(&["//", "// c\n", "//\n", "/"])),
                    7 => s.push_str(*r.pick(mutate::TRIVIA)),
                    _ => s.push(*r.pick(&['x', '_', '?', '"', '(', '\u{200B}', 'é', '1'])),
                }
            }
            seps.push(s);
        }
        Case::Words { seps }
    } else if k < 93 {
        // nests around and beyond the limit
        let depth = match r.below(10) {
            0..=2 => 3 + r.usize(20),
            3..=5 => 58 + r.usize(7), // 58..64
            6 | 7 => 65 + r.usize(4),
            8 => 64,
            _ => 70 + r.usize(200),
        };
        let kind = r.below(9);
        let mut g = Gen::new(&mut r, 0);
        let name = g.deep(kind, depth);
        tags.push(format!("gen:{name}"));
        tags.push(format!("depth:{}", if depth > 64 { "beyond-limit" } else if depth >= 58 { "58..64" } else { "shallow" }));
        Case::Tok { flags: "cm".into(), vseed: i, toks: g.out }
    } else if k < 96 {
        let n = match r.below(6) {
            0 => 1 + r.usize(10),
            1 | 2 => 60 + r.usize(8),
            3 => 64,
            4 => 200 + r.usize(300),
            _ => if thorough { 20_000 } else { 3_000 },
        };
        let kind = r.below(4);
        let mut g = Gen::new(&mut r, 0);
        let name = g.bracketless(kind, n);
        tags.push(format!("gen:{name}"));
        Case::Tok { flags: "cm".into(), vseed: i, toks: g.out }
    } else if k < 98 {
        let n = if thorough { if r.chance(1, 20) { 2000 } else { *r.pick(&[50usize, 400, 1000]) } } else { *r.pick(&[50usize, 300]) };
        let kind = r.below(3);
        let mut g = Gen::new(&mut r, 0);
        let name = g.wide(kind, n);
        tags.push(format!("gen:{name}"));
        Case::Tok { flags: "cm".into(), vseed: i, toks: g.out }
    } else {
        // around and beyond the length limit, and absurd depths
        let (toks, _) = sentence(&mut r, false);
        let base = mutate::render(&toks);
        let limit = child::DOC_MAX_LEN;
        let s = match r.below(6) {
            0 => {
                tags.push("gen:length-exactly-limit".into());
                format!("{base}{}", " ".repeat(limit.saturating_sub(base.len())))
            }
            1 => {
                tags.push("gen:length-limit-plus-1".into());
                format!("{base}{}", " ".repeat(limit + 1 - base.len().min(limit)))
            }
            2 => {
                tags.push("gen:length-limit-plus-1-multibyte".into());
                // 3-byte characters: fewer chars than the limit, more bytes
                format!("{base} //{}", "中".repeat(limit / 3 + 1))
            }
            3 => {
                tags.push("gen:long-comment-of-brackets".into());
                format!("// {}\n{base}", "(".repeat(limit - base.len() - 8))
            }
            4 => {
                tags.push("gen:long-string-of-brackets".into());
                format!("DESCRIBE TYPE \"{}\"", "[".repeat(limit - 40))
            }
            _ => {
                tags.push("gen:absurd-depth".into());
                let c = *r.pick(&["(", "[", "{"]);
                format!("FIND(?x) WHERE {{ ?x {{ a: {} }} }}", c.repeat(100_000))
            }
        };
        Case::Raw(s)
    };
    (case, tags)
}

// ---------------------------------------------------------------------------------------------
// main
// ---------------------------------------------------------------------------------------------

struct Done {
    index: u64,
    name: String,
    ops: Vec<String>,
    tags: Vec<String>,
    out: Outcome,
    /// shrunken replays of what went wrong: (kind, key/what, ops, a, b)
    shrunk: Vec<(String, Vec<String>, Outcome)>,
}

fn shrink_failure(w: &mut Worker, ops: &[String], key: &str, disagreement: bool) -> (Vec<String>, Outcome) {
    if ops.len() > 4000 {
        // huge inputs: shrinking token by token is not worth the time; keep as is
        return (ops.to_vec(), w.run_case(ops));
    }
    let key = key.to_string();
    let small = shrink(
        ops.to_vec(),
        |cand: &[String]| {
            if cand.first().is_none_or(|l| !l.starts_with("mode ")) {
                return false;
            }
            let o = w.run_case(cand);
            if disagreement { !o.disagreements.is_empty() } else { o.failures.iter().any(|f| f.0 == key) }
        },
        120,
    );
    let o = w.run_case(&small);
    (small, o)
}

fn finish(w: &mut Worker, index: u64, name: String, ops: Vec<String>, tags: Vec<String>) -> Done {
    let out = w.run_case(&ops);
    let mut shrunk = Vec::new();
    let mut keys: Vec<String> = out.failures.iter().map(|f| f.0.clone()).collect();
    keys.sort();
    keys.dedup();
    for k in keys.iter().take(3) {
        let n = w.shrunk_per_key.entry(k.clone()).or_insert(0);
        *n += 1;
        if *n > 1 {
            continue;
        }
        let (s, o) = shrink_failure(w, &ops, k, false);
        shrunk.push((k.clone(), s, o));
    }
    if !out.disagreements.is_empty() {
        let n = w.shrunk_per_key.entry("<disagreement>".into()).or_insert(0);
        *n += 1;
        if *n <= 3 {
            let (s, o) = shrink_failure(w, &ops, "", true);
            shrunk.push(("<disagreement>".into(), s, o));
        } else {
            shrunk.push(("<disagreement>".into(), ops.clone(), out.clone()));
        }
    }
    Done { index, name, ops, tags, out, shrunk }
}

fn main() {
    let argv: Vec<String> = std::env::args().collect();
    if argv.len() >= 3 && argv[1] == "--child" {
        child::child_main(argv[2].parse().expect("stack bytes"));
        return;
    }
    let args = Args::parse();
    let t0 = Instant::now();
    let stack: usize = args.extra.get("stack").and_then(|s| s.parse().ok()).unwrap_or(PARSER_STACK);
    let mut report = Report::new(
        "C15",
        &args,
        "a case is non-trivial when parse_kip accepts its base input and returns a tree; distinct = distinct encoded trees \
         (refusals, syntax errors and budget refusals are evaluated and compared but not counted as non-trivial)",
    );
    report.max_samples = 8;

    if anda_kip::MAX_KIP_INPUT_LEN != child::DOC_MAX_LEN || anda_kip::MAX_KIP_NESTING_DEPTH as i64 != child::DOC_MAX_DEPTH {
        report.oracle_failure(
            "limits-differ-from-documented",
            "MAX_KIP_INPUT_LEN / MAX_KIP_NESTING_DEPTH are not the documented 256 KiB / 64",
            &[],
            "262144 64",
            &format!("{} {}", anda_kip::MAX_KIP_INPUT_LEN, anda_kip::MAX_KIP_NESTING_DEPTH),
        );
    }

    // ---- the character tables of the model against std's (exhaustive) ------------------------
    if let Some(mut m) = ModelProc::from_args(&args) {
        let ws: Vec<u32> = (0..=0x10FFFFu32).filter_map(char::from_u32).filter(|c| c.is_whitespace()).map(|c| c as u32).collect();
        let al: Vec<u32> = (0..0x80u32).filter_map(char::from_u32).filter(|c| c.is_alphanumeric()).map(|c| c as u32).collect();
        for (req, mine) in [("wsset", vh_common::join(ws, ",")), ("alnumset", vh_common::join(al, ","))] {
            let theirs = m.ask(req);
            report.model_compared += 1;
            report.hit(&format!("table:{req}"));
            if theirs != mine {
                report.disagreement(&format!("{req}: the model's character table differs from std's (char::is_whitespace / is_alphanumeric)"), &[], &theirs, &mine);
            }
        }
    }

    // ---- the work list ---------------------------------------------------------------------
    let mut work: Vec<(u64, String, Vec<String>, Vec<String>)> = Vec::new();
    if let Some(rp) = &args.replay {
        work.push((0, "replay".into(), read_replay(rp), vec!["replay".into()]));
    } else {
        if let Some(dir) = &args.corpus {
            for (name, ops) in read_corpus(dir) {
                work.push((work.len() as u64, format!("corpus:{name}"), ops, vec!["corpus".into()]));
            }
        }
        let n_cases = args.extra.get("cases").and_then(|s| s.parse().ok()).unwrap_or(if args.focus.is_some() { 150_000 } else { args.budget(5_000, 120_000) });
        let thorough = args.thorough() || args.focus.is_some();
        let lexical_focus = args.focus.as_ref().is_some_and(|f| {
            let f = f.to_lowercase();
            ["budget", "bracket", "limit", "kiplimits", "c15_kip_limits", "gen_", "comment", "disagree", "lake build"].iter().any(|w| f.contains(w))
        });
        if let Some(f) = &args.focus {
            report.notes.push(format!("search mode (focus: {f}); lexical focus: {lexical_focus}"));
        }
        let base = work.len() as u64;
        for i in 0..n_cases {
            // the thorough tier and the search mode spread their cases over several seeds
            let seed = if thorough { args.seed + i / 40_000 } else { args.seed };
            let (case, tags) = generate(seed, i, thorough, lexical_focus);
            work.push((base + i, format!("gen:{i}"), case_to_ops(&case), tags));
        }
    }

    // ---- workers ---------------------------------------------------------------------------
    let n_workers = std::thread::available_parallelism().map(|n| n.get()).unwrap_or(4).clamp(1, 12).min(work.len().max(1));
    let work = std::sync::Arc::new(work);
    let next = std::sync::Arc::new(std::sync::atomic::AtomicUsize::new(0));
    let mut handles = Vec::new();
    for _ in 0..n_workers {
        let work = work.clone();
        let next = next.clone();
        let args = args.clone();
        handles.push(std::thread::spawn(move || {
            let mut w = Worker { child: ChildProc::spawn(stack), model: ModelProc::from_args(&args), shrunk_per_key: BTreeMap::new(), located_per_key: BTreeMap::new(), json_mode: false };
            let mut done = Vec::new();
            loop {
                let i = next.fetch_add(1, std::sync::atomic::Ordering::SeqCst);
                if i >= work.len() {
                    break;
                }
                let (index, name, ops, tags) = work[i].clone();
                done.push(finish(&mut w, index, name, ops, tags));
            }
            let cov = w.model.as_mut().map(|m| m.ask("cov")).unwrap_or_default();
            (done, w.child.respawns, cov)
        }));
    }
    let mut all: Vec<Done> = Vec::new();
    let mut respawns = 0;
    let mut model_cov: BTreeMap<String, u64> = BTreeMap::new();
    for h in handles {
        let (d, r, cov) = h.join().expect("worker");
        all.extend(d);
        respawns += r;
        for kv in cov.split(';') {
            if let Some((k, v)) = kv.split_once('=') {
                *model_cov.entry(k.to_string()).or_insert(0) += v.parse::<u64>().unwrap_or(0);
            }
        }
    }
    all.sort_by_key(|d| d.index);

    // ---- report ----------------------------------------------------------------------------
    let mut strings = 0u64;
    let mut max_micros = 0u64;
    let mut slowest = String::new();
    let mut found: BTreeMap<String, Vec<(String, Vec<String>, String, String)>> = BTreeMap::new();
    for d in &all {
        report.case(&d.out.canon, d.out.nontrivial);
        report.model_compared += d.out.model_compared;
        strings += d.out.strings;
        if d.out.max_micros > max_micros {
            max_micros = d.out.max_micros;
            slowest = d.name.clone();
        }
        for t in &d.tags {
            report.hit(t);
        }
        if d.out.max_micros > 200_000 && report.notes.len() < 12 {
            report.notes.push(format!("slow: {} {:?} {} us, {} ops", d.name, d.tags, d.out.max_micros, d.ops.len()));
        }
        for h in &d.out.hits {
            report.hit(h);
        }
        if let Some(s) = &d.out.sample {
            if d.index % 7 == 0 {
                report.sample(s.clone());
            }
        }
        for (key, small, o) in &d.shrunk {
            if key == "<disagreement>" {
                if let Some((what, m, i)) = o.disagreements.first().or(d.out.disagreements.first()) {
                    report.disagreement(&format!("{} [{}]", what, d.name), small, m, i);
                }
            } else if let Some(f) = o.failures.iter().find(|f| &f.0 == key).or(d.out.failures.iter().find(|f| &f.0 == key)) {
                found.entry(f.0.clone()).or_default().push((format!("{} [{}]", f.1, d.name), small.clone(), f.2.clone(), f.3.clone()));
            }
        }
        // failures that were not shrunk are still listed
        let shrunk_keys: Vec<&String> = d.shrunk.iter().map(|s| &s.0).collect();
        for f in &d.out.failures {
            if !shrunk_keys.contains(&&f.0) {
                found.entry(f.0.clone()).or_default().push((format!("{} [{}]", f.1, d.name), d.ops.clone(), f.2.clone(), f.3.clone()));
            }
        }
    }
    // `Report` keeps the first 20 failures: list one of every kind first, then the second of every kind, …
    for (k, v) in &found {
        report.hit_n(&format!("failure:{k}"), v.len() as u64);
    }
    for round in 0..3 {
        for (k, v) in &found {
            if let Some((what, ops, e, ob)) = v.get(round) {
                report.oracle_failure(k, what, ops, e, ob);
            }
        }
    }
    // measured, not a verdict: how the work grows with the number of clauses of one MUTATE block
    if args.replay.is_none() {
        let mut probe = ChildProc::spawn(stack);
        let mut scaling = Vec::new();
        for n in [500usize, 1000, 2000] {
            let mut t = String::from("MUTATE{");
            for i in 0..n {
                t.push_str(&format!("CREATE CONCEPT ?h{i:x}{{}}"));
            }
            t.push('}');
            if let Ok(v) = probe.eval(&t) {
                scaling.push(json!({"clauses": n, "bytes": t.len(), "micros_all_entry_points": v.get("micros")}));
            }
        }
        report.measured.insert("work_scaling_mutate_clauses".into(), json!(scaling));
    }
    // which branches of the Lean model the correspondence run executed (summed over the driver processes)
    if args.driver.is_some() {
        const EXPECTED: &[&str] = &[
            "step:in-comment", "step:comment-ends", "step:string-escaped-char", "step:string-backslash", "step:string-closes", "step:in-string",
            "step:comment-opens", "step:slash-pending", "step:string-opens", "step:string-opens-after-slash", "step:opener", "step:closer-pops",
            "step:closer-mismatched", "step:closer-on-empty-stack", "step:plain", "step:plain-after-slash", "step:refuses-too-deep",
            "budget:ok", "budget:too_long", "budget:too_deep", "family:kql", "family:kml", "family:meta", "family:none",
            "parse_json:ok", "parse_json:err", "parse_json:too_deep", "json:null", "json:bool", "json:int", "json:int-negative", "json:float",
            "json:string", "json:string-nonascii", "json:array", "json:array-empty", "json:object", "json:object-empty", "words:yes", "words:no", "reflex",
        ];
        let unvisited: Vec<&str> = EXPECTED.iter().copied().filter(|k| model_cov.get(*k).copied().unwrap_or(0) == 0).collect();
        if model_cov.get("parse_json:oof").copied().unwrap_or(0) > 0 {
            report.disagreement("the model of parse_json ran out of fuel (limit + 2) on a text the budget accepted", &[], "oof", "never");
        }
        report.measured.insert("model_branch_histogram".into(), json!(model_cov));
        report.measured.insert("model_branches_unvisited".into(), json!(unvisited));
        if !unvisited.is_empty() && args.replay.is_none() {
            report.notes.push(format!("model branches not visited by this run: {unvisited:?}"));
        }
    }
    report.measured.insert("strings_parsed".into(), json!(strings));
    report.measured.insert("parser_thread_stack_bytes".into(), json!(stack));
    report.measured.insert("slowest_parse_micros".into(), json!(max_micros));
    report.measured.insert("slowest_case".into(), json!(slowest));
    report.measured.insert("child_process_restarts".into(), json!(respawns));
    report.measured.insert("workers".into(), json!(n_workers));
    report.measured.insert("harness_seconds".into(), json!(t0.elapsed().as_secs_f64()));
    report.notes.push(
        "parser proper (recursive descent): tested by the oracle on generated inputs, not proved; the theorems cover the budget pre-scan and the head-keyword classification".into(),
    );
    report.write(&args);
}
