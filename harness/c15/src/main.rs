//! Harness for property C15 (stub: not built yet).
fn main() {
    let a = vh_common::Args::parse();
    let r = vh_common::Report::new("C15", &a, "stub");
    r.write(&a);
}
