//! Harness for property C04 (stub: not built yet).
fn main() {
    let a = vh_common::Args::parse();
    let r = vh_common::Report::new("C04", &a, "stub");
    r.write(&a);
}
