//! C04 — unique constraints always hold; a rejected write leaves no trace.
//!
//! Same engine as C02 (`../c02/src/engine.rs`): every case runs on a real collection, is dumped after
//! every operation and compared with the Lean model (`drv_c04`) and with the independent oracle.
//! The generator here is contention-heavy: every unique index (scalar `u`, optional text `e`, array
//! `ut`, multi-field `a-b`, `b-tags`) is present from the start, the key universe has 2–3 values for
//! ~6 documents, so most writes are rejected — on the 1st, 2nd or 3rd unique index, or (vector of the
//! wrong dimension) only in the third index family after B-tree and BM25 were already changed.
//! Oracle (per operation): every unique value has one owner (through the index walk and through
//! the public Eq filter); dump-before = dump-after for every rejected operation; a value released by
//! remove/update can be taken again.
#[path = "../../c02/src/engine.rs"]
mod engine;
mod race;
use engine::*;
use vh_common::serde_json::json;
use vh_common::*;
use std::collections::BTreeMap;

fn gen_contended(r: &mut Rng, long: bool) -> Vec<String> {
    let g = GenCfg { universe: *r.pick(&[1, 2, 2, 3]), n_ops: if long { 40 + r.usize(51) } else { 12 + r.usize(16) }, malformed: 8, handover: 35, crash_creates: false };
    let mut ops = gen_case(r, &g);
    // make sure the unique indexes exist from the start (after the schema line)
    let mut head = vec![ops.remove(0)];
    for name in ["u", "e", "ut", "a-b", "b-tags"] {
        let (n, fs) = BT.iter().find(|b| b.0 == name).unwrap();
        let line = format!("mkbt {} {}", bt_rank(n), join(fs.iter(), ","));
        if !ops.contains(&line) && r.chance(4, 5) { head.push(line); }
    }
    head.extend(ops);
    head
}

fn main() {
    let args = Args::parse();
    let mut rep = Report::new(
        "C04",
        &args,
        "case = generated contention-heavy history (12..27 data ops, key universe of 2-4 values, all unique indexes present) over the fixed schema; \
         distinct = distinct op list; non-trivial = at least one accepted add and a non-empty index relation at the end",
    );
    let rt = tokio::runtime::Builder::new_current_thread().enable_all().build().unwrap();
    let mut model = ModelProc::from_args(&args);
    let mut cases: Vec<(String, Vec<String>)> = vec![];
    if let Some(p) = &args.replay {
        cases.push(("replay".into(), read_replay(p)));
    } else {
        if let Some(dir) = &args.corpus { cases.extend(read_corpus(dir)); }
        let n = args.budget(2500, 24000);
        for i in 0..n {
            let mut r = Rng::for_case(args.seed, i);
            // thorough: every fourth history is long (40..90 data ops)
            cases.push((format!("gen{i}"), gen_contended(&mut r, args.thorough() && i % 4 == 0)));
        }
    }
    let mut reported = 0;
    for (name, ops) in &cases {
        if check_case(&rt, name, ops, &mut model, &mut rep, args.replay.is_none() && reported < 3) { reported += 1; }
        if rep.samples.len() < 3 { rep.sample(json!({"case": name, "ops": ops.iter().take(40).collect::<Vec<_>>()})); }
    }
    // concurrent writers on the real code: measured, not proved
    if args.replay.is_none() {
        let st = race::hunt(args.budget(150, 3000), args.seed);
        rep.measured.insert("concurrent_rounds".into(), json!(st.rounds));
        rep.measured.insert("concurrent_adds_rounds".into(), json!(st.adds_rounds));
        rep.measured.insert("concurrent_adds_rounds_with_two_winners".into(), json!(st.adds_two_winners));
        rep.measured.insert("concurrent_cross_rounds".into(), json!(st.cross_rounds));
        rep.measured.insert("concurrent_cross_rounds_where_the_innocent_writer_was_rejected".into(), json!(st.cross_both_rejected));
        rep.measured.insert("concurrent_early_release_rounds".into(), json!(st.early_rounds));
        rep.measured.insert("concurrent_early_release_rounds_where_the_add_got_in".into(), json!(st.early_hits));
        rep.measured.insert("concurrent_rounds_ending_poisoned".into(), json!(st.poisoned));
        for (key, what, ctx, exp, obs) in &st.failures { rep.oracle_failure(key, what, ctx, exp, obs); }
        // every outcome vector seen on real threads must be reachable under some schedule of the
        // Lean interleaving model (`conc` of drv_c04)
        let mut shown = BTreeMap::new();
        for ((spec, oc), n) in &st.outcomes {
            shown.insert(format!("{spec} => {oc}"), json!(n));
            if let Some(m) = model.as_mut() {
                let reach = m.ask(&format!("conc {spec}"));
                rep.model_compared += 1;
                if !reach.split(' ').any(|o| o == oc) {
                    rep.disagreement("outcome of concurrent writers on real threads is not reachable under any schedule of the interleaving model", &[format!("conc {spec}")], &reach, oc);
                }
            }
        }
        rep.measured.insert("concurrent_outcomes_seen".into(), json!(shown));
    }
    rep.write(&args);
}
