//! Concurrent writers on the real code (measured, not proved): real tokio tasks on a multi-thread
//! runtime contend for one unique value. After every round the collection is quiescent and is
//! checked with the same observation / oracle as the sequential cases.
//!
//! Round kinds
//!  * `adds`   : 3 tasks add documents with the same `u` (and distinct other unique values):
//!               at most one may be accepted, the losers must leave no trace.
//!  * `cross`  : 2 tasks add (u=x,e=y1) / (u=x2,e=y) style crossing documents over two unique
//!               indexes (the F-C05-1 shape): any outcome of the interleaving model is allowed,
//!               the quiescent state must agree with the documents.
//!  * `early`  : one task keeps trying `update(doc1, {u: 5→6, e: →(value held by another doc)})`
//!               — `u` is released by `BTree::update` before the later unique index `e` refuses —
//!               while another task keeps trying `add {u: 5}`. If the add lands inside the window
//!               the updater's rollback can not take `u = 5` back.
use crate::engine::*;
use anda_db::{collection::{Collection, CollectionConfig}, database::{AndaDB, DBConfig}, schema::Fv, storage::StorageConfig};
use object_store::memory::InMemory;
use std::collections::{BTreeMap, HashMap};
use std::sync::Arc;
use std::sync::atomic::{AtomicBool, Ordering};

pub struct RaceStats {
    pub rounds: u64,
    pub adds_rounds: u64,
    pub adds_two_winners: u64,
    pub cross_rounds: u64,
    pub cross_both_rejected: u64,
    pub early_rounds: u64,
    pub early_hits: u64,
    pub poisoned: u64,
    /// (key, what, ops-like description, expected, observed)
    pub failures: Vec<(String, String, Vec<String>, String, String)>,
    /// (writers in the `conc` syntax of drv_c04, observed outcome vector) → how often
    pub outcomes: BTreeMap<(String, String), u64>,
}

fn doc(u: u64, e: Option<i64>, ut: Vec<u64>) -> Doc {
    Doc { _id: 0, u, e: e.map(|k| format!("k{k}")), ut, a: 0, b: None, tags: vec![], m: BTreeMap::new(), txt: "alpha".into(), note: None, v: vector_of(HN_DIM) }
}

async fn fresh(order: &[&str]) -> (AndaDB, Arc<Collection>) {
    let db = AndaDB::connect(Arc::new(InMemory::new()), DBConfig { name: "vh".into(), description: String::new(), storage: StorageConfig { compress_level: 0, ..Default::default() }, lock: None }).await.expect("connect");
    let order: Vec<String> = order.iter().map(|s| s.to_string()).collect();
    let c = db
        .open_or_create_collection(Doc::schema().expect("schema"), CollectionConfig { name: "c".into(), description: String::new() }, async |c| {
            for f in &order { c.create_btree_index(&[f.as_str()]).await?; }
            c.create_bm25_index(&["txt"]).await?;
            Ok(())
        })
        .await
        .expect("create");
    (db, c)
}

pub const EARLY_KEY: &str = "concurrent:update-releases-old-unique-value-before-later-index-accepts";

async fn settle(c: &Collection, what: &str, ctx: &[String], st: &mut RaceStats) {
    let mut dict = HashMap::new();
    let obs = observe(c, &mut dict, 0).await;
    if what == "early-release:add-got-in" {
        // one finding, one key: everything seen in this round is a consequence of the same window
        let mut seen: Vec<String> = obs.complaints.iter().map(|c| format!("{}: expected {} observed {}", c.1, c.2, c.3)).collect();
        let mut owner: BTreeMap<String, u64> = BTreeMap::new();
        for (id, d) in &obs.docs { for k in keys_of(d, &[1]) { if let Some(o) = owner.insert(k.clone(), *id) { seen.insert(0, format!("live documents {o} and {id} both carry u = {k}")); } } }
        if !seen.is_empty() && !st.failures.iter().any(|f| f.0 == EARLY_KEY) {
            st.failures.push((EARLY_KEY.into(), "concurrent update + add: two live documents share a unique value; the rejected update lost its posting (F-C04-1)".into(), ctx.to_vec(),
                "doc 1 keeps u = 5 in the index, the add of u = 5 is rejected, one live document per unique value".into(), format!("{} || {}", seen.join(" ; "), obs.dump)));
        }
        return;
    }
    for (k, w, e, o) in obs.complaints {
        if st.failures.len() < 5 { st.failures.push((format!("concurrent:{what}:{k}"), format!("after concurrent writers ({what}): {w}"), ctx.to_vec(), e, o)); }
    }
    // uniqueness among live documents, from the fetched documents themselves
    for f in [1usize, 2, 3] {
        let mut owner: BTreeMap<String, u64> = BTreeMap::new();
        for (id, d) in &obs.docs {
            for k in keys_of(d, &[f]) {
                if let Some(other) = owner.insert(k.clone(), *id) && other != *id && st.failures.len() < 5 {
                    st.failures.push((format!("concurrent:{what}:two-live-documents-share-unique-value"), format!("after concurrent writers ({what}): two live documents share the value {k} of unique field {}", field_name(f)), ctx.to_vec(), "one live document per unique value".into(), format!("documents {other} and {id}; {}", obs.dump)));
                }
            }
        }
    }
    if c.is_poisoned() { st.poisoned += 1; }
}

pub fn hunt(budget: u64, seed: u64) -> RaceStats {
    let rt = tokio::runtime::Builder::new_multi_thread().worker_threads(4).enable_all().build().unwrap();
    let mut st = RaceStats { rounds: 0, adds_rounds: 0, adds_two_winners: 0, cross_rounds: 0, cross_both_rejected: 0, early_rounds: 0, early_hits: 0, poisoned: 0, failures: vec![], outcomes: BTreeMap::new() };
    let mut rng = vh_common::Rng::new(seed ^ 0xC04);
    rt.block_on(async {
        for round in 0..budget {
            st.rounds += 1;
            match round % 3 {
                0 => {
                    st.adds_rounds += 1;
                    let (db, c) = fresh(&["u", "e", "ut"]).await;
                    let n = 2 + rng.below(2) as usize;
                    let mut hs = vec![];
                    for t in 0..n {
                        let c = c.clone();
                        hs.push(tokio::spawn(async move { c.add_from(&doc(5, Some(t as i64), vec![10 + t as u64])).await.map_err(|e| err_name(&e)) }));
                    }
                    let mut winners = 0;
                    let mut outs = vec![];
                    for h in hs { let r = h.await.expect("join"); if r.is_ok() { winners += 1; } outs.push(match r { Ok(id) => format!("id {id}"), Err(e) => e }); }
                    let ctx = vec![format!("{n} tasks: add u=5, e=k<t>, ut=[10+t]"), format!("outcomes: {}", outs.join(" | "))];
                    if winners > 1 { st.adds_two_winners += 1; }
                    let spec = (0..n).map(|t| format!("add:{}:2.{}a,1.{t},0.5", 100 + t, 10 + t)).collect::<Vec<_>>().join(" ");
                    let oc: String = outs.iter().map(|o| if o.starts_with("id ") { 'A' } else { 'R' }).collect();
                    *st.outcomes.entry((spec, oc)).or_insert(0) += 1;
                    if winners != 1 && st.failures.len() < 5 {
                        st.failures.push(("concurrent:adds:winner-count".into(), "writers adding the same free unique value: exactly one must be accepted".into(), ctx.clone(), "1 accepted".into(), format!("{winners} accepted")));
                    }
                    settle(&c, "adds", &ctx, &mut st).await;
                    // the value is released with its holder
                    if let Some(id) = c.ids().first().copied() {
                        let _ = c.remove(id).await;
                        if let Err(e) = c.add_from(&doc(5, Some(7), vec![77])).await && st.failures.len() < 5 {
                            st.failures.push(("concurrent:adds:value-not-released".into(), "after removing the winner the value must be free again".into(), ctx.clone(), "accepted".into(), err_name(&e)));
                        }
                    }
                    let _ = db.close().await;
                }
                1 => {
                    st.cross_rounds += 1;
                    // registry order [e, u] (unique indexes are pushed to the front): A holds e first, B too
                    let (db, c) = fresh(&["u", "e"]).await;
                    c.add_from(&doc(1, Some(1), vec![])).await.expect("seed");
                    // A: (u=1 taken, e=2 free) fails on u after inserting e=2; B: (u=2, e=2)
                    let (ca, cb) = (c.clone(), c.clone());
                    let ha = tokio::spawn(async move { ca.add_from(&doc(1, Some(2), vec![])).await.map_err(|e| err_name(&e)) });
                    let hb = tokio::spawn(async move { cb.add_from(&doc(2, Some(2), vec![])).await.map_err(|e| err_name(&e)) });
                    let (ra, rb) = (ha.await.expect("join"), hb.await.expect("join"));
                    let ctx = vec!["seed u=1,e=k1; A: add u=1,e=k2 (must be rejected); B: add u=2,e=k2".to_string(), format!("outcomes: A={ra:?} B={rb:?}")];
                    if ra.is_ok() && st.failures.len() < 5 {
                        st.failures.push(("concurrent:cross:duplicate-accepted".into(), "A repeats a taken unique value and must be rejected".into(), ctx.clone(), "err:exists".into(), format!("{ra:?}")));
                    }
                    if rb.is_err() { st.cross_both_rejected += 1; }
                    let oc: String = [&ra, &rb].iter().map(|r| if r.is_ok() { 'A' } else { 'R' }).collect();
                    *st.outcomes.entry(("r:0.1:1 r:1.1:1 add:2:1.2,0.1 add:3:1.2,0.2".to_string(), oc)).or_insert(0) += 1;
                    settle(&c, "cross", &ctx, &mut st).await;
                    let _ = db.close().await;
                }
                _ => {
                    st.early_rounds += 1;
                    // registry order [u, e]: `u` is updated (and its old value released) before `e` refuses
                    let (db, c) = fresh(&["e", "u"]).await;
                    let id1 = c.add_from(&doc(5, Some(0), vec![])).await.expect("seed1");
                    c.add_from(&doc(9, Some(1), vec![])).await.expect("seed2");
                    let stop = Arc::new(AtomicBool::new(false));
                    let (ca, cb, sa, sb) = (c.clone(), c.clone(), stop.clone(), stop.clone());
                    let ha = tokio::spawn(async move {
                        let mut n = 0u32;
                        let mut errs = vec![];
                        while n < 300 && !sa.load(Ordering::Relaxed) {
                            n += 1;
                            let f: BTreeMap<String, Fv> = BTreeMap::from([("u".to_string(), Fv::U64(6)), ("e".to_string(), Fv::Text("k1".into()))]);
                            match ca.update(id1, f).await { Ok(_) => { errs.push("ok".to_string()); break; } Err(e) => { let e = err_name(&e); if e != "err:exists" { errs.push(e); break; } } }
                        }
                        sa.store(true, Ordering::Relaxed);
                        (n, errs)
                    });
                    let hb = tokio::spawn(async move {
                        let mut n = 0u32;
                        let mut won = None;
                        while !sb.load(Ordering::Relaxed) && n < 100_000 {
                            n += 1;
                            match cb.add_from(&doc(5, None, vec![])).await { Ok(id) => { won = Some(id); break; } Err(_) => {} }
                            if n % 64 == 0 { tokio::task::yield_now().await; }
                        }
                        sb.store(true, Ordering::Relaxed);
                        (n, won)
                    });
                    let ((na, ea), (nb, won)) = (ha.await.expect("join"), hb.await.expect("join"));
                    let ctx = vec![
                        "indexes created e, u (evaluation order u, e); seed doc1 u=5,e=k0; doc2 u=9,e=k1".to_string(),
                        "A: repeat update(doc1, {u: 6, e: k1}) (must be rejected: k1 is held by doc2)".to_string(),
                        "B: repeat add {u: 5} (must be rejected while doc1 holds 5)".to_string(),
                        format!("A tried {na} times, unexpected: {ea:?}; B tried {nb} times, accepted as {won:?}"),
                    ];
                    let mut ctx = ctx;
                    let oc = if won.is_some() { format!("{}A", if c.is_poisoned() { 'P' } else { 'R' }) } else { "RR".to_string() };
                    *st.outcomes.entry(("r:0.5:1 r:1.0:1 r:0.9:2 r:1.1:2 upd:1:0.5.6,1.0.1 add:3:0.5".to_string(), oc)).or_insert(0) += 1;
                    if won.is_some() {
                        st.early_hits += 1;
                        if c.is_poisoned() { st.poisoned += 1; }
                        // what does the reopen recovery make of it?
                        let mut dict = HashMap::new();
                        let before = observe(&c, &mut dict, 0).await.dump;
                        ctx.push(format!("live handle (poisoned={}): {before}", c.is_poisoned()));
                        drop(c);
                        match db.open_collection("c".into(), async |_| Ok(())).await {
                            Ok(c2) => { let after = observe(&c2, &mut dict, 0).await; ctx.push(format!("after reopen: {}", after.dump)); settle(&c2, "early-release:add-got-in", &ctx, &mut st).await; }
                            Err(e) => {
                                ctx.push(format!("reopen failed: {e:?}"));
                                if !st.failures.iter().any(|f| f.0 == EARLY_KEY) {
                                    st.failures.push((EARLY_KEY.into(), "concurrent update + add: the add took the released unique value; the collection does not reopen afterwards (F-C04-1)".into(), ctx.clone(), "reopens".into(), format!("{e:?}")));
                                }
                            }
                        }
                    } else {
                        settle(&c, "early-release", &ctx, &mut st).await;
                    }
                    let _ = db.close().await;
                }
            }
        }
    });
    st
}
