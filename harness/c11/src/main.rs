//! Harness for property C11 — full-text index retrieves exactly the matching documents, ranked
//! stably; same answers after compaction and after loading what any (interrupted) flush left.
//!
//! Per case (a list of op lines, see `world.rs`): the real `anda_db_tfs::BM25Index` is driven through
//! its public API, the Lean model (`drv_c11`) is sent the derived lines and must answer the same
//! (correspondence), and an independent naive inverted index built with the same tokenizer decides
//! the property itself (oracle): retrieval sets of term and boolean queries, counters, finite
//! non-negative scores, order, top-k prefix for every k, repeat stability, answers after
//! compaction / reload / every crash prefix of every flush, shape of the flush write sequence.

mod conc;
mod query;
mod store;
mod world;

use query::{all_shapes, fill, gen_tree};
use std::panic::{AssertUnwindSafe, catch_unwind};
use vh_common::{Args, ModelProc, Report, Rng, read_corpus, read_replay, serde_json::json, shrink};
use world::{CaseResult, VOCAB, VOCAB_MS, World, show_params};

fn params_table() -> Vec<Option<(f32, f32)>> {
    vec![
        None,
        Some((1.2, 0.75)),
        Some((0.0, 0.0)),
        Some((f32::NAN, f32::NAN)),
        Some((f32::INFINITY, 0.5)),
        Some((f32::NEG_INFINITY, -1.0)),
        Some((-3.0, 2.0)),
        Some((f32::MAX, 1.0)),
        Some((1e-30, 1e-30)),
        Some((1000.0, 1.0)),
        Some((5000.0, 0.5)),
        Some((f32::from_bits(1), f32::from_bits(0x8000_0001))),
        Some((-0.0, -0.0)),
        Some((2.0, f32::NAN)),
        Some((f32::from_bits(0xffc0_0001), 0.3)),
    ]
}

fn words_of(rng: &mut Rng, vocab: &[&str], lo: usize, hi: usize) -> Vec<String> {
    let n = lo + rng.usize(hi - lo + 1);
    (0..n).map(|_| rng.pick(vocab).to_string()).collect()
}

/// One random history with queries and persistence events.
fn gen_case(rng: &mut Rng, shapes: &[query::Tree]) -> Vec<String> {
    let mut ops = Vec::new();
    // one case in five speaks the multi-script vocabulary (mixed with the plain one)
    let mixed: Vec<&str> = VOCAB.iter().chain(VOCAB_MS.iter()).cloned().collect();
    let vocab: &[&str] = if rng.chance(1, 5) { &mixed } else { &VOCAB };
    let words = |rng: &mut Rng, lo: usize, hi: usize| words_of(rng, vocab, lo, hi);
    let overload = *rng.pick(&[524288usize, 524288, 0, 1, 48, 90, 160]);
    if overload != 524288 {
        ops.push(format!("cfg {overload}"));
    }
    let ptab = params_table();
    let n_ops = 8 + rng.usize(22);
    let max_id = 3 + rng.below(5);
    let mut texts: std::collections::BTreeMap<u64, Vec<String>> = Default::default();
    for _ in 0..n_ops {
        let r = rng.below(100);
        if r < 34 {
            let id = 1 + rng.below(max_id);
            let ws = if rng.chance(1, 14) { vec![] } else { words(rng, 1, 5) };
            if !texts.contains_key(&id) && !ws.is_empty() {
                texts.insert(id, ws.clone());
            }
            ops.push(format!("ins {id} {}", ws.join(" ")).trim_end().to_string());
        } else if r < 54 {
            let id = 1 + rng.below(max_id);
            let orig = texts.get(&id).cloned();
            let ws = match (rng.below(10), orig) {
                (0..=4, Some(o)) => o,
                (5..=6, Some(o)) => o.into_iter().filter(|_| rng.chance(1, 2)).collect(),
                (7, _) => vec![],
                _ => words(rng, 1, 3),
            };
            texts.remove(&id);
            ops.push(format!("rem {id} {}", ws.join(" ")).trim_end().to_string());
        } else if r < 60 {
            let n = rng.usize(3);
            let ids: Vec<u64> = (0..n).map(|_| 1 + rng.below(max_id)).collect();
            for i in &ids {
                texts.remove(i);
            }
            ops.push(format!("purge {}", vh_common::join(ids.iter(), ",")).trim_end().to_string());
            // a purged id is often used again at once (the region of the two known findings)
            if !ids.is_empty() && rng.chance(1, 2) {
                let id = ids[rng.usize(ids.len())];
                let ws = words(rng, 1, 3);
                texts.insert(id, ws.clone());
                ops.push(format!("ins {id} {}", ws.join(" ")));
            }
        } else if r < 70 {
            let p = show_params(*rng.pick(&ptab));
            ops.push(format!("search {p} {}", words(rng, 1, 3).join(" ")));
        } else if r < 86 {
            let p = show_params(*rng.pick(&ptab));
            let t = if rng.chance(1, 2) { fill(rng.pick(shapes), rng, vocab) } else { gen_tree(rng, vocab, 3) };
            ops.push(format!("adv {p} {}", t.unparse()));
        } else if r < 92 {
            ops.push("flush".into());
            if rng.chance(1, 4) {
                ops.push("legacy".into());
            }
        } else if r < 94 {
            ops.push(format!("crashload {}", rng.below(6)));
        } else if r < 95 {
            ops.push(format!("failflush {}", rng.below(7)));
        } else if r < 97 {
            ops.push("reload".into());
        } else {
            ops.push("compact".into());
            // compaction is followed by a flush whose every prefix is loaded, or by a crash
            match rng.below(4) {
                0 | 1 => ops.push("flush".into()),
                2 => ops.push(format!("crashload {}", rng.below(6))),
                _ => {}
            }
        }
    }
    // closing sweep: every case ends with queries and a flush whose prefixes are all loaded
    for _ in 0..2 {
        ops.push(format!("search def {}", words(rng, 1, 2).join(" ")));
        ops.push(format!("adv def {}", gen_tree(rng, vocab, 3).unparse()));
    }
    ops.push("flush".into());
    ops
}

/// schedules explored per concurrent workload at most (set from the tier)
static CONC_CAP: std::sync::atomic::AtomicU64 = std::sync::atomic::AtomicU64::new(3000);

fn run_case(ops: &[String], model: Option<&mut ModelProc>) -> CaseResult {
    let r = catch_unwind(AssertUnwindSafe(|| {
        let mut w = World::new(model);
        if ops.len() == 1
            && let Some(wl) = conc::Workload::parse(&ops[0])
        {
            // L3: one line = one workload; every interleaving at the yield points is a run
            w.explore(&wl, CONC_CAP.load(std::sync::atomic::Ordering::Relaxed));
            return w.res;
        }
        w.run(ops);
        w.res
    }));
    match r {
        Ok(res) => res,
        Err(e) => {
            let msg = e.downcast_ref::<String>().cloned().or_else(|| e.downcast_ref::<&str>().map(|s| s.to_string())).unwrap_or_else(|| "panic".into());
            let mut res = CaseResult::default();
            res.oracle.push(("panic".into(), "panic in the code under test".into(), "no panic".into(), msg));
            res
        }
    }
}

struct Totals {
    searches: u64,
    prefixes: u64,
    bits_differ: u64,
    schedules: u64,
}

/// L3 workloads: operations on overlapping tokens, distinct ids per thread, with compaction.
/// Every text has one distinct token (hash-map iteration order inside an operation is then
/// immaterial); `large` setups may hold two-token documents (everything lives in bucket 0).
fn conc_workloads(thorough: bool) -> Vec<String> {
    let mut v: Vec<String> = Vec::new();
    let pairs: [(&str, &str); 14] = [
        ("", "ins 1 alpha || ins 2 alpha"),
        ("", "ins 1 alpha || ins 2 beta"),
        ("ins 1 alpha", "rem 1 alpha || ins 2 alpha"),
        ("ins 1 alpha", "rem 1 alpha || ins 2 beta"),
        ("ins 1 alpha ; ins 2 alpha", "rem 1 alpha || rem 2 alpha"),
        ("ins 1 alpha", "purge 1 || ins 2 alpha"),
        ("ins 1 alpha ; ins 2 beta", "purge 1 || rem 2 beta"),
        ("ins 1 alpha ; ins 2 beta", "compact || ins 3 gamma"),
        ("ins 1 alpha ; ins 2 beta", "compact || ins 3 alpha"),
        ("ins 1 alpha ; ins 2 beta", "compact || rem 1 alpha"),
        ("ins 1 alpha ; ins 2 beta", "compact || purge 2"),
        ("", "rem 9 alpha || ins 1 alpha"),
        ("ins 1 alpha ; ins 2 beta ; rem 2 beta", "ins 3 gamma || ins 4 beta"),
        ("ins 1 alpha ; ins 2 beta", "rem 1 beta || ins 3 beta"),
    ];
    for (setup, threads) in pairs {
        for mode in ["zero", "large"] {
            v.push(format!("conc {mode} | {setup} | {threads}"));
        }
    }
    // two-token documents (bucket 0 only): partial-text remove against an insert / a purge
    v.push("conc large | ins 1 alpha beta | rem 1 alpha || ins 2 beta".into());
    v.push("conc large | ins 1 alpha beta ; ins 2 beta | rem 1 beta || rem 2 beta".into());
    if thorough {
        for (setup, threads) in [
            ("", "ins 1 alpha || ins 2 alpha || ins 3 beta"),
            ("ins 1 alpha", "rem 1 alpha || ins 2 alpha || ins 3 alpha"),
            ("ins 1 alpha ; ins 2 beta", "compact || ins 3 gamma || rem 1 alpha"),
            ("ins 1 alpha ; ins 2 beta", "compact || purge 2 || ins 3 beta"),
            ("ins 1 alpha ; ins 2 alpha", "rem 1 alpha || rem 2 alpha || ins 3 alpha"),
            ("ins 1 alpha ; ins 2 beta", "purge 1 || ins 3 alpha || rem 2 beta"),
        ] {
            for mode in ["zero", "large"] {
                v.push(format!("conc {mode} | {setup} | {threads}"));
            }
        }
    }
    v
}

fn absorb(report: &mut Report, tot: &mut Totals, ops: &[String], res: CaseResult, model: &mut Option<ModelProc>, driver: &Option<std::path::PathBuf>) {
    report.case(&res.canon, res.nontrivial);
    report.model_compared += res.compared;
    tot.searches += res.searches;
    tot.prefixes += res.crash_prefixes;
    tot.bits_differ += res.score_bits_differ_between_calls;
    tot.schedules += res.schedules;
    for h in &res.hits {
        report.hit(h);
    }
    report.hit_n("ops", ops.len() as u64);
    if !res.disagreements.is_empty() {
        // the driver's state is unknown after a disagreement: restart it, shrink, report
        if let Some(p) = driver {
            *model = Some(ModelProc::spawn(p).expect("driver"));
        }
        let small = shrink(ops.to_vec(), |cand| !run_case(cand, model.as_mut()).disagreements.is_empty(), 300);
        let r2 = run_case(&small, model.as_mut());
        let (what, m, i) = r2.disagreements.first().cloned().unwrap_or_else(|| res.disagreements[0].clone());
        report.disagreement(&what, &small, &m, &i);
    }
    let is_known = |k: &str| k == world::KNOWN_STALE || k == world::KNOWN_RESURRECT;
    // a known finding is reported once (shrunk); further manifestations are only counted
    let fresh: Option<String> = res
        .oracle
        .iter()
        .find(|o| !is_known(&o.0))
        .or_else(|| res.oracle.iter().find(|o| !report.histogram.contains_key(&format!("known:{}", o.0))))
        .map(|o| o.0.clone());
    for o in &res.oracle {
        if is_known(&o.0) && Some(&o.0) != fresh.as_ref() {
            report.hit(&format!("known:{}", o.0));
        }
    }
    if let Some(key) = fresh {
        if is_known(&key) {
            report.hit(&format!("known:{key}"));
        }
        let small = shrink(ops.to_vec(), |cand| run_case(cand, None).oracle.iter().any(|o| o.0 == key), 300);
        let r2 = run_case(&small, None);
        let (key, what, exp, obs) = r2.oracle.iter().find(|o| o.0 == key).cloned().unwrap_or_else(|| res.oracle[0].clone());
        report.oracle_failure(&key, &what, &small, &exp, &obs);
        for o in res.oracle.iter().skip(1) {
            if o.0 != key && !is_known(&o.0) {
                report.oracle_failure(&o.0, &o.1, ops, &o.2, &o.3);
            }
        }
    }
}

fn main() {
    let args = Args::parse();
    let mut report = Report::new(
        "C11",
        &args,
        "a case (one history) is non-trivial if an insert succeeded or some query returned a non-empty result; distinct = distinct op lists",
    );
    let mut model = ModelProc::from_args(&args);
    let mut tot = Totals { searches: 0, prefixes: 0, bits_differ: 0, schedules: 0 };
    CONC_CAP.store(args.budget(500, 2_500), std::sync::atomic::Ordering::Relaxed);
    let shapes = all_shapes(3);

    if let Some(rp) = &args.replay {
        let ops = read_replay(rp);
        let res = run_case(&ops, model.as_mut());
        absorb(&mut report, &mut tot, &ops, res, &mut model, &args.driver);
        report.write(&args);
        return;
    }

    // ---- corpus first
    if let Some(dir) = &args.corpus {
        for (name, ops) in read_corpus(dir) {
            let res = run_case(&ops, model.as_mut());
            report.hit(&format!("corpus:{name}"));
            report.sample(json!({"corpus": name, "ops": ops.iter().take(12).collect::<Vec<_>>()}));
            absorb(&mut report, &mut tot, &ops, res, &mut model, &args.driver);
        }
    }

    // ---- comparator on special bit patterns (model vs f32::total_cmp-based reference is the oracle)
    comparator_cases(&mut report, &mut model, &args);

    // ---- every boolean tree shape to depth 3 over a fixed small history
    let n_shape_fill = args.budget(1, 6);
    for (si, shape) in shapes.iter().enumerate() {
        for f in 0..n_shape_fill {
            let mut rng = Rng::for_case(args.seed ^ 0x5eed, (si as u64) * 16 + f);
            let mut ops: Vec<String> = vec![
                "ins 1 alpha beta beta".into(),
                "ins 2 beta gamma run".into(),
                "ins 3 running fox lazy".into(),
                "ins 4 foxes well-known alpha".into(),
                "ins 5 delta".into(),
                "rem 5 gamma".into(),
                "ins 6 Beta lazy lazy lazy".into(),
            ];
            ops.push(format!("adv def {}", fill(shape, &mut rng, &VOCAB).unparse()));
            let res = run_case(&ops, model.as_mut());
            report.hit("shape-case");
            absorb(&mut report, &mut tot, &ops, res, &mut model, &args.driver);
        }
    }

    // ---- L3: every interleaving at the yield points of 2 (thorough: also 3) threads
    for line in conc_workloads(args.thorough() || args.focus.is_some()) {
        let ops = vec![line.clone()];
        let res = run_case(&ops, model.as_mut());
        report.hit("conc-workload");
        report.hit_n("conc-schedules", res.schedules);
        report.evaluations += res.schedules.saturating_sub(1);
        eprintln!("[conc] {} schedules: {line}", res.schedules);
        if report.samples.len() < 8 {
            report.sample(json!({"conc": line, "schedules": res.schedules}));
        }
        absorb(&mut report, &mut tot, &ops, res, &mut model, &args.driver);
    }

    // ---- random histories
    let n_cases = args.budget(700, 30_000);
    for i in 0..n_cases {
        let mut rng = Rng::for_case(args.seed, i);
        let ops = gen_case(&mut rng, &shapes);
        let res = run_case(&ops, model.as_mut());
        if i < 3 {
            report.sample(json!({"case": i, "ops": ops}));
        }
        absorb(&mut report, &mut tot, &ops, res, &mut model, &args.driver);
        if report.oracle_failures.len() >= 12 || report.disagreements.len() >= 12 {
            break;
        }
    }

    report.measured.insert("searches_checked".into(), json!(tot.searches));
    report.measured.insert("crash_prefixes_loaded".into(), json!(tot.prefixes));
    report.measured.insert("interleavings_executed_on_real_threads".into(), json!(tot.schedules));
    report.measured.insert("topk_calls_whose_score_bits_differ_from_the_full_call".into(), json!(tot.bits_differ));
    report.measured.insert("boolean_tree_shapes_depth_le_3".into(), json!(shapes.len()));
    report.notes.push("scores are checked finite and non-negative on every returned result (measured in f32; the theorem score_nonneg_real is over the reals)".into());
    report.write(&args);
}

/// `compare_scored_docs` on hand-picked and random bit patterns: the model's comparator against a
/// reference written with `f32::total_cmp` (what the code calls), through `cmp` and `topk` lines.
fn comparator_cases(report: &mut Report, model: &mut Option<ModelProc>, args: &Args) {
    let Some(m) = model.as_mut() else { return };
    let special: [u32; 16] = [
        0, 0x8000_0000, 1, 0x8000_0001, 0x3f80_0000, 0xbf80_0000, 0x7f7f_ffff, 0xff7f_ffff, 0x7f80_0000, 0xff80_0000, 0x7fc0_0000, 0xffc0_0000,
        0x7f80_0001, 0xff80_0001, 0x7fff_ffff, 0x0080_0000,
    ];
    let reference = |a: (u64, u32), b: (u64, u32)| -> std::cmp::Ordering {
        let (x, y) = (f32::from_bits(a.1), f32::from_bits(b.1));
        match (x.is_nan(), y.is_nan()) {
            (true, true) => a.0.cmp(&b.0),
            (true, false) => std::cmp::Ordering::Greater,
            (false, true) => std::cmp::Ordering::Less,
            (false, false) => y.total_cmp(&x).then(a.0.cmp(&b.0)),
        }
    };
    let mut rng = Rng::for_case(args.seed, 0xc0ffee);
    let n = args.budget(1500, 40_000);
    for i in 0..n {
        let pick = |rng: &mut Rng| if rng.chance(2, 3) { *rng.pick(&special) } else { rng.next_u64() as u32 };
        let a = (rng.below(3), pick(&mut rng));
        let b = (rng.below(3), pick(&mut rng));
        let exp = match reference(a, b) {
            std::cmp::Ordering::Less => "lt",
            std::cmp::Ordering::Equal => "eq",
            std::cmp::Ordering::Greater => "gt",
        };
        let line = format!("cmp {}:{} {}:{}", a.0, a.1, b.0, b.1);
        let ans = m.ask(&line);
        report.model_compared += 1;
        report.hit("cmp");
        report.case(&line, true);
        if ans != exp {
            report.disagreement("compare_scored_docs on bit patterns", &[line], &ans, exp);
        }
        // a whole list: the model's top-k against sort_by(reference) + truncate
        if i % 10 == 0 {
            let len = 1 + rng.usize(7);
            let mut l: Vec<(u64, u32)> = (0..len as u64).map(|id| (id, pick(&mut rng))).collect();
            rng.shuffle(&mut l);
            let k = rng.usize(len + 2);
            let line = format!("topk {k} {}", vh_common::join(l.iter().map(|(i, b)| format!("{i}:{b}")), ","));
            l.sort_by(|a, b| reference(*a, *b));
            l.truncate(k);
            let exp = if l.is_empty() { "-".to_string() } else { vh_common::join(l.iter().map(|x| x.0), ",") };
            let ans = m.ask(&line);
            report.model_compared += 1;
            report.hit("topk-bits");
            if ans != exp {
                report.disagreement("top_k_results on bit patterns", &[line], &ans, &exp);
            }
        }
    }
}
