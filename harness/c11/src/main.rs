//! Harness for property C11 (stub: not built yet).
fn main() {
    let a = vh_common::Args::parse();
    let r = vh_common::Report::new("C11", &a, "stub");
    r.write(&a);
}
