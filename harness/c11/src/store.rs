//! The in-memory object map a flush is recorded into, and decoders of the persisted blobs.

use serde::Deserialize;
use std::collections::BTreeMap;

#[derive(Clone, Debug)]
pub enum W {
    Obj((u32, u64), Vec<u8>),
    Meta(Vec<u8>),
    Del((u32, u64)),
}

#[derive(Clone, Default)]
pub struct MemStore {
    pub meta: Option<Vec<u8>>,
    pub objs: BTreeMap<(u32, u64), Vec<u8>>,
}

impl MemStore {
    pub fn apply(&mut self, w: &W) {
        match w {
            W::Obj(o, b) => {
                self.objs.insert(*o, b.clone());
            }
            W::Meta(b) => self.meta = Some(b.clone()),
            W::Del(o) => {
                self.objs.remove(o);
            }
        }
    }
}

/// `BucketOwned { p, d }`
#[derive(Deserialize)]
struct BucketWire {
    p: BTreeMap<String, (u32, Vec<(u64, usize)>)>,
    d: BTreeMap<u64, usize>,
}

pub struct BucketDecoded {
    pub postings: BTreeMap<String, (u32, Vec<(u64, usize)>)>,
    pub doc_tokens: BTreeMap<u64, usize>,
}

pub fn decode_bucket(bytes: &[u8]) -> Option<BucketDecoded> {
    let w: BucketWire = cbor2::from_reader(bytes).ok()?;
    Some(BucketDecoded { postings: w.p, doc_tokens: w.d })
}

#[derive(Deserialize)]
struct MetaWire {
    metadata: anda_db_tfs::BM25Metadata,
}

pub struct MetaDecoded {
    pub version: u64,
    pub max_bucket_id: u32,
    pub manifest: BTreeMap<u32, u64>,
}

#[derive(serde::Serialize)]
struct MetaOut<'a> {
    metadata: &'a anda_db_tfs::BM25Metadata,
}

/// The same store in the pre-manifest layout: every object the manifest references re-keyed to
/// generation 0, the metadata without a manifest (what a pre-manifest release left behind).
pub fn to_legacy(store: &MemStore) -> Option<MemStore> {
    let bytes = store.meta.as_ref()?;
    let mut w: MetaWire = cbor2::from_reader(&bytes[..]).ok()?;
    let mut out = MemStore::default();
    for (b, g) in &w.metadata.buckets {
        if let Some(o) = store.objs.get(&(*b, *g)) {
            out.objs.insert((*b, 0), o.clone());
        }
    }
    w.metadata.buckets.clear();
    let mut buf = Vec::new();
    cbor2::to_writer(&MetaOut { metadata: &w.metadata }, &mut buf).ok()?;
    out.meta = Some(buf);
    Some(out)
}

pub fn decode_meta(bytes: &[u8]) -> Option<MetaDecoded> {
    let w: MetaWire = cbor2::from_reader(bytes).ok()?;
    Some(MetaDecoded { version: w.metadata.stats.version, max_bucket_id: w.metadata.stats.max_bucket_id, manifest: w.metadata.buckets })
}
