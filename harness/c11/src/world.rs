//! Runs one case (a list of op lines) on the real `BM25Index`, on the Lean model (through the
//! driver) and on the independent oracle (a naive inverted index), and collects what differs.
//!
//! Op lines of a case (what the corpus stores and what a replay carries):
//!   cfg <bucket_overload_size>            first line only (default 524288)
//!   ins <id> <word>…                      BM25Index::insert(id, words joined by ' ')
//!   rem <id> <word>…                      BM25Index::remove(id, text)  (text may be non-original)
//!   purge <id,id,…>                       BM25Index::purge_ids
//!   bulk <n>                              n inserts of ids 100000.. with text "alpha"
//!   search <params> <word>…               BM25Index::search(text, k) for every k
//!   adv <params> <boolean query text>     BM25Index::try_search_advanced(query, k) for every k
//!   flush                                 flush_with into the in-memory object map; every crash prefix
//!                                         of the recorded write sequence is loaded and compared
//!   crashload <k>                         flush, keep only the first k writes, load that, go on with it
//!   failflush <k>                         flush whose k-th backend write returns an error; go on in memory
//!   reload                                load what the store holds, go on with it
//!   compact                               compact_buckets
//!   legacy                                the store re-written in the pre-manifest layout (objects at generation 0,
//!                                         metadata without a manifest) is loaded: the legacy probe of load_buckets
//! params ::= def | <k1 bits hex>/<b bits hex>
//!
//! The model is sent derived lines (see lean/AndaVerif/Drv/C11.lean): words are replaced by the
//! token numbers the *real* tokenizer produced, query text by the AST `QueryType::parse` produced,
//! scores by the bit patterns the real code returned.

use crate::conc::{COp, Workload, new_index, next_prefix, run_probe, run_threads};
use crate::query::{Tree, ast_line, read_tree};
use crate::store::{MemStore, W, decode_bucket, decode_meta, to_legacy};
use anda_db_tfs::{BM25Config, BM25Index, BM25Params, BucketObject, QueryType, TokenizerChain, collect_tokens, default_tokenizer};
use std::cell::RefCell;
use std::collections::{BTreeMap, BTreeSet};
use vh_common::{ModelProc, join};

/// a second, multi-script vocabulary (CJK runs, diacritics, case pairs outside ASCII, digits, a
/// ligature, a one-byte and a one-character-three-byte word) used by a fraction of the cases: the
/// tokenizer chain (SimpleTokenizer, RemoveLong, LowerCaser, English stemmer) and the parser's
/// `to_lowercase` are glue between the text and the model's token numbers
pub const VOCAB_MS: [&str; 14] =
    ["水", "検索エンジン", "데이터", "русский", "РУССКИЙ", "naïve", "NAÏVE", "Straße", "ﬁne", "42", "x", "É", "東京 タワー", "running"];

pub const VOCAB: [&str; 12] =
    ["alpha", "beta", "gamma", "delta", "run", "running", "fox", "foxes", "lazy", "a", "well-known", "Beta"];

const BIG: usize = 1_000_000;

#[derive(Default)]
pub struct CaseResult {
    /// (what, model, impl)
    pub disagreements: Vec<(String, String, String)>,
    /// (key, what, expected, observed)
    pub oracle: Vec<(String, String, String, String)>,
    pub hits: Vec<String>,
    pub nontrivial: bool,
    pub compared: u64,
    pub score_bits_differ_between_calls: u64,
    pub searches: u64,
    pub crash_prefixes: u64,
    pub schedules: u64,
    pub canon: String,
}

/// The independent oracle: live documents with the token set and length of their current text.
#[derive(Clone, Default, Debug, PartialEq)]
pub struct Naive {
    pub docs: BTreeMap<u64, (BTreeSet<String>, usize)>,
    /// Classifier of the known finding only (never used for an expectation): posting entries a
    /// `remove` with non-original text left behind, per document id. While the id is absent they
    /// are invisible; a re-insert of the id makes them visible again.
    pub stale: BTreeMap<u64, BTreeSet<String>>,
    /// Classifier of the second known finding only: ids that were live *with visible left-over
    /// entries* (removed with non-original text, re-inserted) and were then removed again. Buckets
    /// holding only left-over entries of such an id are not rewritten by that remove, so a reload can
    /// bring the document back. Cleared by `purge_ids`.
    pub resurrectable: BTreeSet<u64>,
    /// a `remove` of a live document did not name all of its tokens (mirror of Lean `removesCover`)
    pub noncover_seen: bool,
}

/// key of the second known finding: a removed document is back after flush + reload
pub const KNOWN_RESURRECT: &str = "removed-doc-back-after-reload-following-stale-reinsert";

/// key of the known finding: a document is returned for a token of an *earlier* text of the same id
pub const KNOWN_STALE: &str = "stale-posting-visible-after-reinsert";

impl Naive {
    /// the index as it looks if left-behind posting entries of live documents count as content
    pub fn stale_view(&self) -> Naive {
        let mut v = self.clone();
        for (id, (toks, _)) in v.docs.iter_mut() {
            if let Some(st) = self.stale.get(id) {
                toks.extend(st.iter().cloned());
            }
        }
        v
    }
    pub fn has_visible_stale(&self) -> bool {
        self.stale.iter().any(|(id, st)| !st.is_empty() && self.docs.contains_key(id))
    }
    fn on_insert(&mut self, id: u64, toks: BTreeSet<String>, len: usize) {
        if let Some(st) = self.stale.get_mut(&id) {
            st.retain(|t| !toks.contains(t));
        }
        self.docs.insert(id, (toks, len));
    }
    fn on_remove(&mut self, id: u64, text_toks: &BTreeSet<String>) -> bool {
        let gone = self.docs.remove(&id);
        if let Some((toks, _)) = &gone
            && !toks.iter().all(|t| text_toks.contains(t))
        {
            self.noncover_seen = true;
        }
        if gone.is_some() && self.stale.get(&id).is_some_and(|s| !s.is_empty()) {
            self.resurrectable.insert(id);
        }
        let st = self.stale.entry(id).or_default();
        if let Some((toks, _)) = &gone {
            st.extend(toks.iter().cloned());
        }
        st.retain(|t| !text_toks.contains(t));
        gone.is_some()
    }
    fn on_purge(&mut self, id: u64) -> bool {
        self.stale.remove(&id);
        self.resurrectable.remove(&id);
        self.docs.remove(&id).is_some()
    }
    /// `load_buckets` prunes the entries of documents without a length
    fn on_load(&mut self) {
        let docs = &self.docs;
        self.stale.retain(|id, _| docs.contains_key(id));
    }
    fn with_any(&self, toks: &BTreeSet<String>) -> BTreeSet<u64> {
        self.docs.iter().filter(|(_, (ts, _))| ts.iter().any(|t| toks.contains(t))).map(|(i, _)| *i).collect()
    }
    fn eval(&self, t: &Tree, tk: &mut dyn FnMut(&str) -> BTreeSet<String>) -> BTreeSet<u64> {
        match t {
            Tree::Leaf(ws) => {
                let mut toks = BTreeSet::new();
                for w in ws {
                    toks.extend(tk(w));
                }
                self.with_any(&toks)
            }
            Tree::Not(t) => {
                let e = self.eval(t, tk);
                self.docs.keys().filter(|i| !e.contains(i)).cloned().collect()
            }
            Tree::Or(ts) => {
                let mut r = BTreeSet::new();
                for t in ts {
                    r.extend(self.eval(t, tk));
                }
                r
            }
            Tree::And(ts) => {
                let mut it = ts.iter();
                let Some(first) = it.next() else { return BTreeSet::new() };
                let mut r = self.eval(first, tk);
                for t in it {
                    let e = self.eval(t, tk);
                    r.retain(|i| e.contains(i));
                }
                r
            }
        }
    }
    fn avg_bits(&self) -> u32 {
        if self.docs.is_empty() {
            return 0f32.to_bits();
        }
        let total: usize = self.docs.values().map(|(_, n)| *n).sum();
        (total as u64 as f32 / self.docs.len() as f32).to_bits()
    }
    fn state_line(&self) -> String {
        format!("n={} avg={} docs={}", self.docs.len(), self.avg_bits(), dash(join(self.docs.iter().map(|(i, (_, n))| format!("{i}:{n}")), ",")))
    }
}

/// `… total=<t> …` of a model answer → `… avg=<bits> …` (the average the code derives from it)
fn conv_avg(ans: &str) -> String {
    let n: Option<u64> = ans.split(' ').find_map(|p| p.strip_prefix("n=")).and_then(|x| x.parse().ok());
    let Some(n) = n else { return ans.to_string() };
    ans.split(' ')
        .map(|p| match p.strip_prefix("total=").and_then(|x| x.parse::<u64>().ok()) {
            Some(t) => format!("avg={}", (if n == 0 { 0f32 } else { t as f32 / n as f32 }).to_bits()),
            None => p.to_string(),
        })
        .collect::<Vec<_>>()
        .join(" ")
}

pub type Battery = Vec<(String, String)>;

const BATTERY_QUERIES: [&str; 4] = ["NOT alpha", "(alpha AND NOT beta)", "(NOT gamma AND NOT fox)", "(run OR (beta AND lazy))"];

fn show_battery(b: &Battery) -> String {
    b.iter().map(|(l, v)| format!("{l}={v}")).collect::<Vec<_>>().join(" ")
}

/// the two batteries differ only in documents of `g`: lengths of other documents agree and every
/// answer set differs by ids of `g` only
fn confined(got: &Battery, exp: &Battery, g: &BTreeSet<u64>) -> bool {
    if got.len() != exp.len() {
        return false;
    }
    let ids = |v: &str| -> BTreeSet<u64> { v.split(',').filter_map(|x| x.split(':').next().and_then(|i| i.parse().ok())).collect() };
    for ((lg, vg), (le, ve)) in got.iter().zip(exp.iter()) {
        if lg != le {
            return false;
        }
        match lg.as_str() {
            "n" | "avg" => {}
            "docs" => {
                let keep = |v: &str| -> Vec<String> { v.split(',').filter(|x| x.split(':').next().and_then(|i| i.parse::<u64>().ok()).is_some_and(|i| !g.contains(&i))).map(|x| x.to_string()).collect() };
                if keep(vg) != keep(ve) {
                    return false;
                }
            }
            _ => {
                if ids(vg).symmetric_difference(&ids(ve)).any(|i| !g.contains(i)) {
                    return false;
                }
            }
        }
    }
    true
}

fn dash(s: String) -> String {
    if s.is_empty() { "-".into() } else { s }
}

pub fn parse_params(s: &str) -> Option<Option<BM25Params>> {
    if s == "def" {
        return Some(None);
    }
    let (a, b) = s.split_once('/')?;
    let k1 = f32::from_bits(u32::from_str_radix(a, 16).ok()?);
    let b = f32::from_bits(u32::from_str_radix(b, 16).ok()?);
    Some(Some(BM25Params { k1, b }))
}

pub fn show_params(p: Option<(f32, f32)>) -> String {
    match p {
        None => "def".into(),
        Some((k1, b)) => format!("{:x}/{:x}", k1.to_bits(), b.to_bits()),
    }
}

type Index = BM25Index<TokenizerChain>;

pub struct World<'m> {
    tk: TokenizerChain,
    toknum: BTreeMap<String, usize>,
    cfg: BM25Config,
    index: Index,
    naive: Naive,
    committed: Naive,
    store: MemStore,
    seen: BTreeSet<u64>,
    model: Option<&'m mut ModelProc>,
    pub res: CaseResult,
    stop: bool,
    oracle_count: u64,
}

enum Kind {
    Text(String),
    Adv(String),
}

impl<'m> World<'m> {
    pub fn new(model: Option<&'m mut ModelProc>) -> World<'m> {
        let mut w = World {
            tk: default_tokenizer(),
            toknum: BTreeMap::new(),
            cfg: BM25Config::default(),
            index: BM25Index::new("c11".into(), default_tokenizer(), None),
            naive: Naive::default(),
            committed: Naive::default(),
            store: MemStore::default(),
            seen: BTreeSet::new(),
            model,
            res: CaseResult::default(),
            stop: false,
            oracle_count: 0,
        };
        for word in VOCAB {
            let t = w.tokens(word);
            for (tok, _) in t {
                w.num(&tok);
            }
        }
        if let Some(m) = w.model.as_deref_mut() {
            m.ask("reset");
        }
        w
    }

    fn tokens(&mut self, text: &str) -> BTreeMap<String, usize> {
        collect_tokens(&mut self.tk, text, None).into_iter().collect()
    }
    fn token_set(&mut self, text: &str) -> BTreeSet<String> {
        self.tokens(text).into_keys().collect()
    }
    fn num(&mut self, tok: &str) -> usize {
        let n = self.toknum.len();
        *self.toknum.entry(tok.to_string()).or_insert(n)
    }
    fn tf_line(&mut self, text: &str) -> String {
        let t = self.tokens(text);
        let mut v: Vec<(usize, usize)> = t.iter().map(|(k, f)| (self.num(k), *f)).collect();
        v.sort();
        dash(join(v.iter().map(|(t, f)| format!("{t}:{f}")), ","))
    }

    fn hit(&mut self, k: &str) {
        self.res.hits.push(k.to_string());
    }

    /// correspondence: send `line` to the model, compare its answer with `imp`
    fn corr(&mut self, what: &str, line: &str, imp: &str) {
        if self.stop {
            return;
        }
        if let Some(m) = self.model.as_deref_mut() {
            let ans = conv_avg(&m.ask(line));
            if std::env::var_os("VH_C11_TRACE").is_some() {
                eprintln!("MODEL> {line}\nMODEL< {ans}");
            }
            self.res.compared += 1;
            if ans != imp {
                self.res.disagreements.push((format!("{what} [model line: {line}]"), ans, imp.to_string()));
                self.stop = true;
            }
        }
    }

    fn oracle(&mut self, key: &str, what: &str, expected: String, observed: String) {
        if key == KNOWN_RESURRECT && (what.contains(": reload") || what.contains(": crashload")) {
            // the live index now holds the resurrected document: the rest of the case is moot
            self.stop = true;
        }
        self.oracle_count += 1;
        if self.res.oracle.iter().filter(|o| o.0 == key).count() < 2 && self.res.oracle.len() < 12 {
            self.res.oracle.push((key.to_string(), what.to_string(), expected, observed));
        }
    }

    fn impl_state_line(&self, index: &Index) -> String {
        let st = index.stats();
        let docs: Vec<String> = self.seen.iter().filter_map(|i| index.get_doc_tokens(*i).map(|n| format!("{i}:{n}"))).collect();
        format!("n={} avg={} docs={}", index.len(), st.avg_doc_tokens.to_bits(), dash(docs.join(",")))
    }

    /// after every mutation: document count, average length (derived from total_tokens), lengths
    fn check_state(&mut self, what: &str) {
        let imp = self.impl_state_line(&self.index);
        let exp = self.naive.state_line();
        if imp != exp {
            self.oracle("counters", what, exp, imp.clone());
        }
        if self.stop {
            return;
        }
        self.corr(&format!("{what} [state after]"), "st", &imp);
    }

    pub fn run(&mut self, ops: &[String]) {
        for (i, op) in ops.iter().enumerate() {
            if self.stop {
                break;
            }
            self.res.canon.push_str(op);
            self.res.canon.push('\n');
            self.step(i, op);
        }
    }

    fn step(&mut self, i: usize, op: &str) {
        let what = format!("op {i}: {op}");
        let mut it = op.split(' ').filter(|s| !s.is_empty());
        let Some(cmd) = it.next() else { return };
        let rest: Vec<&str> = it.collect();
        match cmd {
            "cfg" => {
                if i == 0
                    && let Some(n) = rest.first().and_then(|s| s.parse::<usize>().ok())
                {
                    self.cfg = BM25Config { bucket_overload_size: n, ..BM25Config::default() };
                    self.index = BM25Index::new("c11".into(), default_tokenizer(), Some(self.cfg.clone()));
                    self.hit(&format!("cfg:{}", if n == 0 { "0" } else if n < 1000 { "small" } else { "large" }));
                }
            }
            "ins" => {
                let Some(id) = rest.first().and_then(|s| s.parse::<u64>().ok()) else { return };
                let text = rest[1..].join(" ");
                self.seen.insert(id);
                let tf = self.tokens(&text);
                let exp = if tf.is_empty() {
                    "err:tokenize"
                } else if self.naive.docs.contains_key(&id) {
                    "err:exists"
                } else {
                    self.naive.on_insert(id, tf.keys().cloned().collect(), tf.values().sum());
                    "ok"
                };
                let imp = match self.index.insert(id, &text, 0) {
                    Ok(()) => "ok".to_string(),
                    Err(anda_db_tfs::BM25Error::TokenizeFailed { .. }) => "err:tokenize".into(),
                    Err(anda_db_tfs::BM25Error::AlreadyExists { .. }) => "err:exists".into(),
                    Err(e) => format!("err:other:{e}"),
                };
                self.hit(&format!("ins:{imp}"));
                if imp == "ok" {
                    self.res.nontrivial = true;
                }
                if imp != exp {
                    self.oracle("insert-result", &what, exp.into(), imp.clone());
                }
                let line = format!("ins {id} {}", self.tf_line(&text));
                self.corr(&what, &line, &imp);
                self.check_state(&what);
            }
            "rem" => {
                let Some(id) = rest.first().and_then(|s| s.parse::<u64>().ok()) else { return };
                let text = rest[1..].join(" ");
                self.seen.insert(id);
                let text_toks = self.token_set(&text);
                let exp = self.naive.on_remove(id, &text_toks);
                let imp = self.index.remove(id, &text, 0);
                self.hit(&format!("rem:{imp}"));
                if imp != exp {
                    self.oracle("remove-result", &what, exp.to_string(), imp.to_string());
                }
                let line = format!("rem {id} {}", self.tf_line(&text));
                self.corr(&what, &line, &imp.to_string());
                self.check_state(&what);
            }
            "purge" => {
                let ids: BTreeSet<u64> = rest.first().map(|s| s.split(',').filter_map(|x| x.parse().ok()).collect()).unwrap_or_default();
                self.seen.extend(ids.iter().cloned());
                let exp = ids.iter().filter(|i| self.naive.on_purge(**i)).count();
                let imp = self.index.purge_ids(&ids, 0);
                self.hit("purge");
                if imp != exp {
                    self.oracle("purge-result", &what, exp.to_string(), imp.to_string());
                }
                let line = format!("purge {}", dash(join(ids.iter(), ",")));
                self.corr(&what, &line, &imp.to_string());
                self.check_state(&what);
            }
            "bulk" => {
                let n: u64 = rest.first().and_then(|s| s.parse().ok()).unwrap_or(0);
                let tf = self.tokens("alpha");
                let line_tf = self.tf_line("alpha");
                for j in 0..n {
                    let id = 100_000 + j;
                    let _ = self.index.insert(id, "alpha", 0);
                    self.naive.docs.insert(id, (tf.keys().cloned().collect(), 1));
                    self.seen.insert(id);
                    if let Some(m) = self.model.as_deref_mut() {
                        m.ask(&format!("ins {id} {line_tf}"));
                    }
                }
                self.hit("bulk");
            }
            "search" => {
                let Some(p) = rest.first().and_then(|s| parse_params(s)) else { return };
                let text = rest[1..].join(" ");
                self.check_search(&what, Kind::Text(text), p);
            }
            "adv" => {
                let Some(p) = rest.first().and_then(|s| parse_params(s)) else { return };
                let text = rest[1..].join(" ");
                self.check_search(&what, Kind::Adv(text), p);
            }
            "flush" => self.flush_all_prefixes(&what, None),
            "crashload" => {
                let k = rest.first().and_then(|s| s.parse::<usize>().ok()).unwrap_or(0);
                self.flush_all_prefixes(&what, Some(k));
            }
            "failflush" => {
                let k = rest.first().and_then(|s| s.parse::<usize>().ok()).unwrap_or(0);
                self.fail_flush(&what, k);
            }
            "reload" => {
                match self.load(&self.store.clone()) {
                    Ok(ix) => {
                        self.index = ix;
                        self.naive = self.committed.clone();
                        self.naive.on_load();
                        self.hit("reload");
                        self.battery(&what, "reload", None);
                        self.sync_model_after_load(&what);
                    }
                    Err(e) => self.oracle("load-error", &what, "load succeeds".into(), e),
                }
            }
            "legacy" => {
                let Some(ls) = to_legacy(&self.store.clone()) else { return };
                self.hit("legacy-load");
                let mut expect = self.committed.clone();
                expect.on_load();
                match self.load(&ls) {
                    Ok(ix) => {
                        let got = self.battery_answers(&ix);
                        self.judge("legacy-load", &what, "", got, &expect);
                        // the model loads the same durable state through the legacy branch of `referenced`
                        let imp = self.loaded_line(&ix);
                        if self.model.is_some() && !self.stop {
                            let mut lines: Vec<String> = vec!["dreset".into()];
                            for ((b, g), bytes) in &ls.objs {
                                lines.push(format!("dobj {b} {g} {}", self.payload_text(bytes)));
                            }
                            if let Some(m) = ls.meta.as_ref().and_then(|m| decode_meta(m)) {
                                lines.push(format!("dmeta {} {} {}", m.version, m.max_bucket_id, dash(join(m.manifest.iter().map(|(b, g)| format!("{b}:{g}")), ","))));
                            }
                            lines.push("wreset".into());
                            for l in lines {
                                self.corr(&what, &l, "ok");
                            }
                            self.corr(&what, "loadprefix 0", &imp);
                        }
                    }
                    Err(e) => self.oracle("legacy-load", &what, "load succeeds".into(), e),
                }
            }
            "compact" => {
                let before = self.battery_answers(&self.index);
                let (old, new) = self.index.compact_buckets();
                self.hit(&format!("compact:{}", if new < old { "shrunk" } else { "same" }));
                let after = self.battery_answers(&self.index);
                if before != after {
                    self.oracle("compact-changes-answers", &what, show_battery(&before), show_battery(&after));
                }
                self.battery(&what, "compact", None);
            }
            _ => {}
        }
    }

    // ------------------------------------------------------------------------------------------
    // search
    // ------------------------------------------------------------------------------------------

    fn call(index: &Index, kind: &Kind, k: usize, p: &Option<BM25Params>) -> Result<Vec<(u64, f32)>, String> {
        match kind {
            Kind::Text(t) => Ok(index.search(t, k, p.clone())),
            Kind::Adv(q) => index.try_search_advanced(q, k, p.clone()).map_err(|e| e.to_string()),
        }
    }

    fn expected_set(&mut self, kind: &Kind, naive: &Naive, ids: &[u64]) -> BTreeSet<u64> {
        match kind {
            Kind::Text(t) => {
                let toks = self.token_set(t);
                naive.with_any(&toks)
            }
            Kind::Adv(q) => match read_tree(q) {
                Some(tree) => {
                    let mut f = |s: &str| self.token_set(s);
                    naive.eval(&tree, &mut f)
                }
                None => ids.iter().cloned().collect(), // not in the generated grammar: no set oracle
            },
        }
    }

    fn check_search(&mut self, what: &str, kind: Kind, p: Option<BM25Params>) {
        self.res.searches += 1;
        let full = Self::call(&self.index, &kind, BIG, &p);
        // model line: the AST the crate's own parser produced, with the tokens of every term
        let ast = match &kind {
            Kind::Text(t) => QueryType::Term(t.trim().to_string()),
            Kind::Adv(q) => QueryType::parse(q),
        };
        let qline = {
            let mut f = |s: &str| -> Vec<usize> {
                let ts = self.tokens(s);
                let mut v: Vec<usize> = ts.keys().map(|t| self.num(t)).collect();
                v.sort();
                v
            };
            ast_line(&ast, &mut f)
        };
        let full = match full {
            Ok(f) => f,
            Err(e) => {
                self.hit("search:err");
                let too_many = self.naive.docs.len() > 10_000;
                if !too_many {
                    self.oracle("search-error", what, "a result".into(), e);
                }
                self.corr(what, &format!("q - {qline}"), "err:notlimit");
                return;
            }
        };
        // which branches of the model's evaluator this query visits
        {
            let toks: Vec<&str> = qline.split(' ').collect();
            for (i, t) in toks.iter().enumerate() {
                match *t {
                    "T" => self.hit(if toks.get(i + 1) == Some(&"-") { "q:term-without-tokens" } else if toks.get(i + 1).is_some_and(|x| x.contains(',')) { "q:term-multi-token" } else { "q:term" }),
                    "N" => self.hit(if toks.get(i + 1) == Some(&"N") { "q:not-not" } else if i == 0 { "q:not-top-level" } else { "q:not" }),
                    "A" | "O" => {
                        let n: usize = toks.get(i + 1).and_then(|x| x.parse().ok()).unwrap_or(0);
                        let name = if *t == "A" { "and" } else { "or" };
                        self.hit(&format!("q:{name}-{}", match n { 0 => "empty", 1 => "single", _ => "many" }));
                    }
                    _ => {}
                }
            }
            if qline.starts_with("A ") {
                // NOT-only conjunction / leading NOT
                let kids: Vec<&str> = toks.iter().skip(2).cloned().collect();
                if kids.first() == Some(&"N") {
                    self.hit("q:and-leading-not");
                }
            }
        }
        let n = full.len();
        let ids: Vec<u64> = full.iter().map(|x| x.0).collect();
        let scored = dash(join(full.iter().map(|(i, s)| format!("{i}:{}", s.to_bits())), ","));
        self.hit(&format!("search:{}", match &kind { Kind::Text(_) => "text", Kind::Adv(_) => "adv" }));
        self.hit(&format!("results:{}", n.min(5)));
        if n > 0 {
            self.res.nontrivial = true;
        }

        // ---- oracle: retrieval set
        let expected = self.expected_set(&kind, &self.naive.clone(), &ids);
        let got: BTreeSet<u64> = ids.iter().cloned().collect();
        if got != expected || got.len() != ids.len() {
            let mut key = match &kind { Kind::Text(_) => "retrieval-set:term", Kind::Adv(_) => "retrieval-set:boolean" };
            if got.len() == ids.len() && self.naive.has_visible_stale() && got == self.expected_set(&kind, &self.naive.stale_view(), &ids) {
                key = KNOWN_STALE;
            }
            self.oracle(key, what, format!("{expected:?}"), format!("{ids:?}"));
        }
        // ---- oracle: scores finite and non-negative, order = score desc then id asc
        for (i, s) in &full {
            if !(s.is_finite() && *s >= 0.0) {
                self.oracle("score-range", what, "finite, non-negative".into(), format!("doc {i} score {s} bits {:#x}", s.to_bits()));
            }
        }
        for w in full.windows(2) {
            let ok = w[0].1 > w[1].1 || (w[0].1 == w[1].1 && w[0].0 < w[1].0);
            if !ok {
                self.oracle("order", what, "descending score, ties ascending id".into(), format!("{full:?}"));
                break;
            }
        }
        // ---- oracle: top-k is a prefix of the full list, for every k; repeated queries agree
        let mut tops: Vec<(usize, Vec<u64>)> = Vec::new();
        // every k up to n+1; for very long result lists a spread of k
        let ks: Vec<usize> = if n <= 40 { (0..=n + 1).collect() } else { vec![0, 1, 2, 3, 5, 8, n / 2, n - 1, n, n + 1] };
        for k in ks {
            let r = Self::call(&self.index, &kind, k, &p).unwrap_or_default();
            let rid: Vec<u64> = r.iter().map(|x| x.0).collect();
            if rid != ids[..k.min(n)] {
                self.oracle("topk-prefix", what, format!("k={k}: {:?}", &ids[..k.min(n)]), format!("{rid:?}"));
            }
            if r.iter().zip(full.iter()).any(|(a, b)| a.1.to_bits() != b.1.to_bits()) {
                self.res.score_bits_differ_between_calls += 1;
            }
            tops.push((k, rid));
        }
        let again = Self::call(&self.index, &kind, BIG, &p).unwrap_or_default();
        let aid: Vec<u64> = again.iter().map(|x| x.0).collect();
        if aid != ids {
            self.oracle("repeat-stability", what, format!("{ids:?}"), format!("{aid:?}"));
        }
        // ---- correspondence
        let mut sorted = ids.clone();
        sorted.sort();
        if n > 200 {
            // the model's insertion sort is quadratic: for a huge result only the set is compared
            self.corr(what, &format!("q - {qline}"), &format!("ok set={} rank=-", dash(join(sorted.iter(), ","))));
            return;
        }
        self.corr(what, &format!("q {scored} {qline}"), &format!("ok set={} rank={}", dash(join(sorted.iter(), ",")), dash(join(ids.iter(), ","))));
        for (k, rid) in tops.iter() {
            self.corr(what, &format!("topk {k} {scored}"), &dash(join(rid.iter(), ",")));
        }
        // ---- the scores themselves: for a term query the model supplies every integer the formula
        // reads (N, total_tokens, df, tf, document length); the f32 formula is re-evaluated here and must
        // give the returned bit patterns. Exact for one or two query tokens (x + y = y + x in f32; with
        // three or more the real code sums in hash order, which is only measured).
        if let Kind::Text(t) = &kind {
            self.check_score_bits(what, t, &p, &full);
            // the *statement* of term_general / term_exact_partial, executed: the ghost state of the
            // history predicts the result; its flags must agree with the harness's own classifier
            let toks = self.tokens(t);
            let mut nums: Vec<usize> = toks.keys().map(|x| self.num(x)).collect();
            nums.sort();
            if !nums.is_empty() && self.model.is_some() && !self.stop {
                let g = self.model.as_deref_mut().unwrap().ask(&format!("gq {}", join(nums.iter(), ",")));
                self.res.compared += 1;
                if g != "n/a" {
                    self.hit("ghost:compared");
                    let imp = dash(join(sorted.iter(), ","));
                    if g != imp {
                        self.res.disagreements.push((format!("{what} [ghost prediction gq]"), g, imp));
                        self.stop = true;
                        return;
                    }
                    let vstale = self.naive.docs.keys().any(|i| self.naive.stale.get(i).is_some_and(|st| st.iter().any(|x| toks.contains_key(x))));
                    let exp = format!("cover={} vstale={}", !self.naive.noncover_seen, vstale);
                    self.corr(what, &format!("gflags {}", join(nums.iter(), ",")), &exp);
                } else {
                    self.hit("ghost:n/a-after-load");
                }
            }
        } else {
            // the set-algebra reading `denote` of the AST, evaluated by the model
            self.corr(what, &format!("dq {qline}"), &dash(join(sorted.iter(), ",")));
        }
    }

    fn check_score_bits(&mut self, what: &str, text: &str, p: &Option<BM25Params>, full: &[(u64, f32)]) {
        if self.stop || self.model.is_none() {
            return;
        }
        let toks = self.tokens(text);
        let mut nums: Vec<usize> = toks.keys().map(|t| self.num(t)).collect();
        nums.sort();
        if nums.is_empty() {
            return;
        }
        let line = format!("si {}", join(nums.iter(), ","));
        let ans = self.model.as_deref_mut().unwrap().ask(&line);
        self.res.compared += 1;
        // N=<n> total=<t> dup=<bool> | tok:id/tf/len+… | …
        let mut parts = ans.split('|');
        let head = parts.next().unwrap_or("");
        let get = |k: &str| head.split(' ').find_map(|x| x.strip_prefix(k)).map(|x| x.to_string());
        let (Some(n), Some(total), Some(dup)) = (get("N=").and_then(|x| x.parse::<u64>().ok()), get("total=").and_then(|x| x.parse::<u64>().ok()), get("dup=")) else {
            self.res.disagreements.push((format!("{what} [model line: {line}]"), ans.clone(), "score inputs".into()));
            self.stop = true;
            return;
        };
        if dup == "true" {
            self.hit("score-bits:skipped-duplicate-entries");
            return;
        }
        let mut infos: Vec<Vec<(u64, f32, f32)>> = Vec::new();
        for part in parts {
            let part = part.trim();
            if part.is_empty() {
                continue;
            }
            let Some((_, list)) = part.split_once(':') else { continue };
            infos.push(
                list.split('+')
                    .filter_map(|e| {
                        let mut it = e.split('/');
                        Some((it.next()?.parse().ok()?, it.next()?.parse::<usize>().ok()? as f32, it.next()?.parse::<usize>().ok()? as f32))
                    })
                    .collect(),
            );
        }
        if infos.len() > 2 {
            self.hit("score-bits:skipped-3+tokens");
            return;
        }
        // BM25Params::sanitized, written again
        let raw = p.clone().unwrap_or(BM25Params { k1: 1.2, b: 0.75 });
        let k1 = if raw.k1.is_finite() { raw.k1.clamp(0.0, 1000.0) } else { 1.2 };
        let b = if raw.b.is_finite() { raw.b.clamp(0.0, 1.0) } else { 0.75 };
        let doc_count = n as f32;
        let avg = (if n == 0 { 0.0 } else { total as f32 / n as f32 }).max(1.0);
        let mut expect: BTreeMap<u64, f32> = BTreeMap::new();
        for info in &infos {
            let df = info.len() as f32;
            let idf = ((doc_count - df + 0.5) / (df + 0.5) + 1.0).ln();
            for (id, tf, len) in info {
                let tfc = (tf * (k1 + 1.0)) / (tf + k1 * (1.0 - b + b * len / avg));
                *expect.entry(*id).or_default() += idf * tfc;
            }
        }
        let got: BTreeMap<u64, u32> = full.iter().map(|(i, s)| (*i, s.to_bits())).collect();
        let exp: BTreeMap<u64, u32> = expect.iter().map(|(i, s)| (*i, s.to_bits())).collect();
        self.hit(&format!("score-bits:compared-{}tok", infos.len()));
        if got != exp {
            self.res.disagreements.push((
                format!("{what} [score bits from the model's inputs: {line} -> {ans}]"),
                format!("{exp:?}"),
                format!("{got:?}"),
            ));
            self.stop = true;
        }
    }

    // ------------------------------------------------------------------------------------------
    // persistence
    // ------------------------------------------------------------------------------------------

    /// the write sequence of one flush: bucket PUTs, the metadata PUT, then the best-effort
    /// DELETEs of `FlushOutcome::obsolete` (issued by the caller, as `anda_db::index::BM25` does)
    fn record_flush(index: &Index) -> Result<(Vec<W>, bool), String> {
        let rec: RefCell<Vec<W>> = RefCell::new(Vec::new());
        let out = futures::executor::block_on(index.flush_with(
            0,
            |data: Vec<u8>| {
                rec.borrow_mut().push(W::Meta(data));
                std::future::ready(Ok(()))
            },
            |o: BucketObject, data: Vec<u8>| {
                rec.borrow_mut().push(W::Obj((o.bucket_id, o.generation), data));
                std::future::ready(Ok(()))
            },
        ))
        .map_err(|e| e.to_string())?;
        let mut ws = rec.into_inner();
        for o in &out.obsolete {
            ws.push(W::Del((o.bucket_id, o.generation)));
        }
        Ok((ws, out.saved))
    }

    /// A flush whose `k`-th backend write fails (the process survives): the writes before it are
    /// durable, the error is returned, nothing may be published in memory — the live index still
    /// answers as before, the store still loads to the last committed snapshot, and a later flush
    /// persists everything (checked there).
    fn fail_flush(&mut self, what: &str, k: usize) {
        let rec: RefCell<Vec<W>> = RefCell::new(Vec::new());
        let n: RefCell<usize> = RefCell::new(0);
        let out = futures::executor::block_on(self.index.flush_with(
            0,
            |data: Vec<u8>| {
                let i = *n.borrow();
                *n.borrow_mut() += 1;
                if i == k {
                    return std::future::ready(Err("injected metadata write failure".into()));
                }
                rec.borrow_mut().push(W::Meta(data));
                std::future::ready(Ok(()))
            },
            |o: BucketObject, data: Vec<u8>| {
                let i = *n.borrow();
                *n.borrow_mut() += 1;
                if i == k {
                    return std::future::ready(Err("injected bucket write failure".into()));
                }
                rec.borrow_mut().push(W::Obj((o.bucket_id, o.generation), data));
                std::future::ready(Ok(()))
            },
        ));
        let ws = rec.into_inner();
        for w in &ws {
            self.store.apply(w);
        }
        match out {
            Ok(o) => {
                // the failing position was beyond the last write: an ordinary complete flush
                for ob in &o.obsolete {
                    self.store.apply(&W::Del((ob.bucket_id, ob.generation)));
                }
                if o.saved {
                    self.committed = self.naive.clone();
                }
                self.hit("failflush:completed");
            }
            Err(_) => {
                self.hit("failflush:failed");
                if ws.iter().any(|w| matches!(w, W::Meta(_))) {
                    self.oracle("failed-flush-committed", what, "no metadata write in a flush that returned an error".into(), "metadata written".into());
                }
            }
        }
        self.battery(what, "failed-flush", None);
        let mut expect = self.committed.clone();
        expect.on_load();
        match self.load(&self.store.clone()) {
            Ok(ix) => {
                let got = self.battery_answers(&ix);
                self.judge("load-after-failed-flush", what, "", got, &expect);
            }
            Err(e) => self.oracle("load-after-failed-flush", what, "load succeeds".into(), e),
        }
    }

    fn load(&self, store: &MemStore) -> Result<Index, String> {
        let Some(meta) = &store.meta else {
            return Ok(BM25Index::new("c11".into(), default_tokenizer(), Some(self.cfg.clone())));
        };
        futures::executor::block_on(BM25Index::load_all(default_tokenizer(), &meta[..], async |o: BucketObject| {
            Ok(store.objs.get(&(o.bucket_id, o.generation)).cloned())
        }))
        .map_err(|e| e.to_string())
    }

    /// answers of a fixed battery of queries + the counters: (label, value) items
    fn battery_answers(&self, index: &Index) -> Battery {
        let st = index.stats();
        let docs: Vec<String> = self.seen.iter().filter_map(|i| index.get_doc_tokens(*i).map(|n| format!("{i}:{n}"))).collect();
        let mut out: Battery = vec![
            ("n".into(), index.len().to_string()),
            ("avg".into(), st.avg_doc_tokens.to_bits().to_string()),
            ("docs".into(), dash(docs.join(","))),
        ];
        for w in VOCAB {
            let mut ids: Vec<u64> = index.search(w, BIG, None).iter().map(|x| x.0).collect();
            ids.sort();
            out.push((w.to_string(), dash(join(ids.iter(), ","))));
        }
        for q in BATTERY_QUERIES {
            let mut ids: Vec<u64> = index.try_search_advanced(q, BIG, None).unwrap_or_default().iter().map(|x| x.0).collect();
            ids.sort();
            out.push((format!("[{q}]"), dash(join(ids.iter(), ","))));
        }
        out
    }

    fn naive_battery(&mut self, naive: &Naive) -> Battery {
        let mut out: Battery = vec![
            ("n".into(), naive.docs.len().to_string()),
            ("avg".into(), naive.avg_bits().to_string()),
            ("docs".into(), dash(join(naive.docs.iter().map(|(i, (_, n))| format!("{i}:{n}")), ","))),
        ];
        for w in VOCAB {
            let toks = self.token_set(w);
            out.push((w.to_string(), dash(join(naive.with_any(&toks).iter(), ","))));
        }
        for q in BATTERY_QUERIES {
            let tree = read_tree(q).unwrap();
            let mut f = |s: &str| self.token_set(s);
            let ids = naive.clone().eval(&tree, &mut f);
            out.push((format!("[{q}]"), dash(join(ids.iter(), ","))));
        }
        out
    }

    /// `got` (battery answers of some index) against the oracle state `nv`
    fn judge(&mut self, key: &str, what: &str, detail: &str, got: Battery, nv: &Naive) {
        let exp = self.naive_battery(nv);
        if got == exp {
            return;
        }
        let mut key = key.to_string();
        let stale = if nv.has_visible_stale() { Some(self.naive_battery(&nv.stale_view())) } else { None };
        if stale.as_ref() == Some(&got) {
            key = KNOWN_STALE.to_string();
        } else if !nv.resurrectable.is_empty()
            && (confined(&got, &exp, &nv.resurrectable) || stale.as_ref().is_some_and(|s| confined(&got, s, &nv.resurrectable)))
        {
            key = KNOWN_RESURRECT.to_string();
        }
        self.oracle(&key, what, format!("{detail}{}", show_battery(&exp)), show_battery(&got));
    }

    /// the live index answers the battery like the oracle does
    fn battery(&mut self, what: &str, tag: &str, _other: Option<()>) {
        let got = self.battery_answers(&self.index);
        let nv = self.naive.clone();
        self.judge(&format!("answers-after-{tag}"), what, "", got, &nv);
    }

    /// `flush` (`stop_at = None`): record the write sequence, load **every** prefix of it and compare
    /// with the last committed snapshot (before the metadata write) or the flushed state (after);
    /// then the flush is complete. `crashload k`: keep the first `k` writes only, continue from the
    /// loaded index.
    fn flush_all_prefixes(&mut self, what: &str, stop_at: Option<usize>) {
        let d0 = self.store.clone();
        let (ws, saved) = match Self::record_flush(&self.index) {
            Ok(x) => x,
            Err(e) => {
                self.oracle("flush-error", what, "flush succeeds".into(), e);
                return;
            }
        };
        self.hit(&format!("flush:{}", if saved { "saved" } else { "nothing" }));
        let commit = ws.iter().position(|w| matches!(w, W::Meta(_)));
        // ---- shape of the write sequence (independent of the model)
        self.check_shape(what, &d0, &ws, saved);
        // ---- every prefix
        let fired_before = self.oracle_count;
        let mut d = d0.clone();
        let upto = ws.len();
        let mut adopt: Option<(Index, Naive, MemStore, bool)> = None;
        for k in 0..=upto {
            if k > 0 {
                d.apply(&ws[k - 1]);
            }
            self.res.crash_prefixes += 1;
            let new_side = commit.is_some_and(|c| k > c);
            let mut expect = if new_side { self.naive.clone() } else { self.committed.clone() };
            expect.on_load();
            match self.load(&d) {
                Ok(ix) => {
                    let got = self.battery_answers(&ix);
                    self.judge("crash-prefix-load", what, &format!("prefix {k}/{upto} ({}): ", if new_side { "new" } else { "old" }), got, &expect);
                    // `crashload k`: this is the state the case goes on with; the later prefixes are
                    // still loaded and judged (the flush as a whole is checked either way)
                    if let Some(sk) = stop_at
                        && sk.min(upto) == k
                    {
                        adopt = Some((ix, expect, d.clone(), new_side));
                    }
                }
                Err(e) => self.oracle("crash-prefix-load", what, format!("prefix {k}/{upto} loads"), e),
            }
        }
        // ---- the model sees the decoded writes and predicts every prefix
        let oracle_fired = self.oracle_count > fired_before;
        self.model_flush(what, &d0, &ws, oracle_fired);
        if let Some((ix, expect, store, new_side)) = adopt {
            self.index = ix;
            self.naive = expect.clone();
            self.committed = expect;
            self.store = store;
            self.hit(&format!("crashload:{}", if new_side { "new" } else { "old" }));
            self.sync_model_after_load(what);
            return;
        }
        self.store = d;
        if saved || commit.is_some() {
            self.committed = self.naive.clone();
        }
    }

    /// What must hold of every flush write sequence for the crash argument (checked on the bytes):
    /// bucket PUTs first, all at one generation that no committed manifest entry uses, ascending
    /// bucket ids; one metadata PUT whose manifest names only objects that exist afterwards;
    /// deletions only of objects the new manifest does not name.
    fn check_shape(&mut self, what: &str, d0: &MemStore, ws: &[W], saved: bool) {
        let mut problems: Vec<String> = Vec::new();
        let old_manifest: BTreeMap<u32, u64> = d0.meta.as_ref().and_then(|m| decode_meta(m)).map(|m| m.manifest).unwrap_or_default();
        let commit = ws.iter().position(|w| matches!(w, W::Meta(_)));
        if saved != commit.is_some() {
            problems.push(format!("saved={saved} but metadata writes={}", commit.is_some()));
        }
        if ws.iter().filter(|w| matches!(w, W::Meta(_))).count() > 1 {
            problems.push("more than one metadata write".into());
        }
        if let Some(c) = commit {
            let W::Meta(mb) = &ws[c] else { unreachable!() };
            match decode_meta(mb) {
                None => problems.push("metadata does not decode".into()),
                Some(m) => {
                    let mut after = d0.clone();
                    for w in ws {
                        after.apply(w);
                    }
                    let mut last: Option<u32> = None;
                    for (j, w) in ws.iter().enumerate() {
                        match w {
                            W::Obj((b, g), _) => {
                                if j > c {
                                    problems.push(format!("bucket write {b}@{g} after the commit"));
                                }
                                if *g != m.version {
                                    problems.push(format!("bucket {b} written at generation {g}, metadata version {}", m.version));
                                }
                                if old_manifest.get(b) == Some(g) {
                                    problems.push(format!("bucket write {b}@{g} overwrites an object the committed manifest references"));
                                }
                                if last.is_some_and(|l| l >= *b) {
                                    problems.push("bucket writes not in ascending id order".into());
                                }
                                last = Some(*b);
                                if m.manifest.get(b) != Some(g) {
                                    problems.push(format!("bucket write {b}@{g} not referenced by the new manifest"));
                                }
                            }
                            W::Del(o) => {
                                if j < c {
                                    problems.push(format!("deletion of {o:?} before the commit"));
                                }
                                if m.manifest.get(&o.0) == Some(&o.1) {
                                    problems.push(format!("deletion of {o:?} which the new manifest references"));
                                }
                            }
                            W::Meta(_) => {}
                        }
                    }
                    for (b, g) in &m.manifest {
                        if !after.objs.contains_key(&(*b, *g)) {
                            problems.push(format!("manifest references missing object {b}@{g}"));
                        }
                    }
                    for g in old_manifest.values() {
                        if *g >= m.version {
                            problems.push(format!("committed generation {g} not below the new version {}", m.version));
                        }
                    }
                }
            }
        } else if !ws.is_empty() {
            problems.push("writes without a commit in a successful flush".into());
        }
        if !problems.is_empty() {
            self.oracle("flush-shape", what, "bucket PUTs at one fresh generation, then the manifest commit, then deletions of unreferenced objects".into(), problems.join("; "));
        }
    }

    fn payload_text(&mut self, bytes: &[u8]) -> String {
        match decode_bucket(bytes) {
            None => "undecodable".into(),
            Some(b) => {
                let mut ps: Vec<(usize, Vec<(u64, usize)>)> = b.postings.iter().map(|(t, (_, es))| (self.num(t), es.clone())).collect();
                ps.sort();
                let p = dash(ps.iter().map(|(t, es)| format!("{t}={}", es.iter().map(|(i, f)| format!("{i}:{f}")).collect::<Vec<_>>().join("+"))).collect::<Vec<_>>().join(","));
                let d = dash(join(b.doc_tokens.iter().map(|(i, n)| format!("{i}:{n}")), ","));
                format!("{p} {d}")
            }
        }
    }

    /// Sends the durable state before the flush and the decoded write sequence to the model; the
    /// model answers, for every prefix, what `load_all` yields; compared with the real loads.
    fn model_flush(&mut self, what: &str, d0: &MemStore, ws: &[W], oracle_fired: bool) {
        if self.model.is_none() || self.stop {
            return;
        }
        // durable state
        let mut lines: Vec<String> = vec!["dreset".into()];
        for ((b, g), bytes) in &d0.objs {
            lines.push(format!("dobj {b} {g} {}", self.payload_text(bytes)));
        }
        if let Some(m) = d0.meta.as_ref().and_then(|m| decode_meta(m)) {
            lines.push(format!("dmeta {} {} {}", m.version, m.max_bucket_id, dash(join(m.manifest.iter().map(|(b, g)| format!("{b}:{g}")), ","))));
        }
        lines.push("wreset".into());
        for w in ws {
            lines.push(match w {
                W::Obj((b, g), bytes) => format!("wobj {b} {g} {}", self.payload_text(bytes)),
                W::Meta(mb) => match decode_meta(mb) {
                    Some(m) => format!("wmeta {} {} {}", m.version, m.max_bucket_id, dash(join(m.manifest.iter().map(|(b, g)| format!("{b}:{g}")), ","))),
                    None => "wmeta-undecodable".into(),
                },
                W::Del((b, g)) => format!("wdel {b} {g}"),
            });
        }
        for l in lines {
            self.corr(what, &l, "ok");
        }
        // the model's own in-memory state must be what the flush serialised
        let mut d = d0.clone();
        for k in 0..=ws.len() {
            if k > 0 {
                d.apply(&ws[k - 1]);
            }
            let imp = match self.load(&d) {
                Ok(ix) => self.loaded_line(&ix),
                Err(_) => "err:load".into(),
            };
            self.corr(what, &format!("loadprefix {k}"), &imp);
        }
        // `flushcheck`: the shape predicates of the crash theorem hold of the observed writes, and what
        // was persisted is a full snapshot of the model's in-memory state. A snapshot mismatch on a
        // flush the independent oracle also rejects is the same (implementation) failure seen twice;
        // otherwise it is a broken correspondence.
        if let Some(m) = self.model.as_deref_mut()
            && !self.stop
        {
            let ans = m.ask("flushcheck");
            self.res.compared += 1;
            if ans != "ok" && !(ans.starts_with("snapshot-mismatch") && oracle_fired) {
                self.res.disagreements.push((format!("{what} [model line: flushcheck]"), ans, "ok".into()));
                self.stop = true;
            }
        }
    }

    /// contents of a loaded index as far as they are observable: lengths and, per vocabulary
    /// token, the ids a term query returns
    fn loaded_line(&mut self, ix: &Index) -> String {
        let docs: Vec<String> = {
            let mut ids: Vec<u64> = ix.try_search_advanced("NOT zzzzzz", BIG, None).unwrap_or_default().iter().map(|x| x.0).collect();
            ids.sort();
            ids.iter().filter_map(|i| ix.get_doc_tokens(*i).map(|n| format!("{i}:{n}"))).collect()
        };
        let mut toks: Vec<(usize, String)> = self.toknum.iter().map(|(t, n)| (*n, t.clone())).collect();
        toks.sort();
        let mut per: Vec<String> = Vec::new();
        for (n, t) in toks {
            let mut ids: Vec<u64> = ix.search(&t, BIG, None).iter().map(|x| x.0).collect();
            ids.sort();
            if !ids.is_empty() {
                per.push(format!("{n}={}", ids.iter().map(|i| i.to_string()).collect::<Vec<_>>().join("+")));
            }
        }
        format!("n={} avg={} docs={} terms={}", ix.len(), ix.stats().avg_doc_tokens.to_bits(), dash(docs.join(",")), dash(per.join(",")))
    }

    /// after `reload` / `crashload` the model continues from what *it* loaded
    fn sync_model_after_load(&mut self, what: &str) {
        let imp = {
            let ix = std::mem::replace(&mut self.index, BM25Index::new("tmp".into(), default_tokenizer(), None));
            let l = self.loaded_line(&ix);
            self.index = ix;
            l
        };
        let store = self.store.clone();
        if self.model.is_none() || self.stop {
            return;
        }
        let mut lines: Vec<String> = vec!["dreset".into()];
        for ((b, g), bytes) in &store.objs {
            lines.push(format!("dobj {b} {g} {}", self.payload_text(bytes)));
        }
        if let Some(m) = store.meta.as_ref().and_then(|m| decode_meta(m)) {
            lines.push(format!("dmeta {} {} {}", m.version, m.max_bucket_id, dash(join(m.manifest.iter().map(|(b, g)| format!("{b}:{g}")), ","))));
        }
        lines.push("wreset".into());
        for l in lines {
            self.corr(what, &l, "ok");
        }
        self.corr(what, "adopt", &imp);
    }

    // ------------------------------------------------------------------------------------------
    // L3: interleavings at the yield points
    // ------------------------------------------------------------------------------------------

    fn cop_model(&mut self, op: &COp) -> String {
        match op {
            COp::Ins(id, text) => format!("ins {id} {}", self.tf_line(text)),
            COp::Rem(id, text) => format!("rem {id} {}", self.tf_line(text)),
            COp::Purge(ids) => format!("purge {}", dash(join(ids.iter(), ","))),
            COp::Compact => "compact".into(),
        }
    }

    fn cop_naive(&mut self, naive: &mut Naive, op: &COp) -> String {
        match op {
            COp::Ins(id, text) => {
                let tf = self.tokens(text);
                if tf.is_empty() {
                    "err:tokenize".into()
                } else if naive.docs.contains_key(id) {
                    "err:exists".into()
                } else {
                    naive.on_insert(*id, tf.keys().cloned().collect(), tf.values().sum());
                    "ok".into()
                }
            }
            COp::Rem(id, text) => {
                let toks = self.token_set(text);
                naive.on_remove(*id, &toks).to_string()
            }
            COp::Purge(ids) => ids.iter().collect::<BTreeSet<_>>().into_iter().filter(|i| naive.on_purge(**i)).count().to_string(),
            COp::Compact => "compacted".into(),
        }
    }

    /// the oracle's rendering of what `loaded_line` observes
    fn naive_line(&mut self, naive: &Naive) -> String {
        let mut per: BTreeMap<usize, BTreeSet<u64>> = BTreeMap::new();
        for (id, (toks, _)) in &naive.docs {
            for t in toks {
                let n = self.num(t);
                per.entry(n).or_default().insert(*id);
            }
        }
        let terms: Vec<String> = per.iter().map(|(n, ids)| format!("{n}={}", ids.iter().map(|i| i.to_string()).collect::<Vec<_>>().join("+"))).collect();
        format!(
            "n={} avg={} docs={} terms={}",
            naive.docs.len(),
            naive.avg_bits(),
            dash(join(naive.docs.iter().map(|(i, (_, n))| format!("{i}:{n}")), ",")),
            dash(terms.join(","))
        )
    }

    /// All interleavings (up to `cap` schedules) of the workload's threads at the yield points.
    pub fn explore(&mut self, w: &Workload, cap: u64) -> bool {
        // depth-first over the schedule tree; when the tree is larger than the budget, another half
        // budget walks it from the other end ("last enabled worker first")
        let mut complete = true;
        for (prefer_last, budget) in [(false, cap), (true, cap / 2)] {
            let mut prefix: Vec<usize> = Vec::new();
            let mut runs = 0u64;
            let mut exhausted = false;
            loop {
                let Some((sched, enabled)) = self.run_conc(w, &prefix, prefer_last, None) else { break };
                runs += 1;
                self.res.schedules += 1;
                if self.stop || !self.res.oracle.is_empty() {
                    break;
                }
                match next_prefix(&sched, &enabled, prefer_last) {
                    Some(p) => {
                        if runs >= budget {
                            break;
                        }
                        prefix = p;
                    }
                    None => {
                        exhausted = true;
                        break;
                    }
                }
            }
            if exhausted {
                complete = true;
                break;
            }
            complete = false;
            if self.stop || !self.res.oracle.is_empty() {
                break;
            }
        }
        self.hit(&format!("conc:{}", if complete { "exhaustive" } else { "capped" }));
        // the explorer keeps the gate's book itself, so the schedules above never try to run a
        // mutation inside a compaction (or vice versa). That the gate really excludes is probed
        // separately: release a worker at its `.gate` point while the other one is inside.
        if w.threads.len() == 2 && w.threads.iter().any(|t| t.exclusive()) && !self.stop && self.res.oracle.is_empty() {
            for h in 0..2 {
                for s in 1..32 {
                    match self.run_conc(w, &[], false, Some((h, s))) {
                        Some(_) => {
                            self.res.schedules += 1;
                            self.hit("conc:gate-probe");
                        }
                        None => break,
                    }
                    if self.stop || !self.res.oracle.is_empty() {
                        break;
                    }
                }
            }
        }
        complete
    }

    /// one schedule: fresh index, sequential setup + flush, the threads under the schedule, then
    /// results / final answers / flush round trip against the oracle and the model
    fn run_conc(&mut self, w: &Workload, prefix: &[usize], prefer_last: bool, probe: Option<(usize, usize)>) -> Option<(Vec<usize>, Vec<Vec<usize>>)> {
        let what_base = w.line();
        self.cfg = BM25Config { bucket_overload_size: if w.zero { 0 } else { BM25Config::default().bucket_overload_size }, ..BM25Config::default() };
        let index = new_index(w.zero);
        let mut naive = Naive::default();
        self.corr(&what_base, &format!("cinit {}", if w.zero { "zero" } else { "large" }), "ok");
        for op in &w.setup {
            let imp = op.apply(&index);
            let exp = self.cop_naive(&mut naive, op);
            if imp != exp {
                self.oracle("conc-setup-result", &what_base, exp, imp.clone());
            }
            let line = format!("cseq {}", self.cop_model(op));
            self.corr(&what_base, &line, &imp);
        }
        let mut store = MemStore::default();
        match Self::record_flush(&index) {
            Ok((ws, _)) => {
                for wr in &ws {
                    store.apply(wr);
                }
            }
            Err(e) => {
                self.oracle("flush-error", &what_base, "setup flush succeeds".into(), e);
                return None;
            }
        }
        self.corr(&what_base, "cflushed", "ok");
        for op in &w.threads {
            let line = format!("cthr {}", self.cop_model(op));
            self.corr(&what_base, &line, "ok");
        }
        let (out, gate_broken) = match probe {
            None => (run_threads(std::sync::Arc::new(index), &w.threads, prefix, prefer_last), false),
            Some((h, s)) => match run_probe(std::sync::Arc::new(index), &w.threads, h, s) {
                Some(x) => x,
                None => {
                    // nothing left to probe: forget the threads the model was given
                    if let Some(m) = self.model.as_deref_mut() {
                        m.ask("cinit large");
                    }
                    return None;
                }
            },
        };
        let what = format!("{what_base} | schedule {}{}", join(out.sched.iter(), ","), if probe.is_some() { " (gate probe)" } else { "" });
        if gate_broken {
            self.oracle("conc-gate-not-exclusive", &what, "a worker released at its gate point waits while the other one is inside".into(), "it went on".into());
        }
        self.res.canon.push_str(&what);
        self.res.canon.push('\n');
        if let Some(d) = &out.deadlock {
            self.oracle("conc-deadlock", &what, "every thread finishes".into(), d.clone());
            return None;
        }
        if out.results.iter().any(|r| r == "panic") {
            self.oracle("conc-panic", &what, "no panic".into(), format!("{:?}", out.results));
            return None;
        }
        self.res.nontrivial = true;
        let index = out.index.clone();
        // ---- model: the same schedule
        self.corr(&what, &format!("crun {}", dash(join(out.sched.iter(), ","))), &format!("res={} quiescent=true", out.results.join(";")));
        // ---- final observations, the flush and its round trip
        let live = self.loaded_line(&index);
        let (ws, _) = match Self::record_flush(&index) {
            Ok(x) => x,
            Err(e) => {
                self.oracle("flush-error", &what, "flush succeeds".into(), e);
                return None;
            }
        };
        let mut layout: Vec<String> = Vec::new();
        for wr in &ws {
            if let W::Obj(_, bytes) = wr {
                match decode_bucket(bytes) {
                    Some(b) => {
                        let mut ts: Vec<usize> = b.postings.keys().map(|t| self.num(t)).collect();
                        ts.sort();
                        layout.push(if ts.is_empty() { "e".into() } else { ts.iter().map(|t| t.to_string()).collect::<Vec<_>>().join("+") });
                    }
                    None => layout.push("undecodable".into()),
                }
            }
        }
        layout.sort();
        self.corr(&what, "cstate", &format!("{live} dirty={} lost=- gate=0/false", dash(layout.join(","))));
        let fired_before = self.oracle_count;
        let d0 = store.clone();
        for wr in &ws {
            store.apply(wr);
        }
        match self.load(&store) {
            Ok(ix) => {
                let loaded = self.loaded_line(&ix);
                if loaded != live {
                    self.oracle("conc-flush-load-differs", &what, format!("in memory: {live}"), format!("after flush + load_all: {loaded}"));
                }
            }
            Err(e) => self.oracle("conc-flush-load-differs", &what, "load succeeds".into(), e),
        }
        // ---- oracle: results and final answers are those of some sequential order
        let n = w.threads.len();
        let mut perm: Vec<usize> = (0..n).collect();
        let mut found = false;
        let mut tried: Vec<String> = Vec::new();
        permute(&mut perm, 0, &mut |p: &[usize]| {
            if found {
                return;
            }
            let mut nv = naive.clone();
            let mut res = vec![String::new(); n];
            for &i in p {
                res[i] = self.cop_naive(&mut nv, &w.threads[i]);
            }
            let line = self.naive_line(&nv);
            if res == out.results && line == live {
                found = true;
            } else {
                tried.push(format!("order {p:?}: res={} {line}", res.join(";")));
            }
        });
        if !found {
            self.oracle("conc-not-sequential", &what, tried.join(" | "), format!("res={} {live}", out.results.join(";")));
        }
        // ---- model: flush bytes, every prefix, snapshot
        self.corr(&what, "csync", "ok");
        let oracle_fired = self.oracle_count > fired_before;
        self.model_flush(&what, &d0, &ws, oracle_fired);
        Some((out.sched, out.enabled))
    }
}

fn permute(p: &mut Vec<usize>, k: usize, f: &mut dyn FnMut(&[usize])) {
    if k == p.len() {
        f(p);
        return;
    }
    for i in k..p.len() {
        p.swap(k, i);
        permute(p, k + 1, f);
        p.swap(k, i);
    }
}
