//! Boolean query trees of the generator, their text form, an independent reader of that text
//! form (for replays / corpus files) and the serialisation of the crate's own AST for the model.

use anda_db_tfs::QueryType;
use vh_common::Rng;

#[derive(Clone, Debug, PartialEq)]
pub enum Tree {
    /// one or more bare words: implicit OR
    Leaf(Vec<String>),
    And(Vec<Tree>),
    Or(Vec<Tree>),
    Not(Box<Tree>),
}

impl Tree {
    /// Text the crate's parser is documented to read as this tree: composite nodes are always
    /// parenthesised, `NOT` is followed by a word run or a parenthesised expression.
    pub fn unparse(&self) -> String {
        match self {
            Tree::Leaf(ws) => ws.join(" "),
            Tree::And(ts) => format!("({})", ts.iter().map(|t| t.unparse()).collect::<Vec<_>>().join(" AND ")),
            Tree::Or(ts) => format!("({})", ts.iter().map(|t| t.unparse()).collect::<Vec<_>>().join(" OR ")),
            Tree::Not(t) => match t.as_ref() {
                Tree::Leaf(_) | Tree::And(_) | Tree::Or(_) => format!("NOT {}", t.unparse()),
                Tree::Not(_) => format!("NOT ({})", t.unparse()),
            },
        }
    }
}

/// Random tree of depth ≤ `depth` over `vocab`.
pub fn gen_tree(rng: &mut Rng, vocab: &[&str], depth: usize) -> Tree {
    let leaf = |rng: &mut Rng| {
        let n = if rng.chance(1, 6) { 2 } else { 1 };
        Tree::Leaf((0..n).map(|_| rng.pick(vocab).to_string()).collect())
    };
    if depth == 0 || rng.chance(1, 5) {
        return leaf(rng);
    }
    // operands: random sub-trees, now and then a duplicated operand or an empty one `()`
    let operands = |rng: &mut Rng, n: usize| -> Vec<Tree> {
        let mut v: Vec<Tree> = (0..n).map(|_| gen_tree(rng, vocab, depth - 1)).collect();
        if rng.chance(1, 8) {
            let d = v[rng.usize(v.len())].clone();
            v.push(d);
        }
        if rng.chance(1, 20) {
            let at = rng.usize(v.len() + 1);
            v.insert(at, Tree::Or(vec![]));
        }
        v
    };
    match rng.below(10) {
        0..=3 => {
            let n = 2 + rng.usize(2);
            Tree::And(operands(rng, n))
        }
        4..=6 => {
            let n = 2 + rng.usize(2);
            Tree::Or(operands(rng, n))
        }
        _ => Tree::Not(Box::new(gen_tree(rng, vocab, depth - 1))),
    }
}

/// All tree *shapes* of depth ≤ `depth` with arity 2 for And/Or (leaves are holes).
pub fn all_shapes(depth: usize) -> Vec<Tree> {
    let hole = Tree::Leaf(vec![]);
    if depth == 0 {
        return vec![hole];
    }
    let sub = all_shapes(depth - 1);
    let mut out = vec![hole];
    for a in &sub {
        out.push(Tree::Not(Box::new(a.clone())));
    }
    // binary nodes: to keep the number of shapes manageable pair every sub-shape with every other
    for a in &sub {
        for b in &sub {
            out.push(Tree::And(vec![a.clone(), b.clone()]));
            out.push(Tree::Or(vec![a.clone(), b.clone()]));
        }
    }
    out
}

/// Fills the holes of a shape with random words.
pub fn fill(shape: &Tree, rng: &mut Rng, vocab: &[&str]) -> Tree {
    match shape {
        Tree::Leaf(_) => Tree::Leaf(vec![rng.pick(vocab).to_string()]),
        Tree::Not(t) => Tree::Not(Box::new(fill(t, rng, vocab))),
        Tree::And(ts) => Tree::And(ts.iter().map(|t| fill(t, rng, vocab)).collect()),
        Tree::Or(ts) => Tree::Or(ts.iter().map(|t| fill(t, rng, vocab)).collect()),
    }
}

// ---------------------------------------------------------------------------------------------
// independent reader (documented grammar: OR < AND < NOT, bare word runs = OR)
// ---------------------------------------------------------------------------------------------

fn lex(s: &str) -> Vec<String> {
    let mut out = Vec::new();
    let mut cur = String::new();
    for c in s.chars() {
        if c == '(' || c == ')' || c.is_whitespace() {
            if !cur.is_empty() {
                out.push(std::mem::take(&mut cur));
            }
            if c == '(' || c == ')' {
                out.push(c.to_string());
            }
        } else {
            cur.push(c);
        }
    }
    if !cur.is_empty() {
        out.push(cur);
    }
    out
}

struct P {
    t: Vec<String>,
    i: usize,
}

impl P {
    fn peek(&self) -> Option<&str> {
        self.t.get(self.i).map(|s| s.as_str())
    }
    fn or(&mut self) -> Option<Tree> {
        let mut items = vec![self.and()?];
        while self.peek() == Some("OR") {
            self.i += 1;
            items.push(self.and()?);
        }
        Some(if items.len() == 1 { items.pop().unwrap() } else { Tree::Or(items) })
    }
    fn and(&mut self) -> Option<Tree> {
        let mut items = vec![self.not()?];
        while self.peek() == Some("AND") {
            self.i += 1;
            items.push(self.not()?);
        }
        Some(if items.len() == 1 { items.pop().unwrap() } else { Tree::And(items) })
    }
    fn not(&mut self) -> Option<Tree> {
        if self.peek() == Some("NOT") {
            self.i += 1;
            return Some(Tree::Not(Box::new(self.atom()?)));
        }
        self.atom()
    }
    fn atom(&mut self) -> Option<Tree> {
        if self.peek() == Some("(") {
            self.i += 1;
            if self.peek() == Some(")") {
                self.i += 1;
                return Some(Tree::Or(vec![]));
            }
            let e = self.or()?;
            if self.peek() != Some(")") {
                return None;
            }
            self.i += 1;
            return Some(e);
        }
        let mut ws = Vec::new();
        while let Some(w) = self.peek() {
            if matches!(w, "(" | ")" | "AND" | "OR" | "NOT") {
                break;
            }
            ws.push(w.to_string());
            self.i += 1;
        }
        if ws.is_empty() { None } else { Some(Tree::Leaf(ws)) }
    }
}

/// Reads the text form back (well-formed input only; `None` otherwise).
pub fn read_tree(s: &str) -> Option<Tree> {
    let mut p = P { t: lex(s), i: 0 };
    if p.t.is_empty() {
        return Some(Tree::Or(vec![]));
    }
    let t = p.or()?;
    if p.i == p.t.len() { Some(t) } else { None }
}

/// The crate's AST in the driver's prefix notation; `toks` maps a term string to token numbers.
pub fn ast_line(q: &QueryType, toks: &mut dyn FnMut(&str) -> Vec<usize>) -> String {
    match q {
        QueryType::Term(s) => {
            let t = toks(s);
            format!("T {}", if t.is_empty() { "-".to_string() } else { vh_common::join(t, ",") })
        }
        QueryType::And(qs) => {
            let mut s = format!("A {}", qs.len());
            for q in qs {
                s.push(' ');
                s.push_str(&ast_line(q, toks));
            }
            s
        }
        QueryType::Or(qs) => {
            let mut s = format!("O {}", qs.len());
            for q in qs {
                s.push(' ');
                s.push_str(&ast_line(q, toks));
            }
            s
        }
        QueryType::Not(q) => format!("N {}", ast_line(q, toks)),
    }
}
