//! L3: real threads of `BM25Index` operations parked at the `verif` yield points of hook H3
//! (`bm25.<fn>.<step>`), released one at a time by the explorer, so that every interleaving at the
//! yield points can be enumerated (stateless DFS: one fresh execution per schedule).
//!
//! A worker announces every yield point it reaches and then blocks until it is resumed; between two
//! announcements exactly one worker runs. The `.gate` points stand *before* the mutation gate is
//! taken; the explorer keeps the gate's book (who is inside, shared or exclusive) and never resumes a
//! worker whose next action is an acquire that would block, so no worker ever blocks on a lock.

use anda_db_tfs::{BM25Config, BM25Index, TokenizerChain, default_tokenizer};
use std::cell::RefCell;
use std::collections::BTreeSet;
use std::sync::mpsc::{Receiver, Sender, channel};
use std::sync::{Arc, Once};
use std::time::Duration;

pub type Index = BM25Index<TokenizerChain>;

#[derive(Clone, Debug)]
pub enum COp {
    Ins(u64, String),
    Rem(u64, String),
    Purge(Vec<u64>),
    Compact,
}

impl COp {
    pub fn show(&self) -> String {
        match self {
            COp::Ins(i, t) => format!("ins {i} {t}").trim_end().to_string(),
            COp::Rem(i, t) => format!("rem {i} {t}").trim_end().to_string(),
            COp::Purge(ids) => format!("purge {}", vh_common::join(ids.iter(), ",")),
            COp::Compact => "compact".into(),
        }
    }
    pub fn parse(s: &str) -> Option<COp> {
        let mut it = s.split(' ').filter(|x| !x.is_empty());
        match it.next()? {
            "ins" => Some(COp::Ins(it.next()?.parse().ok()?, it.collect::<Vec<_>>().join(" "))),
            "rem" => Some(COp::Rem(it.next()?.parse().ok()?, it.collect::<Vec<_>>().join(" "))),
            "purge" => Some(COp::Purge(it.next()?.split(',').filter_map(|x| x.parse().ok()).collect())),
            "compact" => Some(COp::Compact),
            _ => None,
        }
    }
    pub fn exclusive(&self) -> bool {
        matches!(self, COp::Compact)
    }
    /// applies the operation through the public API, returns the canonical result
    pub fn apply(&self, ix: &Index) -> String {
        match self {
            COp::Ins(id, text) => match ix.insert(*id, text, 0) {
                Ok(()) => "ok".into(),
                Err(anda_db_tfs::BM25Error::TokenizeFailed { .. }) => "err:tokenize".into(),
                Err(anda_db_tfs::BM25Error::AlreadyExists { .. }) => "err:exists".into(),
                Err(e) => format!("err:other:{e}"),
            },
            COp::Rem(id, text) => ix.remove(*id, text, 0).to_string(),
            COp::Purge(ids) => ix.purge_ids(&ids.iter().cloned().collect::<BTreeSet<u64>>(), 0).to_string(),
            COp::Compact => {
                ix.compact_buckets();
                "compacted".into()
            }
        }
    }
}

#[derive(Clone, Debug)]
pub struct Workload {
    #[allow(dead_code)]
    pub name: String,
    pub zero: bool,
    pub setup: Vec<COp>,
    pub threads: Vec<COp>,
}

impl Workload {
    /// one line: `conc zero|large | setup op ; op | thread op || thread op`
    pub fn line(&self) -> String {
        format!(
            "conc {} | {} | {}",
            if self.zero { "zero" } else { "large" },
            self.setup.iter().map(|o| o.show()).collect::<Vec<_>>().join(" ; "),
            self.threads.iter().map(|o| o.show()).collect::<Vec<_>>().join(" || ")
        )
    }
    pub fn parse(line: &str) -> Option<Workload> {
        let rest = line.strip_prefix("conc ")?;
        let parts: Vec<&str> = rest.split('|').collect();
        // `||` between threads produces empty parts
        let mode = parts.first()?.trim();
        let setup_s = parts.get(1)?.trim();
        let threads_s: Vec<&str> = parts[2..].iter().map(|s| s.trim()).filter(|s| !s.is_empty()).collect();
        Some(Workload {
            name: line.to_string(),
            zero: mode == "zero",
            setup: setup_s.split(';').map(|s| s.trim()).filter(|s| !s.is_empty()).filter_map(COp::parse).collect(),
            threads: threads_s.iter().filter_map(|s| COp::parse(s)).collect(),
        })
    }
}

enum Ev {
    At(&'static str),
    Done(String),
}

struct Slot {
    ix: usize,
    tx: Sender<(usize, Ev)>,
    rx: Receiver<()>,
}

thread_local! {
    static SLOT: RefCell<Option<Slot>> = const { RefCell::new(None) };
}

static INSTALL: Once = Once::new();

fn install_callback() {
    INSTALL.call_once(|| {
        anda_db_utils::verif::install(Some(Arc::new(|tag: &'static str| {
            SLOT.with(|s| {
                if let Some(slot) = s.borrow().as_ref() {
                    let _ = slot.tx.send((slot.ix, Ev::At(tag)));
                    // parked until the explorer resumes this worker
                    let _ = slot.rx.recv();
                }
            });
        })));
    });
}

pub fn new_index(zero: bool) -> Index {
    let cfg = BM25Config { bucket_overload_size: if zero { 0 } else { BM25Config::default().bucket_overload_size }, ..BM25Config::default() };
    BM25Index::new("c11".into(), default_tokenizer(), Some(cfg))
}

pub struct RunOutcome {
    pub index: Arc<Index>,
    /// the schedule that was executed (worker index per released action)
    pub sched: Vec<usize>,
    /// at every decision: the enabled workers, in ascending order
    pub enabled: Vec<Vec<usize>>,
    pub results: Vec<String>,
    pub tags: Vec<String>,
    pub deadlock: Option<String>,
}

#[derive(Clone, Copy, PartialEq)]
enum WState {
    At(&'static str),
    Done,
}

/// Executes the workload's threads on `index` following `prefix` and then always the first enabled
/// worker.
pub fn run_threads(index: Arc<Index>, threads: &[COp], prefix: &[usize], prefer_last: bool) -> RunOutcome {
    install_callback();
    let n = threads.len();
    let (tx_ev, rx_ev) = channel::<(usize, Ev)>();
    let mut resume: Vec<Sender<()>> = Vec::new();
    let mut handles = Vec::new();
    for (i, op) in threads.iter().enumerate() {
        let (tx_r, rx_r) = channel::<()>();
        resume.push(tx_r);
        let tx = tx_ev.clone();
        let op = op.clone();
        let ix = index.clone();
        handles.push(std::thread::spawn(move || {
            SLOT.with(|s| *s.borrow_mut() = Some(Slot { ix: i, tx: tx.clone(), rx: rx_r }));
            let r = std::panic::catch_unwind(std::panic::AssertUnwindSafe(|| op.apply(&ix))).unwrap_or_else(|_| "panic".into());
            SLOT.with(|s| *s.borrow_mut() = None);
            let _ = tx.send((i, Ev::Done(r)));
        }));
    }
    let mut out = RunOutcome { index: index.clone(), sched: vec![], enabled: vec![], results: vec![String::new(); n], tags: vec![], deadlock: None };
    let mut state: Vec<Option<WState>> = vec![None; n];
    // generous: on an overloaded machine a freshly spawned worker may not be scheduled for seconds;
    // a worker cannot block before its first yield point, so this is never a property question
    let wait = Duration::from_secs(180);
    // every worker runs to its first yield point (or finishes without reaching one)
    let mut pending = n;
    while pending > 0 {
        match rx_ev.recv_timeout(wait) {
            Ok((i, Ev::At(tag))) => {
                state[i] = Some(WState::At(tag));
                pending -= 1;
            }
            Ok((i, Ev::Done(r))) => {
                state[i] = Some(WState::Done);
                out.results[i] = r;
                pending -= 1;
            }
            Err(_) => {
                out.deadlock = Some("a worker did not reach its first yield point".into());
                return out;
            }
        }
    }
    // the gate's book
    let mut inside: Vec<bool> = vec![false; n];
    loop {
        if state.iter().all(|s| *s == Some(WState::Done)) {
            break;
        }
        let excl_inside = (0..n).any(|i| inside[i] && threads[i].exclusive());
        let any_inside = inside.iter().any(|b| *b);
        let enabled: Vec<usize> = (0..n)
            .filter(|&i| match state[i] {
                Some(WState::At(tag)) => {
                    if tag.ends_with(".gate") {
                        if threads[i].exclusive() { !any_inside } else { !excl_inside }
                    } else {
                        true
                    }
                }
                _ => false,
            })
            .collect();
        if enabled.is_empty() {
            out.deadlock = Some(format!("no worker enabled; states: {:?}", state.iter().map(|s| match s { Some(WState::At(t)) => *t, Some(WState::Done) => "done", None => "?" }).collect::<Vec<_>>()));
            return out;
        }
        let k = out.sched.len();
        let choice = if k < prefix.len() && enabled.contains(&prefix[k]) { prefix[k] } else if prefer_last { *enabled.last().unwrap() } else { enabled[0] };
        out.enabled.push(enabled);
        out.sched.push(choice);
        if let Some(WState::At(tag)) = state[choice] {
            out.tags.push(format!("{choice}:{tag}"));
            if tag.ends_with(".gate") {
                inside[choice] = true;
            }
        }
        let _ = resume[choice].send(());
        // exactly this worker runs now, up to its next yield point or its end
        match rx_ev.recv_timeout(wait) {
            Ok((i, Ev::At(tag))) => {
                debug_assert_eq!(i, choice);
                state[i] = Some(WState::At(tag));
            }
            Ok((i, Ev::Done(r))) => {
                state[i] = Some(WState::Done);
                inside[i] = false;
                out.results[i] = r;
            }
            Err(_) => {
                out.deadlock = Some(format!("worker {choice} neither reached a yield point nor finished after {:?}", out.tags.last()));
                return out;
            }
        }
    }
    for h in handles {
        let _ = h.join();
    }
    out
}

/// Gate probe for two workers `h` (holder) and `o` (other), one of which is `compact_buckets`:
/// `h` runs `s` actions (so it is inside the gate), then `o` is released **at its `.gate` point
/// although the gate is taken**. The mutation gate must make it wait: if `o` reaches its next
/// yield point (or finishes) while `h` is still inside, `gate_broken` is set. Then `h` runs to its
/// end, `o` follows. `sched` is the order in which the actions really executed.
/// Returns `None` when `h` finishes in fewer than `s + 1` actions (nothing left to probe).
pub fn run_probe(index: Arc<Index>, threads: &[COp], h: usize, s: usize) -> Option<(RunOutcome, bool)> {
    install_callback();
    assert_eq!(threads.len(), 2);
    let o = 1 - h;
    let (tx_ev, rx_ev) = channel::<(usize, Ev)>();
    let mut resume: Vec<Sender<()>> = Vec::new();
    let mut handles = Vec::new();
    for (i, op) in threads.iter().enumerate() {
        let (tx_r, rx_r) = channel::<()>();
        resume.push(tx_r);
        let tx = tx_ev.clone();
        let op = op.clone();
        let ix = index.clone();
        handles.push(std::thread::spawn(move || {
            SLOT.with(|sl| *sl.borrow_mut() = Some(Slot { ix: i, tx: tx.clone(), rx: rx_r }));
            let r = std::panic::catch_unwind(std::panic::AssertUnwindSafe(|| op.apply(&ix))).unwrap_or_else(|_| "panic".into());
            SLOT.with(|sl| *sl.borrow_mut() = None);
            let _ = tx.send((i, Ev::Done(r)));
        }));
    }
    let mut out = RunOutcome { index: index.clone(), sched: vec![], enabled: vec![], results: vec![String::new(); 2], tags: vec![], deadlock: None };
    let long = Duration::from_secs(180);
    let mut done = [false, false];
    let mut at: [Option<&'static str>; 2] = [None, None];
    for _ in 0..2 {
        match rx_ev.recv_timeout(long) {
            Ok((i, Ev::At(tag))) => at[i] = Some(tag),
            Ok((i, Ev::Done(r))) => {
                done[i] = true;
                out.results[i] = r;
            }
            Err(_) => {
                out.deadlock = Some("a worker did not reach its first yield point".into());
                return Some((out, false));
            }
        }
    }
    // helper: resume `i`, wait for *its* next event
    let step = |i: usize, out: &mut RunOutcome, done: &mut [bool; 2], at: &mut [Option<&'static str>; 2], wait: Duration| -> Result<bool, ()> {
        let _ = resume[i].send(());
        match rx_ev.recv_timeout(wait) {
            Ok((j, Ev::At(tag))) => {
                at[j] = Some(tag);
                out.sched.push(j);
                Ok(true)
            }
            Ok((j, Ev::Done(r))) => {
                done[j] = true;
                out.results[j] = r;
                out.sched.push(j);
                Ok(true)
            }
            Err(_) => Err(()),
        }
    };
    // h runs s actions; it must still be inside afterwards
    for _ in 0..s {
        if done[h] {
            break;
        }
        if step(h, &mut out, &mut done, &mut at, long).is_err() {
            out.deadlock = Some("holder stuck".into());
            return Some((out, false));
        }
    }
    if done[h] || done[o] {
        // nothing to probe at this depth: let everything finish
        while !(done[0] && done[1]) {
            let i = if !done[h] { h } else { o };
            if step(i, &mut out, &mut done, &mut at, long).is_err() {
                out.deadlock = Some("stuck".into());
                break;
            }
        }
        for hd in handles {
            let _ = hd.join();
        }
        return None;
    }
    // release o at its gate point: it must block
    let mut gate_broken = false;
    match step(o, &mut out, &mut done, &mut at, Duration::from_millis(40)) {
        Ok(_) => gate_broken = true, // it got in although h is inside
        Err(()) => {}
    }
    let mut o_released_blocked = !gate_broken;
    // h to its end. While o is released-but-waiting, an event of o can overtake the event of h's
    // *last* action (h leaves the gate at its return, before its `Done` is sent): that is
    // legitimate. If h shows up at another yield point after o moved, h was still inside.
    while !done[h] {
        let _ = resume[h].send(());
        let mut o_early = false;
        loop {
            match rx_ev.recv_timeout(long) {
                Ok((j, ev)) if j == h => {
                    let h_done = matches!(ev, Ev::Done(_));
                    match ev {
                        Ev::At(tag) => at[h] = Some(tag),
                        Ev::Done(r) => {
                            done[h] = true;
                            out.results[h] = r;
                        }
                    }
                    if o_early {
                        if h_done {
                            // h's last action really came first
                            let last = out.sched.pop().unwrap();
                            out.sched.push(h);
                            out.sched.push(last);
                        } else {
                            gate_broken = true;
                            out.sched.push(h);
                        }
                    } else {
                        out.sched.push(h);
                    }
                    break;
                }
                Ok((j, ev)) => {
                    // o moved
                    o_early = true;
                    o_released_blocked = false;
                    match ev {
                        Ev::At(tag) => at[j] = Some(tag),
                        Ev::Done(r) => {
                            done[j] = true;
                            out.results[j] = r;
                        }
                    }
                    out.sched.push(j);
                }
                Err(_) => {
                    out.deadlock = Some("holder stuck".into());
                    return Some((out, gate_broken));
                }
            }
        }
    }
    // o: if it was blocked it now gets the gate and runs to its next point by itself
    if o_released_blocked {
        match rx_ev.recv_timeout(long) {
            Ok((j, Ev::At(tag))) => {
                at[j] = Some(tag);
                out.sched.push(j);
            }
            Ok((j, Ev::Done(r))) => {
                done[j] = true;
                out.results[j] = r;
                out.sched.push(j);
            }
            Err(_) => {
                out.deadlock = Some("the waiting worker never got the gate".into());
                return Some((out, gate_broken));
            }
        }
    }
    while !done[o] {
        if step(o, &mut out, &mut done, &mut at, long).is_err() {
            out.deadlock = Some("worker stuck after the gate".into());
            return Some((out, gate_broken));
        }
    }
    for hd in handles {
        let _ = hd.join();
    }
    Some((out, gate_broken))
}

/// next DFS prefix after a run: backtrack to the deepest decision with an untried alternative
/// (alternatives are tried in ascending worker order, or descending with `prefer_last`)
pub fn next_prefix(sched: &[usize], enabled: &[Vec<usize>], prefer_last: bool) -> Option<Vec<usize>> {
    for k in (0..sched.len()).rev() {
        let pos = enabled[k].iter().position(|x| *x == sched[k]).unwrap_or(0);
        let alt = if prefer_last { pos.checked_sub(1) } else if pos + 1 < enabled[k].len() { Some(pos + 1) } else { None };
        if let Some(a) = alt {
            let mut p = sched[..k].to_vec();
            p.push(enabled[k][a]);
            return Some(p);
        }
    }
    None
}
