//! `TraceStore`: an `ObjectStore` wrapper around a shared `InMemory` that
//!  * records every backend call that was *performed* (kind, path) — the mutation log of the oracle;
//!  * counts every backend call that was *started* (so a poll that reached the backend is
//!    distinguishable from a poll that parked on a lock);
//!  * in `pending_once` mode makes every backend call return `Pending` exactly once before it is
//!    performed, so that a future polled by hand suspends at *every* backend call;
//!  * can fail one PUT whose path ends with a given suffix (fault injection for error branches).
use async_trait::async_trait;
use futures::{StreamExt, stream::BoxStream};
use object_store::{path::Path, *};
use std::future::Future;
use std::pin::Pin;
use std::sync::atomic::{AtomicBool, AtomicU64, Ordering};
use std::sync::{Arc, Mutex};
use std::task::{Context, Poll};

#[derive(Clone, Copy, Debug, PartialEq, Eq)]
pub enum Kind {
    Get,
    List,
    Put,
    Del,
}

#[derive(Clone, Debug)]
pub struct Rec {
    pub kind: Kind,
    pub path: String,
}

#[derive(Default, Debug)]
pub struct Trace {
    pub pending_once: AtomicBool,
    pub started: AtomicU64,
    /// started calls whose path lies under `prefix`
    pub started_in: AtomicU64,
    pub log: Mutex<Vec<Rec>>,
    pub prefix: Mutex<String>,
    pub fail_put_suffix: Mutex<Option<String>>,
    /// the next DELETE of a path with this suffix fails (once)
    pub fail_del_suffix: Mutex<Option<String>>,
}

impl Trace {
    fn begin(&self, path: &str) {
        self.started.fetch_add(1, Ordering::SeqCst);
        if path.starts_with(self.prefix.lock().unwrap().as_str()) {
            self.started_in.fetch_add(1, Ordering::SeqCst);
        }
    }
    fn record(&self, kind: Kind, path: &str) {
        self.log.lock().unwrap().push(Rec { kind, path: path.to_string() });
    }
    fn yield_once(&self) -> YieldOnce {
        YieldOnce(!self.pending_once.load(Ordering::SeqCst))
    }
    #[allow(dead_code)]
    pub fn in_prefix(&self, path: &str) -> bool {
        path.starts_with(self.prefix.lock().unwrap().as_str())
    }
}

pub struct YieldOnce(bool);
impl Future for YieldOnce {
    type Output = ();
    fn poll(mut self: Pin<&mut Self>, cx: &mut Context<'_>) -> Poll<()> {
        if self.0 {
            Poll::Ready(())
        } else {
            self.0 = true;
            cx.waker().wake_by_ref();
            Poll::Pending
        }
    }
}

#[derive(Clone, Debug)]
pub struct TraceStore {
    pub inner: Arc<memory::InMemory>,
    pub trace: Arc<Trace>,
}

impl TraceStore {
    pub fn new(inner: Arc<memory::InMemory>, prefix: &str) -> TraceStore {
        let t = Trace::default();
        *t.prefix.lock().unwrap() = prefix.to_string();
        TraceStore { inner, trace: Arc::new(t) }
    }
}

impl std::fmt::Display for TraceStore {
    fn fmt(&self, f: &mut std::fmt::Formatter<'_>) -> std::fmt::Result {
        write!(f, "TraceStore")
    }
}

#[async_trait]
impl ObjectStore for TraceStore {
    async fn put_opts(&self, location: &Path, payload: PutPayload, opts: PutOptions) -> Result<PutResult> {
        let p = location.to_string();
        self.trace.begin(&p);
        self.trace.yield_once().await;
        {
            let mut f = self.trace.fail_put_suffix.lock().unwrap();
            if f.as_ref().is_some_and(|s| p.ends_with(s.as_str())) {
                *f = None;
                return Err(Error::Generic { store: "trace", source: "injected PUT failure".into() });
            }
        }
        let r = self.inner.put_opts(location, payload, opts).await?;
        self.trace.record(Kind::Put, &p);
        Ok(r)
    }

    async fn put_multipart_opts(&self, location: &Path, opts: PutMultipartOptions) -> Result<Box<dyn MultipartUpload>> {
        let p = location.to_string();
        self.trace.begin(&p);
        self.trace.yield_once().await;
        // recorded as a PUT when the upload is created (the harness never writes objects large enough)
        self.trace.record(Kind::Put, &p);
        self.inner.put_multipart_opts(location, opts).await
    }

    async fn get_opts(&self, location: &Path, options: GetOptions) -> Result<GetResult> {
        let p = location.to_string();
        self.trace.begin(&p);
        self.trace.yield_once().await;
        self.trace.record(Kind::Get, &p);
        self.inner.get_opts(location, options).await
    }

    fn delete_stream(&self, locations: BoxStream<'static, Result<Path>>) -> BoxStream<'static, Result<Path>> {
        let inner = self.inner.clone();
        let trace = self.trace.clone();
        locations
            .then(move |loc| {
                let inner = inner.clone();
                let trace = trace.clone();
                async move {
                    let loc = loc?;
                    let p = loc.to_string();
                    trace.begin(&p);
                    trace.yield_once().await;
                    {
                        let mut f = trace.fail_del_suffix.lock().unwrap();
                        if f.as_ref().is_some_and(|s| p.ends_with(s.as_str())) {
                            *f = None;
                            return Err(Error::Generic { store: "trace", source: "injected DELETE failure".into() });
                        }
                    }
                    inner.delete(&loc).await?;
                    trace.record(Kind::Del, &p);
                    Ok(loc)
                }
            })
            .boxed()
    }

    fn list(&self, prefix: Option<&Path>) -> BoxStream<'static, Result<ObjectMeta>> {
        let p = prefix.map(|p| p.to_string()).unwrap_or_default();
        let s = self.inner.list(prefix);
        let trace = self.trace.clone();
        futures::stream::once(async move {
            trace.begin(&p);
            trace.yield_once().await;
            trace.record(Kind::List, &p);
            s
        })
        .flatten()
        .boxed()
    }

    fn list_with_offset(&self, prefix: Option<&Path>, offset: &Path) -> BoxStream<'static, Result<ObjectMeta>> {
        let p = prefix.map(|p| p.to_string()).unwrap_or_default();
        let s = self.inner.list_with_offset(prefix, offset);
        let trace = self.trace.clone();
        futures::stream::once(async move {
            trace.begin(&p);
            trace.yield_once().await;
            trace.record(Kind::List, &p);
            s
        })
        .flatten()
        .boxed()
    }

    async fn list_with_delimiter(&self, prefix: Option<&Path>) -> Result<ListResult> {
        let p = prefix.map(|p| p.to_string()).unwrap_or_default();
        self.trace.begin(&p);
        self.trace.yield_once().await;
        self.trace.record(Kind::List, &p);
        self.inner.list_with_delimiter(prefix).await
    }

    async fn copy_opts(&self, from: &Path, to: &Path, options: CopyOptions) -> Result<()> {
        let p = to.to_string();
        self.trace.begin(&p);
        self.trace.yield_once().await;
        self.inner.copy_opts(from, to, options).await?;
        self.trace.record(Kind::Put, &p);
        Ok(())
    }
}
