//! C06 — closed, deleted, poisoned or read-only handles never write; cancel = crash.
//!
//! A case is a list of op lines run against a real `AndaDB` + `Collection` over `TraceStore`
//! (recording, every backend call `Pending` once while a future is polled by hand):
//!
//!   setup <ndocs> <flushed 0|1> <pending-update 0|1>
//!   op <api>             spawn the future of an API call (not polled yet)          → slot index
//!   fault_del <suffix>   the next DELETE of a path ending in <suffix> fails
//!   call <api>           op + run
//!   poll <slot>          poll it once            run <slot>   poll it to completion
//!   drop <slot>          drop the future (cancellation)
//!   setro <0|1>          Collection::set_read_only        dbro <0|1>   AndaDB::set_read_only
//!   fault <suffix>       the next PUT whose path ends with <suffix> fails
//!   settle               poll every live future until it completes or parks
//!   sweep                call every guarded API, one after the other, on the retained Arc<Collection>
//!   reopen               drop everything, reopen the collection, check ids = stored docs = index, add accepted
//!
//! * correspondence: every event is translated into a request of the Lean driver `drv_c06`
//!   (what the poll did at the backend) and the model's answer — lifecycle, read-only flag, result class
//!   of the call, number of mutations it allows, number of stored objects — is compared with the
//!   implementation's (`state()`, `stats().read_only`, the returned error, the recorded mutations, a listing).
//! * oracle (independent of the model): the property's own conditions on the recorded mutation log.
mod store;

use anda_db::{
    collection::{Collection, CollectionConfig},
    database::{AndaDB, DBConfig},
    error::{CollectionState, DBError},
    query::{Filter, RangeQuery},
    schema::{AndaDBSchema, Fv},
    storage::StorageConfig,
};
use futures::StreamExt;
use object_store::{ObjectStore, memory::InMemory, path::Path};
use serde::{Deserialize, Serialize};
use std::collections::{BTreeMap, BTreeSet};
use std::future::Future;
use std::pin::Pin;
use std::sync::Arc;
use std::sync::atomic::Ordering;
use std::task::Poll;
use store::*;
use vh_common::serde_json::json;
use vh_common::*;

#[derive(Debug, Clone, Serialize, Deserialize, AndaDBSchema)]
struct Doc {
    _id: u64,
    a: u64,
    txt: String,
}

const DB: &str = "c06";
const COLL: &str = "c";
const PREFIX: &str = "c06/c/";
const GUARDED: [&str; 10] = ["add", "update:1", "remove:3", "save_ext", "remove_ext", "flush", "compact_btree", "compact_bm25", "reconcile", "db_flush"];
const ALL_APIS: [&str; 14] = [
    "add", "update:2", "remove:2", "flush", "close", "save_ext", "remove_ext", "compact_btree", "compact_bm25", "reconcile",
    "delete_collection", "close_collection", "db_flush", "db_close",
];

type OpFut = Pin<Box<dyn Future<Output = Result<(), DBError>>>>;

fn state_name(s: CollectionState) -> &'static str {
    match s {
        CollectionState::Active => "active",
        CollectionState::Closing => "closing",
        CollectionState::Closed => "closed",
        CollectionState::Deleting => "deleting",
        CollectionState::Deleted => "deleted",
        CollectionState::Poisoned => "poisoned",
    }
}

fn classify(r: &Result<(), DBError>) -> String {
    match r {
        Ok(()) => "ok".into(),
        Err(e) => {
            if let Some(s) = e.collection_state() {
                format!("rej:state:{}", state_name(s))
            } else if format!("{e:?}").contains("Collection is read-only") {
                "rej:ro".into()
            } else {
                "err".into()
            }
        }
    }
}

/// the model thread kind of an API (cross-checked against the generated skeletons at start-up)
fn model_kind(api: &str) -> &'static str {
    match api.split(':').next().unwrap() {
        "add" | "update" | "remove" | "save_ext" | "remove_ext" => "mut-s",
        // AndaDB::flush = Collection::flush on every registered handle, then the database metadata (outside the prefix)
        "flush" | "db_flush" => "mut-xp",
        "compact_btree" | "compact_bm25" | "reconcile" => "mut-x",
        // AndaDB::close = AndaDB::set_read_only(true), Collection::close on every registered handle, database metadata
        "close" | "close_collection" | "db_close" => "close",
        "delete_collection" => "drop",
        _ => "?",
    }
}

fn is_guarded(api: &str) -> bool {
    !matches!(model_kind(api), "close" | "drop" | "?")
}

struct Slot {
    api: String,
    model_tid: Option<usize>,
    fut: Option<OpFut>,
    result: Option<String>,
    muts: usize,
    polls: usize,
    /// the handle refused admission at every observation since the last moment at which the future had not
    /// yet reached the backend (= was not yet admitted: queued on the gate, or not started)
    always_blocked: bool,
    /// the future has started at least one backend call
    progressed: bool,
    dropped: bool,
    /// composite database-level calls (`db_flush`, `db_close`): the call on the collection handle inside them has
    /// returned; what follows only touches the database's own objects
    inner_done: bool,
}

#[derive(Clone, Debug)]
struct Fail {
    key: String,
    what: String,
    expected: String,
    observed: String,
}

struct World {
    mem: Arc<InMemory>,
    store: Arc<TraceStore>,
    db: AndaDB,
    coll: Arc<Collection>,
    slots: Vec<Slot>,
    ords: BTreeMap<String, usize>,
    /// (request to the model, answer of the implementation)
    lines: Vec<(String, String)>,
    fails: Vec<Fail>,
    model_next_tid: usize,
    log_pos: usize,
    seen_retired: bool,
    delete_returned_ok: bool,
    registered: bool,
    // statistics
    total_muts: usize,
    rejected: usize,
    drops: usize,
    polls: usize,
    hist: BTreeMap<String, u64>,
}

async fn list_prefix(mem: &InMemory) -> Vec<String> {
    let mut v: Vec<String> = mem
        .list(Some(&Path::from(format!("{DB}/{COLL}"))))
        .filter_map(|m| async move { m.ok().map(|m| m.location.to_string()) })
        .collect()
        .await;
    v.sort();
    v
}

impl World {
    async fn setup(ndocs: usize, flushed: bool, pending_update: bool) -> Result<World, String> {
        let mem = Arc::new(InMemory::new());
        let store = Arc::new(TraceStore::new(mem.clone(), PREFIX));
        let db = AndaDB::connect(
            store.clone(),
            DBConfig { name: DB.into(), description: String::new(), storage: StorageConfig { compress_level: 0, ..Default::default() }, lock: None },
        )
        .await
        .map_err(|e| format!("connect: {e:?}"))?;
        let coll = db
            .open_or_create_collection(Doc::schema().map_err(|e| format!("schema: {e:?}"))?, CollectionConfig { name: COLL.into(), description: String::new() }, async |c| {
                c.create_btree_index_nx(&["a"]).await?;
                c.create_bm25_index_nx(&["txt"]).await?;
                Ok(())
            })
            .await
            .map_err(|e| format!("create: {e:?}"))?;
        for i in 0..ndocs {
            coll.add_from(&Doc { _id: 0, a: (i % 3) as u64, txt: format!("alpha w{i}") }).await.map_err(|e| format!("add: {e:?}"))?;
        }
        coll.save_extension("k".into(), Fv::U64(1)).await.map_err(|e| format!("save_extension: {e:?}"))?;
        if flushed {
            coll.flush(anda_db::unix_ms()).await.map_err(|e| format!("flush: {e:?}"))?;
        }
        if pending_update && ndocs >= 1 {
            coll.update(1, BTreeMap::from([("a".to_string(), Fv::U64(5))])).await.map_err(|e| format!("update: {e:?}"))?;
        }
        let mut w = World {
            mem, store, db, coll, slots: vec![], ords: BTreeMap::new(), lines: vec![], fails: vec![], model_next_tid: 0, log_pos: 0,
            seen_retired: false, delete_returned_ok: false, registered: true, total_muts: 0, rejected: 0, drops: 0, polls: 0, hist: BTreeMap::new(),
        };
        w.log_pos = w.store.trace.log.lock().unwrap().len();
        let objs = list_prefix(&w.mem).await;
        let ords: Vec<usize> = objs.iter().map(|p| w.ord(p)).collect();
        w.lines.push((format!("reset {}", if ords.is_empty() { "-".into() } else { join(ords, ",") }), "ok".into()));
        Ok(w)
    }

    fn ord(&mut self, path: &str) -> usize {
        let n = self.ords.len();
        *self.ords.entry(path.to_string()).or_insert(n)
    }

    fn hit(&mut self, k: &str) {
        *self.hist.entry(k.to_string()).or_insert(0) += 1;
    }

    fn blocked_now(&self) -> bool {
        self.coll.state() != CollectionState::Active || self.coll.stats().read_only
    }

    async fn answer(&self, status: &str, w: usize) -> String {
        let objs = list_prefix(&self.mem).await.len();
        format!("{status} lc={} ro={} w={w} objs={objs}", state_name(self.coll.state()), if self.coll.stats().read_only { 1 } else { 0 })
    }

    fn fail(&mut self, key: &str, what: &str, expected: &str, observed: &str) {
        self.fails.push(Fail { key: key.into(), what: what.into(), expected: expected.into(), observed: observed.into() });
    }

    /// bookkeeping after every event: blocked-ness of the live futures, monotonicity of the lifecycle
    fn after_event(&mut self) {
        let blocked = self.blocked_now();
        for s in self.slots.iter_mut() {
            if s.fut.is_some() {
                if !s.progressed {
                    s.always_blocked = blocked;
                } else if !blocked {
                    s.always_blocked = false;
                }
            }
        }
        let st = self.coll.state();
        if st != CollectionState::Active {
            self.seen_retired = true;
        } else if self.seen_retired {
            self.fail("lifecycle:back-to-active", "a handle that had left ACTIVE is ACTIVE again", "state != active", "active");
        }
    }

    fn make_future(&self, api: &str) -> Result<OpFut, String> {
        let c = self.coll.clone();
        let db = self.db.clone();
        let (name, arg) = match api.split_once(':') {
            Some((n, a)) => (n, a.parse::<u64>().map_err(|_| format!("bad api {api}"))?),
            None => (api, 0),
        };
        Ok(match name {
            "add" => Box::pin(async move { c.add_from(&Doc { _id: 0, a: 7, txt: "beta gamma".into() }).await.map(|_| ()) }),
            "update" => Box::pin(async move { c.update(arg, BTreeMap::from([("a".to_string(), Fv::U64(9))])).await.map(|_| ()) }),
            "remove" => Box::pin(async move { c.remove(arg).await.map(|_| ()) }),
            "flush" => Box::pin(async move { c.flush(anda_db::unix_ms()).await.map(|_| ()) }),
            "close" => Box::pin(async move { c.close().await }),
            "save_ext" => Box::pin(async move { c.save_extension("k2".into(), Fv::U64(2)).await }),
            "remove_ext" => Box::pin(async move { c.remove_extension("k").await.map(|_| ()) }),
            "compact_btree" => Box::pin(async move { c.compact_btree_index(&["a"]).await }),
            "compact_bm25" => Box::pin(async move { c.compact_bm25_index(&["txt"]).await }),
            "reconcile" => Box::pin(async move { c.reconcile_storage().await.map(|_| ()) }),
            "delete_collection" => Box::pin(async move { db.delete_collection(COLL).await }),
            // opening a name whose handle is registered and ACTIVE returns that handle; while a delete is in progress it is refused;
            // either way nothing under the prefix changes
            "open_existing" => Box::pin(async move { db.open_collection(COLL.to_string(), async |_| Ok(())).await.map(|_| ()) }),
            "db_flush" => Box::pin(async move { db.flush().await }),
            "db_close" => Box::pin(async move { db.close().await }),
            // creating over a name that still exists (registered, closed-and-unregistered, or being dropped) must be refused
            // without touching the prefix
            "create_existing" => Box::pin(async move {
                let schema = Doc::schema().map_err(|e| DBError::Generic { name: "schema".into(), source: format!("{e:?}").into() })?;
                db.create_collection(schema, CollectionConfig { name: COLL.into(), description: String::new() }, async |_| Ok(())).await.map(|_| ())
            }),
            "close_collection" => Box::pin(async move { db.close_collection(COLL).await }),
            // the `&mut self` index methods are only callable inside the open / create callback, before a handle exists
            "open_cb" => Box::pin(async move {
                db.open_collection(COLL.to_string(), async |c| {
                    c.remove_btree_index(&["a"]).await?;
                    c.create_btree_index(&["a"]).await?;
                    c.remove_bm25_index(&["txt"]).await?;
                    c.create_bm25_index(&["txt"]).await?;
                    Ok(())
                })
                .await
                .map(|_| ())
            }),
            // the same without any cancellation: the callback itself fails after create + remove
            "open_cb_fail" => Box::pin(async move {
                db.open_collection(COLL.to_string(), async |c| {
                    c.remove_btree_index(&["a"]).await?;
                    c.create_btree_index(&["a"]).await?;
                    c.remove_bm25_index(&["txt"]).await?;
                    Err(DBError::Generic { name: "cb".into(), source: "callback gives up".into() })
                })
                .await
                .map(|_| ())
            }),
            _ => return Err(format!("unknown api {api}")),
        })
    }

    fn spawn(&mut self, api: &str) -> Result<usize, String> {
        let fut = self.make_future(api)?;
        self.hit(&format!("op:{}", api.split(':').next().unwrap()));
        self.slots.push(Slot { api: api.into(), model_tid: None, fut: Some(fut), result: None, muts: 0, polls: 0, always_blocked: true, progressed: false, dropped: false, inner_done: false });
        Ok(self.slots.len() - 1)
    }

    /// the backend calls performed since `log_pos`, as model acts + number of prefix mutations + progress outside
    fn take_acts(&mut self) -> (Vec<String>, usize, bool) {
        let recs: Vec<Rec> = { self.store.trace.log.lock().unwrap()[self.log_pos..].to_vec() };
        self.log_pos += recs.len();
        let mut acts = vec![];
        let mut muts = 0;
        let mut outside = false;
        for r in recs {
            if !r.path.starts_with(PREFIX) && r.path != format!("{DB}/{COLL}") {
                outside = true;
                continue;
            }
            match r.kind {
                Kind::Get | Kind::List => acts.push("r".to_string()),
                Kind::Put => {
                    muts += 1;
                    let o = self.ord(&r.path);
                    acts.push(format!("+{o}"));
                }
                Kind::Del => {
                    muts += 1;
                    let o = self.ord(&r.path);
                    acts.push(format!("-{o}"));
                }
            }
        }
        (acts, muts, outside)
    }

    /// returns (finished, made backend progress)
    async fn poll(&mut self, i: usize) -> Result<(bool, bool), String> {
        if i >= self.slots.len() {
            return Err(format!("no slot {i}"));
        }
        if self.slots[i].fut.is_none() {
            return Ok((true, false));
        }
        let state_before = self.coll.state();
        let was_registered = self.registered;
        // a delete_collection that was parked on the per-name lock (before `begin_delete`) while the handle got closed and
        // unregistered takes the unregistered path: it is no longer a call on this handle
        if self.slots[i].api == "delete_collection" && self.slots[i].model_tid.is_some() && !self.registered
            && !matches!(state_before, CollectionState::Deleting | CollectionState::Deleted)
        {
            self.slots[i].model_tid = None;
            self.hit("delete:handle-unregistered-meanwhile");
        }
        let blocked_before = self.blocked_now();
        let started0 = self.store.trace.started.load(Ordering::SeqCst);
        let started_in0 = self.store.trace.started_in.load(Ordering::SeqCst);
        if !self.slots[i].progressed {
            self.slots[i].always_blocked = blocked_before;
        }
        if self.slots[i].polls == 0 {
            // the model thread starts with the first poll. Database-level short cuts that never touch the
            // handle (db read-only refusal of delete_collection, an unregistered name) are outside the handle model.
            let api = self.slots[i].api.clone();
            let modelled = match api.as_str() {
                "delete_collection" => !self.db.is_read_only() && self.registered,
                "close_collection" | "db_flush" | "db_close" => self.registered,
                "open_cb" | "open_cb_fail" | "create_existing" | "open_existing" => false,
                _ => true,
            };
            if api == "create_existing" && self.delete_returned_ok {
                // the name is free again: creating it is legitimate and not what this call is for
                self.slots[i].fut = None;
                self.slots[i].result = Some("skipped".into());
                return Ok((true, false));
            }
            if api == "open_existing" {
                let st = self.coll.state();
                let live = self.registered && st == CollectionState::Active;
                let dropping = matches!(st, CollectionState::Deleting) && !self.delete_returned_ok;
                if !(live || dropping) {
                    // a retired handle would be replaced by a fresh generation: that is what `reopen` does at the end of the case
                    self.slots[i].fut = None;
                    self.slots[i].result = Some("skipped".into());
                    return Ok((true, false));
                }
                self.hit(if live { "open_existing:live" } else { "open_existing:dropping" });
            }
            if api == "db_close" {
                // its first action is AndaDB::set_read_only(true); the effect is compared with the closer's first poll
                if self.registered {
                    self.model_next_tid += 1;
                    self.lines.push(("dbro 1".into(), "skip".into()));
                } else {
                    self.lines.push(("state".into(), "skip".into()));
                }
            }
            if modelled {
                let t = self.model_next_tid;
                self.model_next_tid += 1;
                self.lines.push((format!("spawn {}", model_kind(&api)), format!("t{t}")));
                self.slots[i].model_tid = Some(t);
            }
        } else if !blocked_before {
            self.slots[i].always_blocked = false;
        }
        self.slots[i].polls += 1;
        self.polls += 1;
        self.store.trace.pending_once.store(true, Ordering::SeqCst);
        let res = {
            let fut = self.slots[i].fut.as_mut().unwrap();
            futures::poll!(fut.as_mut())
        };
        self.store.trace.pending_once.store(false, Ordering::SeqCst);
        if std::env::var("VH_C06_DUMP").is_ok() {
            let recs: Vec<Rec> = { self.store.trace.log.lock().unwrap()[self.log_pos..].to_vec() };
            eprintln!("    [slot {i} {} poll {}] {:?}", self.slots[i].api, self.slots[i].polls, recs.iter().map(|r| format!("{:?}:{}", r.kind, r.path)).collect::<Vec<_>>());
        }
        let (acts, muts, outside) = self.take_acts();
        let started = self.store.trace.started.load(Ordering::SeqCst) - started0;
        let started_in = self.store.trace.started_in.load(Ordering::SeqCst) - started_in0;
        let flag = if started_in > 0 || !acts.is_empty() { "g" } else if started > 0 || outside { "o" } else { "b" };
        if started > 0 || !acts.is_empty() {
            self.slots[i].progressed = true;
        }
        self.slots[i].muts += muts;
        self.total_muts += muts;
        let api = self.slots[i].api.clone();
        // ---- oracle: silence once CLOSED / DELETED
        if muts > 0 && !api.starts_with("open_cb") {
            let is_delete = api == "delete_collection";
            if state_before == CollectionState::Deleted || (state_before == CollectionState::Closed && !is_delete) {
                self.fail(
                    &format!("write-after-{}:{}", state_name(state_before), api.split(':').next().unwrap()),
                    "a call changed objects under the collection prefix although the handle was already closed / deleted",
                    "no mutation under the prefix",
                    &format!("{muts} mutation(s): {}", acts.join(",")),
                );
            }
        }
        let (fin, status) = match res {
            Poll::Pending => ("p".to_string(), "pending".to_string()),
            Poll::Ready(r) => {
                let cl = classify(&r);
                self.slots[i].fut = None;
                self.slots[i].result = Some(cl.clone());
                if api == "delete_collection" && r.is_ok() {
                    self.delete_returned_ok = true;
                    self.registered = false;
                }
                if api == "close_collection" && r.is_ok() {
                    self.registered = false;
                }
                if cl.starts_with("rej") {
                    self.rejected += 1;
                }
                self.hit(&format!("result:{}", cl.split(':').take(2).collect::<Vec<_>>().join(":")));
                ((if r.is_ok() { "ok" } else { "err" }).to_string(), cl)
            }
        };
        // ---- oracle: a guarded call that only ever saw a refusing handle is rejected and silent
        if fin != "p" && is_guarded(&api) && self.slots[i].always_blocked {
            let s = &self.slots[i];
            // AndaDB::flush over a handle that is no longer registered flushes nothing and may return Ok
            if s.muts > 0 || (fin == "ok" && !(api == "db_flush" && s.model_tid.is_none())) {
                let (m, r) = (s.muts, s.result.clone().unwrap_or_default());
                self.fail(
                    &format!("refusing-handle-admitted:{}", api.split(':').next().unwrap()),
                    "a mutating call made while the handle was read-only / closing / closed / deleting / deleted / poisoned was not rejected or wrote",
                    "rejected, 0 mutations",
                    &format!("result {r}, {m} mutation(s)"),
                );
            }
        }
        // ---- oracle: delete_collection returned Ok ⇒ nothing left
        if fin == "ok" && api == "delete_collection" {
            let left = list_prefix(&self.mem).await;
            if !left.is_empty() || self.coll.state() != CollectionState::Deleted && self.slots[i].model_tid.is_some() && was_registered {
                self.fail("delete:leftover", "delete_collection returned Ok but objects remain under the prefix / handle not DELETED", "empty prefix, state deleted", &format!("{} object(s), state {}", left.len(), state_name(self.coll.state())));
            }
        }
        // ---- oracle: a name that still exists cannot be created over
        if api == "create_existing" && (fin == "ok" || muts > 0) {
            self.fail(
                "create-over-existing",
                "create_collection on a name that still exists (or is being dropped) succeeded or changed objects under its prefix",
                "Err, 0 mutations",
                &format!("result {status}, {muts} mutation(s)"),
            );
        }
        if api == "open_existing" && (muts > 0 || (fin == "ok" && state_before == CollectionState::Deleting)) {
            self.fail(
                "open-existing-wrote",
                "open_collection on a registered ACTIVE handle / on a name being dropped changed objects under the prefix, or opened a name being dropped",
                "0 mutations; Err while a delete is in progress",
                &format!("result {status}, {muts} mutation(s)"),
            );
        }
        let composite = matches!(api.as_str(), "db_flush" | "db_close");
        if composite && self.slots[i].model_tid.is_some() {
            let t = self.slots[i].model_tid.unwrap();
            let a = if acts.is_empty() { "-".to_string() } else { acts.join(",") };
            if !self.slots[i].inner_done {
                // the call on the handle has returned as soon as the database-level tail (flush_metadata) starts
                let now = self.coll.state();
                let newly_poisoned = state_before != CollectionState::Poisoned && now == CollectionState::Poisoned;
                // … or, for a close that had nothing to write and whose tail is parked on the metadata lock, when the handle is CLOSED
                let tail_started = started > started_in || outside || fin != "p" || (api == "db_close" && (now == CollectionState::Closed || newly_poisoned));
                if tail_started {
                    self.slots[i].inner_done = true;
                    let inner_fin = if state_before != CollectionState::Poisoned && self.coll.state() == CollectionState::Poisoned { "err" } else { "ok" };
                    // the result of the inner call is not observable here: status is compared when the whole future returns
                    let ans = self.answer("*", muts).await;
                    self.lines.push((format!("poll {t} g {a} {inner_fin}"), ans));
                    self.hit(&format!("composite-inner-done:{api}"));
                } else {
                    let ans = self.answer(&status, muts).await;
                    self.lines.push((format!("poll {t} {flag} {a} p"), ans));
                }
            }
            if fin != "p" {
                // the model thread has finished: its recorded result must be the result of the whole call
                // a failure of the database-level tail (its own metadata PUT) is not a result of the handle
                // … and when the inner call was rejected while its tail was parked on the metadata lock, the model decides the
                // rejection only now, possibly after a further transition: only "rejected" is compared, not the state it names
                let st = if status == "ok" { "ok" } else if status.starts_with("rej") { "^rej" } else { "*" };
                let ans = self.answer(st, 0).await;
                self.lines.push((format!("poll {t} o - {fin}"), ans));
            }
        } else if let Some(t) = self.slots[i].model_tid {
            let mut acts = acts.clone();
            // a non-flush mutator body that failed and left the handle poisoned called `self.poison` itself
            // (unknown-outcome storage failure in add / update / remove): the model cannot foresee the backend's answer
            if fin == "err" && matches!(model_kind(&api), "mut-s" | "mut-x") && state_before != CollectionState::Poisoned && self.coll.state() == CollectionState::Poisoned {
                acts.push("x".into());
            }
            if api == "delete_collection" && fin == "p" && flag == "b" && !matches!(self.coll.state(), CollectionState::Deleting | CollectionState::Deleted) {
                // parked on the per-name lock, before `begin_delete`: the model's dropper has not taken its first step
                self.hit("delete:parked-on-name-lock");
            } else if api == "delete_collection" && fin == "err" && flag != "g" && self.coll.state() != CollectionState::Deleted {
                // the database-level part failed (flush_metadata) before drop_data was reached: for the handle this is
                // a dropper abandoned after begin_delete
                let ans = self.answer("dropped", 0).await;
                self.lines.push((format!("drop {t}"), ans));
            } else {
                let ans = self.answer(&status, muts).await;
                self.lines.push((format!("poll {t} {flag} {} {fin}", if acts.is_empty() { "-".to_string() } else { acts.join(",") }), ans));
            }
        } else if muts > 0 {
            // not a call on the handle (open callback, unregistered delete): the model only learns what changed in the store
            let w: Vec<String> = acts.iter().filter(|a| *a != "r").cloned().collect();
            let ans = self.answer("ext", 0).await;
            self.lines.push((format!("ext {}", w.join(",")), ans));
        }
        self.after_event();
        Ok((fin != "p", flag != "b"))
    }

    async fn run(&mut self, i: usize) -> Result<(), String> {
        for _ in 0..400 {
            let (fin, progress) = self.poll(i).await?;
            if fin {
                return Ok(());
            }
            if !progress {
                // parked behind another live future (gate / name lock / per-document lock): legitimate
                return Ok(());
            }
        }
        Ok(())
    }

    async fn drop_slot(&mut self, i: usize) -> Result<(), String> {
        if i >= self.slots.len() {
            return Err(format!("no slot {i}"));
        }
        if self.slots[i].fut.is_none() {
            return Ok(());
        }
        let polled = self.slots[i].polls > 0;
        self.slots[i].fut = None; // drops the future
        self.slots[i].dropped = true;
        self.drops += 1;
        let (acts, muts, _) = self.take_acts();
        if muts > 0 {
            self.fail("drop:wrote", "dropping a future performed backend mutations", "none", &acts.join(","));
        }
        // ---- oracle: cancel = crash: a partial effect implies the handle is no longer ACTIVE
        let s = &self.slots[i];
        if s.muts > 0 && self.coll.state() == CollectionState::Active && !s.inner_done {
            let (api, m) = (s.api.clone(), s.muts);
            self.fail(
                &format!("cancel-left-active:{}", api.split(':').next().unwrap()),
                "a mutating call was dropped after it had changed stored objects and the handle is still ACTIVE",
                "state != active (poisoned)",
                &format!("{m} mutation(s) performed, state active"),
            );
        }
        self.hit(if polled { "drop:polled" } else { "drop:unpolled" });
        if let Some(t) = self.slots[i].model_tid {
            let ans = self.answer("dropped", 0).await;
            self.lines.push((format!("drop {t}"), ans));
        }
        self.after_event();
        Ok(())
    }

    async fn setro(&mut self, b: bool) {
        let before = (self.coll.state(), self.db.is_read_only());
        self.coll.set_read_only(b);
        self.model_next_tid += 1;
        // `ignored` is decided by the harness from the documented rule; the model decides it from its own state
        let status = if !b && (before.0 != CollectionState::Active || before.1) { "ignored" } else { "ok" };
        let ans = self.answer(status, 0).await;
        self.lines.push((format!("setro {}", b as u8), ans));
        self.hit("op:setro");
        self.after_event();
    }

    async fn dbro(&mut self, b: bool) {
        let before = self.coll.state();
        self.db.set_read_only(b);
        self.model_next_tid += 1;
        if self.registered {
            let status = if !b && before != CollectionState::Active { "ignored" } else { "ok" };
            let ans = self.answer(status, 0).await;
            self.lines.push((format!("dbro {}", b as u8), ans));
        } else {
            // an unregistered handle only sees the shared database flag: in the model that is the first half of dbSetRo;
            // not compared (the model would also run the collection half)
            self.model_next_tid -= 1;
            self.lines.push(("state".into(), "skip".into()));
        }
        self.hit("op:dbro");
        self.after_event();
    }

    async fn sweep(&mut self) -> Result<(), String> {
        for api in GUARDED {
            let i = self.spawn(api)?;
            self.run(i).await?;
            if self.slots[i].fut.is_some() {
                // parked behind a live future of the case: leave it queued
                continue;
            }
        }
        for api in ["create_existing", "open_existing"] {
            let i = self.spawn(api)?;
            self.run(i).await?;
        }
        Ok(())
    }

    /// Everything is dropped, the collection is reopened through the same database.
    async fn reopen(&mut self) -> Result<(), String> {
        // an injected fault that the case did not consume must not hit the recovery itself
        *self.store.trace.fail_put_suffix.lock().unwrap() = None;
        *self.store.trace.fail_del_suffix.lock().unwrap() = None;
        for i in 0..self.slots.len() {
            self.drop_slot(i).await?;
        }
        if self.db.is_read_only() {
            self.dbro(false).await;
        }
        let st = self.coll.state();
        if st == CollectionState::Active && self.coll.stats().read_only {
            // user-level read-only on a live handle is reversible (open_collection returns this same handle)
            self.setro(false).await;
        }
        if st == CollectionState::Deleting && !self.delete_returned_ok {
            // a cancelled delete: a retry takes over (tombstone + DELETING handle are still registered)
            let r = self.db.delete_collection(COLL).await;
            self.take_acts();
            if r.is_err() {
                self.fail("delete:retry-failed", "retrying a cancelled delete_collection failed", "Ok", &format!("{r:?}"));
                return Ok(());
            }
            self.delete_returned_ok = true;
        }
        if self.delete_returned_ok {
            let left = list_prefix(&self.mem).await;
            if !left.is_empty() {
                self.fail("delete:leftover-at-end", "objects exist under the prefix of a deleted collection at the end of the case", "empty prefix", &left.join(","));
            }
            let r = self.db.open_collection(COLL.to_string(), async |_| Ok(())).await;
            if r.is_ok() {
                self.fail("delete:reopenable", "a deleted collection can be opened", "NotFound", "Ok");
            }
            self.take_acts();
            self.hit("reopen:deleted");
            return Ok(());
        }
        let c2 = match self
            .db
            .open_collection(COLL.to_string(), async |c| {
                c.create_btree_index_nx(&["a"]).await?;
                c.create_bm25_index_nx(&["txt"]).await?;
                Ok(())
            })
            .await
        {
            Ok(c) => c,
            Err(e) => {
                self.fail("reopen:failed", "reopening the collection after the case failed", "Ok", &format!("{e:?} (old handle {})", state_name(st)));
                return Ok(());
            }
        };
        self.take_acts();
        if st != CollectionState::Active && Arc::ptr_eq(&c2, &self.coll) {
            self.fail("reopen:same-retired-handle", "open_collection returned the retired handle", "a fresh handle", state_name(st));
        }
        if c2.state() != CollectionState::Active {
            self.fail("reopen:not-active", "the reopened handle is not ACTIVE", "active", state_name(c2.state()));
        }
        // ids = stored documents
        let ids: BTreeSet<u64> = c2.ids().into_iter().collect();
        let stored: BTreeSet<u64> = list_prefix(&self.mem)
            .await
            .iter()
            .filter_map(|p| p.strip_prefix(&format!("{PREFIX}data/")).and_then(|r| r.strip_suffix(".cbor")).and_then(|n| n.parse().ok()))
            .collect();
        if ids != stored {
            self.fail("reopen:ids-vs-docs", "after reopen the id set differs from the stored documents", &format!("{stored:?}"), &format!("{ids:?}"));
        }
        // index = documents (B-tree on `a`)
        let mut by_a: BTreeMap<u64, BTreeSet<u64>> = BTreeMap::new();
        for id in &ids {
            match c2.get_as::<Doc>(*id).await {
                Ok(d) => {
                    by_a.entry(d.a).or_default().insert(*id);
                }
                Err(e) => self.fail("reopen:get", "a listed id is not fetchable after reopen", "Ok", &format!("id {id}: {e:?}")),
            }
        }
        for v in 0..=10u64 {
            let got: BTreeSet<u64> = c2
                .query_all_ids(Filter::Field(("a".to_string(), RangeQuery::Eq(Fv::U64(v)))))
                .await
                .map_err(|e| format!("query: {e:?}"))?
                .into_iter()
                .collect();
            let exp = by_a.get(&v).cloned().unwrap_or_default();
            if got != exp {
                let key = if self.slots.iter().any(|s| s.api == "open_cb" && s.dropped) {
                    "reopen:index-vs-docs:dropped-open-callback"
                } else if self.slots.iter().any(|s| s.api == "open_cb_fail") {
                    "reopen:index-vs-docs:failed-open-callback"
                } else {
                    "reopen:index-vs-docs"
                };
                self.fail(key, "after reopen the B-tree index on `a` disagrees with the stored documents", &format!("a={v}: {exp:?}"), &format!("{got:?}"));
                break;
            }
        }
        // a new write is accepted
        match c2.add_from(&Doc { _id: 0, a: 8, txt: "delta".into() }).await {
            Ok(id) => {
                if ids.contains(&id) || c2.get(id).await.is_err() {
                    self.fail("reopen:add", "the document added after reopen reuses an id or is not fetchable", "fresh id, fetchable", &format!("id {id}"));
                }
            }
            Err(e) => self.fail("reopen:add-rejected", "a write on the reopened handle was rejected", "Ok", &format!("{e:?}")),
        }
        // the old handle is still silent
        self.take_acts();
        if st != CollectionState::Active {
            let before = list_prefix(&self.mem).await;
            let old = self.coll.clone();
            let _ = old.add_from(&Doc { _id: 0, a: 1, txt: "zombie".into() }).await;
            let _ = old.flush(anda_db::unix_ms()).await;
            old.set_read_only(false);
            let _ = old.save_extension("z".into(), Fv::U64(0)).await;
            let after = list_prefix(&self.mem).await;
            let (_, m, _) = self.take_acts();
            if before != after || m > 0 {
                self.fail("reopen:old-handle-wrote", "the retired handle wrote after the collection was reopened", "no mutation", &format!("{m} mutation(s)"));
            }
        }
        self.take_acts();
        self.hit("reopen:ok");
        Ok(())
    }
}

struct CaseOut {
    lines: Vec<(String, String)>,
    fails: Vec<Fail>,
    nontrivial: bool,
    hist: BTreeMap<String, u64>,
    polls: usize,
    /// polls the first / second slot needed to complete (probe runs)
    first_slot_polls: usize,
    second_slot_polls: usize,
}

async fn run_case(ops: &[String]) -> Result<CaseOut, String> {
    let mut w: Option<World> = None;
    for op in ops {
        let t: Vec<&str> = op.split(' ').filter(|s| !s.is_empty()).collect();
        if let ["setup", n, f, p] = t.as_slice() {
            w = Some(World::setup(n.parse().map_err(|_| "bad setup")?, *f == "1", *p == "1").await?);
            continue;
        }
        let Some(w) = w.as_mut() else { return Err("case must start with setup".into()) };
        match t.as_slice() {
            ["op", api] => {
                w.spawn(api)?;
            }
            ["call", api] => {
                let i = w.spawn(api)?;
                w.run(i).await?;
            }
            ["poll", i] => {
                w.poll(i.parse().map_err(|_| "bad slot")?).await?;
            }
            ["settle"] => {
                // let every live future finish (two passes: a future may wait for a later one)
                for _ in 0..3 {
                    for i in 0..w.slots.len() {
                        w.run(i).await?;
                    }
                }
            }
            ["run", i] => w.run(i.parse().map_err(|_| "bad slot")?).await?,
            ["drop", i] => w.drop_slot(i.parse().map_err(|_| "bad slot")?).await?,
            ["setro", b] => w.setro(*b == "1").await,
            ["dbro", b] => w.dbro(*b == "1").await,
            ["fault", s] => *w.store.trace.fail_put_suffix.lock().unwrap() = Some(s.to_string()),
            ["fault_del", s] => *w.store.trace.fail_del_suffix.lock().unwrap() = Some(s.to_string()),
            ["sweep"] => w.sweep().await?,
            ["reopen"] => w.reopen().await?,
            _ => return Err(format!("bad op: {op}")),
        }
    }
    let Some(mut w) = w else { return Err("empty case".into()) };
    // end of case: a deleted collection stays empty whatever was called afterwards
    if w.delete_returned_ok {
        let left = list_prefix(&w.mem).await;
        if !left.is_empty() {
            w.fail("delete:recreated", "objects exist under the prefix of a deleted collection at the end of the case", "empty prefix", &left.join(","));
        }
    }
    let first_slot_polls = w.slots.first().map(|s| s.polls).unwrap_or(0);
    let second_slot_polls = w.slots.get(1).map(|s| s.polls).unwrap_or(0);
    Ok(CaseOut {
        nontrivial: w.total_muts > 0 && (w.rejected > 0 || w.drops > 0),
        lines: std::mem::take(&mut w.lines),
        fails: std::mem::take(&mut w.fails),
        hist: std::mem::take(&mut w.hist),
        polls: w.polls,
        first_slot_polls,
        second_slot_polls,
    })
}

fn exec(rt: &tokio::runtime::Runtime, ops: &[String]) -> Result<Result<CaseOut, String>, ()> {
    std::panic::catch_unwind(std::panic::AssertUnwindSafe(|| rt.block_on(run_case(ops)))).map_err(|_| ())
}

/// Runs one case against implementation, oracle and model; returns (#oracle failures, #disagreements).
fn check_case(rt: &tokio::runtime::Runtime, name: &str, ops: &[String], model: &mut Option<ModelProc>, rep: &mut Report, record: bool) -> (usize, usize) {
    let out = match exec(rt, ops) {
        Ok(Ok(o)) => o,
        Ok(Err(e)) => {
            if record {
                rep.hit("case_error");
                if rep.notes.len() < 10 {
                    rep.notes.push(format!("case {name} could not run: {e}"));
                }
            }
            return (0, 0);
        }
        Err(()) => {
            if record {
                rep.oracle_failure("panic", "the implementation panicked", ops, "no panic", "panic");
            }
            return (1, 0);
        }
    };
    let mut nd = 0;
    if std::env::var("VH_C06_DUMP").is_ok() {
        for (req, ans) in &out.lines {
            eprintln!("  {req:40} => {ans}");
        }
        for f in &out.fails {
            eprintln!("  FAIL {f:?}");
        }
    }
    if let Some(m) = model.as_mut() {
        let mut ctx: Vec<String> = vec![];
        let mut kinds: BTreeMap<String, String> = BTreeMap::new();
        for (req, ans) in &out.lines {
            ctx.push(req.clone());
            let got = m.ask(req);
            if record {
                rep.model_compared += 1;
            }
            if record {
                // which branch of the model answered: thread kind × outcome (× where a pending poll was parked)
                let mut it = req.split(' ');
                let verb = it.next().unwrap_or("");
                let status = got.split(' ').next().unwrap_or("").to_string();
                match verb {
                    "spawn" => {
                        kinds.insert(got.trim_start_matches('t').to_string(), it.next().unwrap_or("?").to_string());
                    }
                    "poll" | "drop" => {
                        let tid = it.next().unwrap_or("");
                        let kind = kinds.get(tid).cloned().unwrap_or_else(|| "sync".into());
                        let lc = got.split(' ').find_map(|x| x.strip_prefix("lc=")).unwrap_or("?");
                        let key = if verb == "drop" {
                            format!("model:{kind}:dropped:lc-after={lc}")
                        } else if status == "pending" {
                            format!("model:{kind}:pending:{}", it.next().unwrap_or("?"))
                        } else {
                            format!("model:{kind}:{status}")
                        };
                        rep.hit(&key);
                    }
                    "setro" | "dbro" => rep.hit(&format!("model:{verb}{}:{status}", it.next().unwrap_or(""))),
                    _ => {}
                }
            }
            let same = if let Some(rest) = ans.strip_prefix("* ") {
                got.split_once(' ').map(|x| x.1) == Some(rest)
            } else if let Some(rest) = ans.strip_prefix('^') {
                // `^<prefix> <rest>`: the status only has to start with <prefix>
                match (rest.split_once(' '), got.split_once(' ')) {
                    (Some((pre, r1)), Some((st, r2))) => st.starts_with(pre) && r1 == r2,
                    _ => false,
                }
            } else {
                &got == ans
            };
            if ans != "skip" && !same {
                nd += 1;
                if record {
                    let mut c = ops.to_vec();
                    c.push("# model requests:".into());
                    c.extend(ctx.iter().cloned());
                    rep.disagreement(&format!("case {name}: answer to `{req}`"), &c, &got, ans);
                }
                break;
            }
        }
    }
    if record {
        for f in &out.fails {
            // one replay per failing call shape (key); repeats are only counted, so that a second, different
            // failure can never be pushed out of the report by many instances of the first
            if rep.oracle_failures.iter().any(|o| o["key"].as_str() == Some(f.key.as_str())) {
                rep.hit(&format!("oracle_repeat:{}", f.key));
            } else {
                rep.oracle_failure(&f.key, &f.what, ops, &f.expected, &f.observed);
            }
        }
        for (k, v) in &out.hist {
            rep.hit_n(k, *v);
        }
        rep.hit_n("polls", out.polls as u64);
        rep.case(&ops.join("|"), out.nontrivial);
    }
    (out.fails.len(), nd)
}

const SETUPS: [&str; 3] = ["setup 3 0 0", "setup 3 1 0", "setup 4 1 1"];

fn gen_random(r: &mut Rng) -> Vec<String> {
    let mut ops = vec![r.pick(&SETUPS).to_string()];
    // one future per lock class at a time: a future parked on an inner lock (per-document stripe, extension gate)
    // *after* admission is indistinguishable, from outside, from one parked on the operation gate
    let mut classes: Vec<Vec<&str>> = vec![vec!["add"], vec!["update:1"], vec!["remove:2"], vec!["save_ext", "remove_ext"], vec!["flush", "compact_btree", "compact_bm25", "reconcile"]];
    let transitions = ["close", "delete_collection", "close_collection", "setro1", "dbro1", "poison"];
    let n_before = r.usize(3); // 0..2 operations in flight before the transition
    let mut live: Vec<usize> = vec![];
    let mut next = 0usize;
    for _ in 0..n_before {
        if classes.is_empty() {
            break;
        }
        let ci = r.usize(classes.len());
        let cl = classes.remove(ci);
        let api = *r.pick(&cl);
        ops.push(format!("op {api}"));
        for _ in 0..r.usize(4) {
            ops.push(format!("poll {next}"));
        }
        live.push(next);
        next += 1;
    }
    if r.chance(1, 12) {
        ops.push(format!("fault {}", r.pick(&["ids.cbor", "meta.cbor", ".cbor"])));
    }
    match *r.pick(&transitions) {
        "setro1" => ops.push("setro 1".into()),
        "dbro1" => ops.push("dbro 1".into()),
        "poison" => {
            ops.push("op add".into());
            for _ in 0..1 + r.usize(3) {
                ops.push(format!("poll {next}"));
            }
            ops.push(format!("drop {next}"));
            next += 1;
        }
        t => {
            ops.push(format!("op {t}"));
            for _ in 0..r.usize(3) {
                ops.push(format!("poll {next}"));
            }
            live.push(next);
            next += 1;
        }
    }
    // 0..2 operations queued behind the transition
    for _ in 0..r.usize(3) {
        if classes.is_empty() {
            break;
        }
        let ci = r.usize(classes.len());
        let cl = classes.remove(ci);
        let api = *r.pick(&cl);
        ops.push(format!("op {api}"));
        if r.chance(1, 2) {
            ops.push(format!("poll {next}"));
        }
        live.push(next);
        next += 1;
    }
    // random schedule: poll / run / drop
    let steps = r.usize(14);
    for _ in 0..steps {
        if live.is_empty() {
            break;
        }
        let i = *r.pick(&live);
        match r.below(10) {
            0 => ops.push(format!("drop {i}")),
            1 | 2 => ops.push(format!("run {i}")),
            3 => ops.push(format!("setro {}", r.below(2))),
            4 => ops.push(format!("dbro {}", r.below(2))),
            _ => ops.push(format!("poll {i}")),
        }
    }
    // let everything finish in a random order, then call every API on the retained handle
    let mut order = live.clone();
    r.shuffle(&mut order);
    for i in order {
        ops.push(format!("run {i}"));
    }
    ops.push("settle".into());
    ops.push("sweep".into());
    if r.chance(1, 2) {
        ops.push("setro 0".into());
        ops.push("dbro 0".into());
        ops.push("sweep".into());
    }
    ops.push("reopen".into());
    ops
}

fn main() {
    let args = Args::parse();
    let mut rep = Report::new(
        "C06",
        &args,
        "case = real AndaDB + Collection over a recording store whose every backend call is Pending once; futures are polled by hand. \
         Families: (A) every mutating API x every poll count k at which the future is dropped (exhaustive), then every API on the retained handle, then reopen; \
         (B) every transition (read-only, db read-only, close, close_collection, delete_collection, poison by cancellation / injected flush fault) then every API, re-enable attempts, reopen; \
         (C) random interleavings of 0-2 in-flight + a transition + 0-2 queued operations under random poll/drop schedules. \
         distinct = distinct op list; non-trivial = at least one backend mutation under the prefix was performed by an API future and at least one call was rejected or one future dropped",
    );
    let rt = tokio::runtime::Builder::new_current_thread().enable_all().build().unwrap();
    let mut model = ModelProc::from_args(&args);

    // the model kind used for each API must be what the generated skeleton says
    if let Some(m) = model.as_mut() {
        for (method, want) in [
            ("add", "self guarded gate=s"), ("update", "self guarded gate=s"), ("remove", "self guarded gate=s"),
            ("save_extension", "self guarded gate=s"), ("remove_extension", "self guarded gate=s"),
            ("flush", "self guarded gate=x"), ("compact_btree_index", "self guarded gate=x"), ("compact_bm25_index", "self guarded gate=x"),
            ("reconcile_storage", "self guarded gate=x"), ("close", "self close gate=x"), ("drop_data", "self drop gate=x"),
            ("add_from", "self delegates gate=-"), ("create_btree_index", "mutself checks-first gate=-"),
        ] {
            let a = m.ask(&format!("skel {method}"));
            rep.model_compared += 1;
            if !a.starts_with(want) || !a.ends_with("ok=1") {
                rep.disagreement("guard skeleton class of a Collection method", &[format!("skel {method}")], &a, &format!("{want} … ok=1"));
            }
        }
    }

    let mut cases: Vec<(String, Vec<String>)> = vec![];
    if let Some(p) = &args.replay {
        let ops: Vec<String> = read_replay(p).into_iter().filter(|l| !l.starts_with('#')).take_while(|l| !l.starts_with("# model")).collect();
        cases.push(("replay".into(), ops));
    } else {
        if let Some(dir) = &args.corpus {
            cases.extend(read_corpus(dir));
        }
        // (A) cancel at every poll count
        let setups: &[&str] = if args.thorough() || args.focus.is_some() { &SETUPS } else { &SETUPS[..2] };
        for setup in setups {
            for api in ALL_APIS {
                let probe = vec![setup.to_string(), format!("op {api}"), "run 0".to_string()];
                let n = match exec(&rt, &probe) {
                    Ok(Ok(o)) => o.first_slot_polls,
                    _ => 12,
                };
                rep.hit_n(&format!("polls-to-complete:{api}"), n as u64);
                for k in 0..=n {
                    let mut ops = vec![setup.to_string(), format!("op {api}")];
                    ops.extend((0..k).map(|_| "poll 0".to_string()));
                    ops.push("drop 0".into());
                    ops.push("sweep".into());
                    ops.push("reopen".into());
                    cases.push((format!("cancel:{api}:{k}"), ops));
                }
            }
        }
        // (B) transitions, then every API
        for setup in setups {
            for tr in ["setro 1", "dbro 1", "op close|run 0", "op close_collection|run 0", "op delete_collection|run 0",
                "op add|poll 0|poll 0|drop 0", "fault ids.cbor|op flush|run 0", "fault meta.cbor|op close|run 0", "fault ids.cbor|op close_collection|run 0",
                "op close|poll 0|drop 0|op close|run 1", "op delete_collection|poll 0|poll 0|poll 0|drop 0",
                "fault_del ids.cbor|op delete_collection|run 0", "fault_del ids.cbor|op delete_collection|run 0|op delete_collection|run 1",
                "op db_close|run 0", "op db_flush|run 0", "dbro 1|op db_close|run 0", "op close_collection|run 0|op db_close|run 1"] {
                let mut ops = vec![setup.to_string()];
                ops.extend(tr.split('|').map(|s| s.to_string()));
                ops.push("sweep".into());
                ops.push("setro 0".into());
                ops.push("dbro 0".into());
                ops.push("sweep".into());
                // … and the lifecycle calls themselves on the retained handle
                ops.push("call close".into());
                ops.push("call flush".into());
                ops.push("call close_collection".into());
                ops.push("call add".into());
                ops.push("reopen".into());
                cases.push((format!("transition:{tr}"), ops));
            }
        }
        // (E) queued at the transition: an exclusive holder is in flight, every entry point is parked on the gate behind it,
        //     then the transition begins, then the holder finishes (or is dropped = poison) and the queued call runs
        for setup in setups {
            for q in GUARDED {
                for tr in ["setro 1", "dbro 1", "op close|poll 2", "op close_collection|poll 2", "op delete_collection|poll 2|poll 2", "op db_close|poll 2", "POISON"] {
                    // reconcile_storage always reads the prefix: after one poll it is parked at the backend holding the exclusive gate
                    let mut ops = vec![setup.to_string(), "op reconcile".into(), "poll 0".into(), format!("op {q}"), "poll 1".into()];
                    if tr == "POISON" {
                        ops.push("drop 0".into());
                    } else {
                        ops.extend(tr.split('|').map(|s| s.to_string()));
                        ops.push("run 0".into());
                    }
                    ops.push("run 1".into());
                    ops.push("settle".into());
                    ops.push("sweep".into());
                    ops.push("reopen".into());
                    cases.push((format!("queued:{q}:{tr}"), ops));
                }
            }
        }
        // (E') close itself parked on the gate when a delete begins / the handle is poisoned: it must not flush
        for setup in setups {
            for q in ["close", "close_collection", "db_close"] {
                for tr in ["op delete_collection|poll 2|poll 2", "POISON", "op add|poll 2|poll 2|drop 2"] {
                    let mut ops = vec![setup.to_string(), "op reconcile".into(), "poll 0".into(), format!("op {q}"), "poll 1".into()];
                    if tr == "POISON" {
                        ops.push("drop 0".into());
                    } else {
                        ops.extend(tr.split('|').map(|s| s.to_string()));
                        ops.push("run 0".into());
                    }
                    ops.push("run 1".into());
                    ops.push("settle".into());
                    ops.push("sweep".into());
                    ops.push("reopen".into());
                    cases.push((format!("queued:{q}:{tr}"), ops));
                }
            }
        }
        // (D) the `&mut self` index methods inside the open callback, dropped at every poll count
        for setup in setups {
            let probe: Vec<String> = [*setup, "op close_collection", "run 0", "op open_cb", "run 1"].iter().map(|s| s.to_string()).collect();
            let n = match exec(&rt, &probe) {
                Ok(Ok(o)) => o.second_slot_polls,
                _ => 12,
            };
            rep.hit_n("polls-to-complete:open_cb", n as u64);
            for k in 0..=n {
                let mut ops: Vec<String> = [*setup, "op close_collection", "run 0", "op open_cb"].iter().map(|s| s.to_string()).collect();
                ops.extend((0..k).map(|_| "poll 1".to_string()));
                ops.push("drop 1".into());
                ops.push("sweep".into());
                ops.push("reopen".into());
                cases.push((format!("cancel:open_cb:{k}"), ops));
            }
        }
        // (C) random interleavings
        let n = args.budget(1500, 300000);
        for i in 0..n {
            let mut r = Rng::for_case(args.seed, i);
            cases.push((format!("gen{i}"), gen_random(&mut r)));
        }
    }
    for (name, ops) in &cases {
        let before = rep.oracle_failures.len();
        let (nf, _) = check_case(&rt, name, ops, &mut model, &mut rep, true);
        if nf > 0 && rep.oracle_failures.len() > before && args.replay.is_none() {
            let key = rep.oracle_failures[before]["key"].as_str().unwrap_or("").to_string();
            let small = shrink(
                ops.clone(),
                |cand| {
                    cand.first().is_some_and(|o| o.starts_with("setup"))
                        && matches!(exec(&rt, cand), Ok(Ok(o)) if o.fails.iter().any(|f| f.key == key))
                },
                120,
            );
            if let Ok(Ok(o)) = exec(&rt, &small)
                && let Some(f) = o.fails.iter().find(|f| f.key == key)
            {
                rep.oracle_failures[before] = json!({"key": f.key, "what": f.what, "ops": small, "expected": f.expected, "observed": f.observed, "case": name});
            }
        }
        if rep.samples.len() < 4 && (name.starts_with("gen") || name.starts_with("cancel:update")) {
            rep.sample(json!({"case": name, "ops": ops}));
        }
    }
    // branch coverage of the model under the correspondence run: every outcome of every thread kind the model can produce
    if model.is_some() && args.replay.is_none() {
        let mut want: Vec<String> = vec![];
        for k in ["mut-s", "mut-x", "mut-xp"] {
            for o in ["ok", "err", "rej:ro", "rej:state:closed", "rej:state:closing", "rej:state:deleted", "rej:state:deleting", "rej:state:poisoned",
                "pending:b", "pending:g", "dropped:lc-after=poisoned", "dropped:lc-after=active"] {
                want.push(format!("model:{k}:{o}"));
            }
        }
        for o in ["ok", "err", "rej:state:deleting", "rej:state:poisoned", "pending:b", "pending:g", "dropped:lc-after=poisoned", "dropped:lc-after=closing"] {
            want.push(format!("model:close:{o}"));
        }
        for o in ["ok", "err", "pending:b", "pending:g", "pending:o", "dropped:lc-after=deleting"] {
            want.push(format!("model:drop:{o}"));
        }
        for o in ["setro0:ok", "setro0:ignored", "setro1:ok", "dbro0:ok", "dbro0:ignored", "dbro1:ok"] {
            want.push(format!("model:{o}"));
        }
        let missing: Vec<String> = want.iter().filter(|k| !rep.histogram.contains_key(*k)).cloned().collect();
        rep.hit_n("model-branches:expected", want.len() as u64);
        rep.hit_n("model-branches:visited", (want.len() - missing.len()) as u64);
        for k in missing {
            rep.hit_n(&format!("model-branches:UNVISITED {k}"), 1);
        }
    }
    rep.write(&args);
}
