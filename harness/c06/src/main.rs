//! Harness for property C06 (stub: not built yet).
fn main() {
    let a = vh_common::Args::parse();
    let r = vh_common::Report::new("C06", &a, "stub");
    r.write(&a);
}
