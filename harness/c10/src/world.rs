//! The real index, its recording object store, the oracle, and the execution of one op line.

use crate::ops::*;
use anda_db_btree::{BTreeConfig, BTreeError, BTreeIndex, BTreeMetadata, BucketObject};
use serde::{Deserialize, Serialize};
use std::cell::RefCell;
use std::collections::{BTreeMap, BTreeSet, HashMap};
use vh_common::join;

pub type Idx = BTreeIndex<u64, i64>;
pub type Oracle = BTreeMap<i64, BTreeSet<u64>>;
pub type SIdx = BTreeIndex<u64, String>;

pub fn block_on<F: std::future::Future>(f: F) -> F::Output {
    let mut f = std::pin::pin!(f);
    let waker = std::task::Waker::noop();
    let mut cx = std::task::Context::from_waker(waker);
    loop {
        if let std::task::Poll::Ready(v) = f.as_mut().poll(&mut cx) {
            return v;
        }
    }
}

// ---------------------------------------------------------------------------------------------
// durable store
// ---------------------------------------------------------------------------------------------

#[derive(Clone, Default)]
pub struct Store {
    pub objs: BTreeMap<(u32, u64), Vec<u8>>,
    pub meta: Option<Vec<u8>>,
}

#[derive(Clone)]
pub enum Wr {
    Put(u32, u64, Vec<u8>),
    Meta(Vec<u8>),
    Del(u32, u64),
}

impl Store {
    pub fn apply(&mut self, w: &Wr) {
        match w {
            Wr::Put(b, g, d) => {
                self.objs.insert((*b, *g), d.clone());
            }
            Wr::Meta(d) => self.meta = Some(d.clone()),
            Wr::Del(b, g) => {
                self.objs.remove(&(*b, *g));
            }
        }
    }
    pub fn load(&self) -> Option<Result<Idx, String>> {
        let meta = self.meta.as_ref()?;
        let r = block_on(Idx::load_all(&meta[..], async |o: BucketObject| Ok(self.objs.get(&(o.bucket_id, o.generation)).cloned())));
        Some(r.map_err(|e| format!("{e:?}")))
    }
}

#[derive(Serialize, Deserialize)]
struct MetaWrap {
    metadata: BTreeMetadata,
}

#[derive(Serialize, Deserialize)]
struct BucketDec {
    p: HashMap<i64, (u32, u64, Vec<u64>)>,
}

fn dec_meta(d: &[u8]) -> BTreeMetadata {
    let w: MetaWrap = cbor2::from_reader(d).expect("metadata blob decodes");
    w.metadata
}
fn enc_meta(m: BTreeMetadata) -> Vec<u8> {
    let mut v = Vec::new();
    cbor2::to_writer(&MetaWrap { metadata: m }, &mut v).expect("encode metadata");
    v
}
/// `(key, posting_entry_size)` of every posting of a bucket blob: the estimate `compact_buckets` packs by
fn bucket_sizes(d: &[u8]) -> Vec<(i64, usize)> {
    let b: BucketDec = cbor2::from_reader(d).expect("bucket blob decodes");
    b.p.iter().map(|(k, p)| (*k, cbor2::serialized_size(&(k, p)).map(|n| n as usize).unwrap_or(0) + 2)).collect()
}

fn dec_bucket(d: &[u8]) -> BTreeMap<i64, Vec<u64>> {
    let b: BucketDec = cbor2::from_reader(d).expect("bucket blob decodes");
    b.p.into_iter().map(|(k, (_, _, ids))| (k, ids)).collect()
}
fn enc_bucket(bucket: u32, m: &BTreeMap<i64, Vec<u64>>) -> Vec<u8> {
    let b = BucketDec { p: m.iter().map(|(k, ids)| (*k, (bucket, 1u64, ids.clone()))).collect() };
    let mut v = Vec::new();
    cbor2::to_writer(&b, &mut v).expect("encode bucket");
    v
}

fn ids_str(v: &[u64]) -> String {
    if v.is_empty() { "-".into() } else { join(v.iter(), ",") }
}

fn wr_tokens(w: &Wr) -> String {
    match w {
        Wr::Put(b, g, d) => {
            let m = dec_bucket(d);
            let p = if m.is_empty() { "-".to_string() } else { m.iter().map(|(k, ids)| format!("{k}={}", ids_str(ids))).collect::<Vec<_>>().join(";") };
            format!("P {b} {g} {p}")
        }
        Wr::Meta(d) => {
            let m = dec_meta(d);
            let mf = if m.buckets.is_empty() { "-".to_string() } else { m.buckets.iter().map(|(b, g)| format!("{b}={g}")).collect::<Vec<_>>().join(",") };
            format!("M {} {} {} {} {} {}", m.stats.version, m.stats.max_bucket_id, m.stats.insert_count, m.stats.delete_count, m.stats.query_count, mf)
        }
        Wr::Del(b, g) => format!("D {b} {g}"),
    }
}

/// The objects a loader asks for, by the documented rule (manifest, or legacy probe).
fn referenced(m: &BTreeMetadata) -> Vec<(u32, u64)> {
    if m.buckets.is_empty() { (0..=m.stats.max_bucket_id).map(|i| (i, 0)).collect() } else { m.buckets.iter().map(|(b, g)| (*b, *g)).collect() }
}

/// Independent reading of the documented load rule, used only to re-base the expected snapshot
/// after the harness itself rewrote the store (`legacy`, `stale`): ascending bucket id, a later
/// copy of a key replaces an earlier one, an empty posting deletes it.
fn rule_load(s: &Store) -> Oracle {
    let mut acc: BTreeMap<i64, Vec<u64>> = BTreeMap::new();
    if let Some(md) = &s.meta {
        let m = dec_meta(md);
        for o in referenced(&m) {
            if let Some(d) = s.objs.get(&o) {
                for (k, ids) in dec_bucket(d) {
                    if ids.is_empty() {
                        acc.remove(&k);
                    } else {
                        acc.insert(k, ids);
                    }
                }
            }
        }
    }
    acc.into_iter().map(|(k, v)| (k, v.into_iter().collect())).collect()
}

// ---------------------------------------------------------------------------------------------
// dumps
// ---------------------------------------------------------------------------------------------

/// `(raw, sorted)` contents through the public API (`keys` + `query_with`); `Err` if the three
/// coordinated maps disagree with each other.
pub fn dump(idx: &Idx) -> Result<(String, String), String> {
    let keys = idx.keys(None, None);
    let mut raw = Vec::new();
    let mut sorted = Vec::new();
    for k in &keys {
        match idx.query_with(k, |p| Some(p.clone())) {
            None => return Err(format!("key {k} listed by keys() has no posting")),
            Some(p) => {
                if p.is_empty() {
                    return Err(format!("key {k} has an empty posting"));
                }
                raw.push(format!("{k}={}", ids_str(&p)));
                let mut q = p.clone();
                q.sort_unstable();
                sorted.push(format!("{k}={}", ids_str(&q)));
            }
        }
    }
    if idx.len() != keys.len() {
        return Err(format!("len() = {} but keys() lists {}", idx.len(), keys.len()));
    }
    let f = |v: Vec<String>| if v.is_empty() { "-".to_string() } else { v.join(";") };
    Ok((f(raw), f(sorted)))
}

pub fn dump_oracle(o: &Oracle) -> String {
    if o.is_empty() {
        return "-".into();
    }
    o.iter().map(|(k, s)| format!("{k}={}", join(s.iter(), ","))).collect::<Vec<_>>().join(";")
}

// ---------------------------------------------------------------------------------------------
// world
// ---------------------------------------------------------------------------------------------

pub struct World {
    pub unique: bool,
    pub overload: usize,
    pub idx: Idx,
    pub oracle: Oracle,
    pub store: Store,
    /// oracle contents at the last committed flush
    pub committed: Oracle,
    pub now: u64,
    /// the string-keyed index (prefix queries) and its oracle
    pub sidx: SIdx,
    pub soracle: BTreeMap<String, BTreeSet<u64>>,
    /// `compact_buckets` rebuilt the bucket table and nothing was mutated since: the next flush shows its bins
    pub compacted: bool,
}

pub fn hex_str(s: &str) -> String {
    if s.is_empty() { "-".into() } else { vh_common::hex(s.as_bytes()) }
}

fn unhex(h: &str) -> Result<String, String> {
    if h == "-" {
        return Ok(String::new());
    }
    if h.len() % 2 != 0 {
        return Err("odd hex length".into());
    }
    let bytes: Result<Vec<u8>, _> = (0..h.len() / 2).map(|i| u8::from_str_radix(&h[2 * i..2 * i + 2], 16)).collect();
    String::from_utf8(bytes.map_err(|e| e.to_string())?).map_err(|e| e.to_string())
}

#[derive(Default)]
pub struct StepObs {
    pub what: String,
    pub model_line: Option<String>,
    pub impl_raw: String,
    pub oracle_violation: Option<(String, String, String, String)>,
    pub hits: Vec<String>,
    pub mutated: bool,
    pub answered: bool,
    pub prefixes_loaded: u64,
}

fn obs(what: &str, line: &str, raw: String) -> StepObs {
    StepObs { what: what.into(), model_line: Some(line.into()), impl_raw: raw, hits: vec![format!("op:{what}")], ..Default::default() }
}

impl StepObs {
    fn expect(mut self, key: &str, what: &str, expected: &str, observed: &str) -> Self {
        if self.oracle_violation.is_none() && expected != observed {
            self.oracle_violation = Some((key.into(), what.into(), expected.into(), observed.into()));
        }
        self
    }
}

fn new_index(unique: bool, overload: usize) -> Idx {
    Idx::new("c10".into(), Some(BTreeConfig { bucket_overload_size: overload, allow_duplicates: !unique }))
}

fn err_name(e: &BTreeError) -> &'static str {
    match e {
        BTreeError::AlreadyExists { .. } => "err:exists",
        BTreeError::NotFound { .. } => "err:notfound",
        BTreeError::Serialization { .. } => "err:invalid",
        BTreeError::Generic { .. } => "err:state",
    }
}

/// oracle: does key `k` hold an id other than `d` (and not `d` itself)?
fn conflict(o: &Oracle, unique: bool, d: u64, k: i64) -> bool {
    unique && o.get(&k).is_some_and(|s| !s.contains(&d))
}

fn o_insert(o: &mut Oracle, d: u64, k: i64) -> bool {
    o.entry(k).or_default().insert(d)
}
fn o_remove(o: &mut Oracle, d: u64, k: i64) -> bool {
    let mut gone = false;
    let mut r = false;
    if let Some(s) = o.get_mut(&k) {
        r = s.remove(&d);
        gone = s.is_empty();
    }
    if gone {
        o.remove(&k);
    }
    r
}

struct FlushRun {
    writes: Vec<Wr>,
    /// number of bucket PUTs before the metadata PUT (or before the failure)
    nb: usize,
    result: Result<bool, String>,
}

impl World {
    fn real_flush(&mut self, fail_at: Option<usize>) -> FlushRun {
        self.now += 1;
        let log: RefCell<Vec<Wr>> = RefCell::new(Vec::new());
        // exactly the `fail_at`-th writer invocation fails (whatever the code does afterwards)
        let calls = std::cell::Cell::new(0usize);
        let res = block_on(self.idx.flush_owned_with(
            self.now,
            |data: Vec<u8>| {
                let fail = fail_at == Some(calls.get());
                calls.set(calls.get() + 1);
                if !fail {
                    log.borrow_mut().push(Wr::Meta(data));
                }
                std::future::ready(if fail { Err("injected metadata write failure".into()) } else { Ok(()) })
            },
            |o: BucketObject, data: Vec<u8>| {
                let fail = fail_at == Some(calls.get());
                calls.set(calls.get() + 1);
                if !fail {
                    log.borrow_mut().push(Wr::Put(o.bucket_id, o.generation, data));
                }
                std::future::ready(if fail { Err("injected bucket write failure".into()) } else { Ok(()) })
            },
        ));
        let mut writes = log.into_inner();
        let nb = writes.iter().filter(|w| matches!(w, Wr::Put(..))).count();
        let result = match res {
            Ok(out) => {
                for o in &out.obsolete {
                    writes.push(Wr::Del(o.bucket_id, o.generation));
                }
                Ok(out.saved)
            }
            Err(e) => Err(format!("{e:?}")),
        };
        FlushRun { writes, nb, result }
    }

    /// `load_all` on the store after the first `j` writes; `(raw, sorted)` or `nometa`.
    fn load_prefix(&self, writes: &[Wr], j: usize) -> Result<(String, String), String> {
        let mut s = self.store.clone();
        for w in &writes[..j] {
            s.apply(w);
        }
        match s.load() {
            None => Ok(("nometa".into(), "nometa".into())),
            Some(Err(e)) => Err(format!("load_all failed: {e}")),
            Some(Ok(idx)) => dump(&idx),
        }
    }

    /// reload the live index from the store (fresh index when nothing was ever committed)
    fn reload_live(&mut self) -> Result<(), String> {
        match self.store.load() {
            None => {
                self.idx = new_index(self.unique, self.overload);
                self.oracle.clear();
                self.committed.clear();
                Ok(())
            }
            Some(Err(e)) => Err(format!("load_all failed: {e}")),
            Some(Ok(idx)) => {
                self.idx = idx;
                self.oracle = self.committed.clone();
                Ok(())
            }
        }
    }
}

pub fn step(w: &mut Option<World>, line: &str) -> Result<Vec<StepObs>, String> {
    let t: Vec<&str> = line.split(' ').filter(|s| !s.is_empty()).collect();
    if t.is_empty() {
        return Err("empty line".into());
    }
    if t[0] == "new" {
        if t.len() != 3 {
            return Err("new U OV".into());
        }
        let unique = t[1] == "1";
        let overload: usize = t[2].parse().map_err(|_| "overload")?;
        *w = Some(World {
            unique,
            overload,
            idx: new_index(unique, overload),
            oracle: Oracle::new(),
            store: Store::default(),
            committed: Oracle::new(),
            now: 1000,
            sidx: SIdx::new("c10s".into(), Some(BTreeConfig { bucket_overload_size: 64, allow_duplicates: true })),
            soracle: BTreeMap::new(),
            compacted: false,
        });
        let mut o = obs("new", &format!("new {}", unique as u8), "ok".into());
        o.hits.push(format!("cfg:unique={}", unique as u8));
        o.hits.push(format!("cfg:overload={overload}"));
        return Ok(vec![o]);
    }
    let w = w.as_mut().ok_or("first line must be `new U OV`")?;
    if matches!(t[0], "ins" | "rem" | "insa" | "rema" | "upd" | "reload" | "legacy" | "stale") {
        w.compacted = false;
    }
    w.now += 1;
    let now = w.now;
    let int = |s: &str| s.parse::<i64>().map_err(|e| format!("{s}: {e}"));
    let nat = |s: &str| s.parse::<u64>().map_err(|e| format!("{s}: {e}"));
    let arity = |n: usize| if t.len() == n { Ok(()) } else { Err(format!("{}: expected {} tokens", t[0], n)) };
    match t[0] {
        "ins" => {
            arity(3)?;
            let (d, k) = (nat(t[1])?, int(t[2])?);
            let raw = match w.idx.insert(d, k, now) {
                Ok(b) => format!("ok:{}", b as u8),
                Err(e) => err_name(&e).to_string(),
            };
            let expected = if conflict(&w.oracle, w.unique, d, k) { "err:exists".to_string() } else { format!("ok:{}", o_insert(&mut w.oracle, d, k) as u8) };
            let mut o = obs("ins", line, raw.clone());
            o.mutated = raw == "ok:1";
            o.hits.push(format!("ins:{raw}"));
            Ok(vec![o.expect("insert", "insert(id, key) return value", &expected, &raw)])
        }
        "rem" => {
            arity(3)?;
            let (d, k) = (nat(t[1])?, int(t[2])?);
            let raw = format!("{}", w.idx.remove(d, k, now) as u8);
            let expected = format!("{}", o_remove(&mut w.oracle, d, k) as u8);
            let mut o = obs("rem", line, raw.clone());
            o.mutated = raw == "1";
            o.hits.push(format!("rem:{raw}"));
            Ok(vec![o.expect("remove", "remove(id, key) return value", &expected, &raw)])
        }
        "insa" => {
            arity(3)?;
            let (d, l) = (nat(t[1])?, parse_ks(t[2])?);
            let raw = match w.idx.insert_array(d, l.clone(), now) {
                Ok(n) => format!("ok:{n}"),
                Err(e) => err_name(&e).to_string(),
            };
            let expected = if l.iter().any(|k| conflict(&w.oracle, w.unique, d, *k)) {
                "err:exists".to_string()
            } else {
                let mut n = 0;
                for k in &l {
                    n += o_insert(&mut w.oracle, d, *k) as usize;
                }
                format!("ok:{n}")
            };
            let mut o = obs("insa", line, raw.clone());
            o.mutated = raw.starts_with("ok:") && raw != "ok:0";
            o.hits.push(format!("insa:{}", if raw.starts_with("ok") { "ok" } else { &raw }));
            Ok(vec![o.expect("insert_array", "insert_array(id, keys) return value", &expected, &raw)])
        }
        "rema" => {
            arity(3)?;
            let (d, l) = (nat(t[1])?, parse_ks(t[2])?);
            let raw = format!("{}", w.idx.remove_array(d, l.clone(), now));
            let mut n = 0;
            for k in &l {
                n += o_remove(&mut w.oracle, d, *k) as usize;
            }
            let mut o = obs("rema", line, raw.clone());
            o.mutated = raw != "0";
            Ok(vec![o.expect("remove_array", "remove_array(id, keys) return value", &n.to_string(), &raw)])
        }
        "upd" => {
            arity(4)?;
            let (d, old, new) = (nat(t[1])?, parse_ks(t[2])?, parse_ks(t[3])?);
            let raw = match w.idx.batch_update(d, old.clone(), new.clone(), now) {
                Ok((r, i)) => format!("ok:{r},{i}"),
                Err(e) => err_name(&e).to_string(),
            };
            let olds: BTreeSet<i64> = old.into_iter().collect();
            let news: BTreeSet<i64> = new.into_iter().collect();
            let to_ins: Vec<i64> = news.difference(&olds).copied().collect();
            let to_rem: Vec<i64> = olds.difference(&news).copied().collect();
            let expected = if to_ins.iter().any(|k| conflict(&w.oracle, w.unique, d, *k)) {
                "err:exists".to_string()
            } else {
                let mut i = 0;
                for k in &to_ins {
                    i += o_insert(&mut w.oracle, d, *k) as usize;
                }
                let mut r = 0;
                for k in &to_rem {
                    r += o_remove(&mut w.oracle, d, *k) as usize;
                }
                format!("ok:{r},{i}")
            };
            let mut o = obs("upd", line, raw.clone());
            o.mutated = raw.starts_with("ok:") && raw != "ok:0,0";
            o.hits.push(format!("upd:{}", if raw.starts_with("ok") { "ok" } else { &raw }));
            Ok(vec![o.expect("batch_update", "batch_update(id, old, new) return value", &expected, &raw)])
        }
        "get" => {
            arity(2)?;
            let k = int(t[1])?;
            let got = w.idx.query_with(&k, |p| Some(p.clone()));
            let raw = match &got {
                None => "none".to_string(),
                Some(p) => format!("some:{}", ids_str(p)),
            };
            let sorted = match got {
                None => "none".to_string(),
                Some(mut p) => {
                    p.sort_unstable();
                    format!("some:{}", ids_str(&p))
                }
            };
            let expected = match w.oracle.get(&k) {
                None => "none".to_string(),
                Some(s) => format!("some:{}", join(s.iter(), ",")),
            };
            let mut o = obs("get", line, sorted.clone());
            o.answered = raw != "none";
            Ok(vec![o.expect("query_with", "query_with(key) posting (as a set)", &expected, &sorted)])
        }
        "len" => {
            arity(1)?;
            let raw = w.idx.len().to_string();
            let o = obs("len", line, raw.clone());
            Ok(vec![o.expect("len", "len()", &w.oracle.len().to_string(), &raw)])
        }
        "keys" => {
            arity(3)?;
            let c = if t[1] == "-" { None } else { Some(int(t[1])?) };
            let l = if t[2] == "-" { None } else { Some(nat(t[2])? as usize) };
            let raw = ks(&w.idx.keys(c, l));
            let exp: Vec<i64> = w.oracle.keys().copied().filter(|k| c.is_none_or(|c| *k > c)).take(l.unwrap_or(usize::MAX)).collect();
            let mut o = obs("keys", line, raw.clone());
            o.answered = raw != "-";
            Ok(vec![o.expect("keys", "keys(cursor, limit)", &ks(&exp), &raw)])
        }
        "stats" => {
            arity(1)?;
            let s = w.idx.stats();
            let raw = format!("{},{},{},{}", s.insert_count, s.delete_count, s.query_count, s.num_elements);
            let o = obs("stats", line, raw);
            let ne = s.num_elements.to_string();
            Ok(vec![o.expect("stats", "stats().num_elements", &w.oracle.len().to_string(), &ne)])
        }
        "rq" => {
            if t.len() < 5 {
                return Err("rq DIR N MODE QUERY".into());
            }
            let desc = match t[1] {
                "asc" => false,
                "desc" => true,
                _ => return Err("rq: asc|desc".into()),
            };
            let stop: Option<u64> = if t[2] == "-" { None } else { Some(nat(t[2])?) };
            let (odd, cnt) = match t[3] {
                "all" => (false, false),
                "odd" => (true, false),
                "cnt" => (false, true),
                _ => return Err("rq: all|odd|cnt".into()),
            };
            let mut pos = 4;
            let q = parse_q(&t, &mut pos)?;
            if pos != t.len() {
                return Err("rq: trailing tokens".into());
            }
            let mut calls = 0u64;
            let cb = |k: &i64, p: &Vec<u64>| {
                calls += 1;
                let conti = stop.is_none_or(|n| calls < n);
                let rt: Vec<(i64, u64)> = if cnt {
                    // fixed two-element sequence, independent of the posting order
                    vec![(*k, p.len() as u64), (*k, p.len() as u64 + 1000)]
                } else {
                    p.iter().filter(|d| !odd || **d % 2 == 1).map(|d| (*k, *d)).collect()
                };
                (conti, rt)
            };
            let res: Vec<(i64, u64)> = if desc { w.idx.range_query_rev_with(q.real(), cb) } else { w.idx.range_query_with(q.real(), cb) };
            let show = |v: &[(i64, u64)]| if v.is_empty() { "-".to_string() } else { v.iter().map(|(k, d)| format!("{k}:{d}")).collect::<Vec<_>>().join(",") };
            let raw = show(&res);
            // canonical for the oracle: ids sorted inside each run of one key (group order kept)
            let mut canon = res.clone();
            let mut i = if cnt { canon.len() } else { 0 };
            while i < canon.len() {
                let mut j = i;
                while j < canon.len() && canon[j].0 == canon[i].0 {
                    j += 1;
                }
                canon[i..j].sort_unstable();
                i = j;
            }
            let _ = raw;
            let mut o = obs("rq", line, show(&canon));
            o.answered = !res.is_empty();
            o.hits.push(format!("rq:{}{}", if desc { "desc" } else { "asc" }, if stop.is_some() { ":stop" } else { "" }));
            o.hits.push(format!("rq:depth={}", q.depth().min(65)));
            if q.depth() > 64 {
                // outside the property's quantifier (documented cap: empty answer); model only
                o.hits.push("rq:over_depth_cap".into());
                return Ok(vec![o]);
            }
            // oracle: the matching groups of the ordered map, first / last `max(n,1)` of them
            let groups: Vec<(i64, Vec<u64>)> = w.oracle.iter().filter(|(k, _)| q.selects(**k)).map(|(k, s)| (*k, s.iter().copied().collect())).collect();
            let take = stop.map(|n| (n.max(1) as usize).min(groups.len())).unwrap_or(groups.len());
            let sel: &[(i64, Vec<u64>)] = if desc { &groups[groups.len() - take..] } else { &groups[..take] };
            let exp: Vec<(i64, u64)> = if cnt {
                sel.iter().flat_map(|(k, ids)| [(*k, ids.len() as u64), (*k, ids.len() as u64 + 1000)]).collect()
            } else {
                sel.iter().flat_map(|(k, ids)| ids.iter().filter(|d| !odd || **d % 2 == 1).map(|d| (*k, *d))).collect()
            };
            Ok(vec![o.expect(
                if desc { "range_query_rev_with" } else { "range_query_with" },
                "range query answer (groups in key order, ids as sets, early stop after n callbacks)",
                &show(&exp),
                &show(&canon),
            )])
        }
        "sins" => {
            arity(3)?;
            let (d, k) = (nat(t[1])?, unhex(t[2])?);
            let raw = match w.sidx.insert(d, k.clone(), now) {
                Ok(b) => format!("ok:{}", b as u8),
                Err(e) => err_name(&e).to_string(),
            };
            let expected = format!("ok:{}", w.soracle.entry(k).or_default().insert(d) as u8);
            let mut o = obs("sins", line, raw.clone());
            o.mutated = raw == "ok:1";
            Ok(vec![o.expect("insert(String)", "insert(id, string key) return value", &expected, &raw)])
        }
        "srem" => {
            arity(3)?;
            let (d, k) = (nat(t[1])?, unhex(t[2])?);
            let raw = format!("{}", w.sidx.remove(d, k.clone(), now) as u8);
            let mut r = false;
            let mut gone = false;
            if let Some(s) = w.soracle.get_mut(&k) {
                r = s.remove(&d);
                gone = s.is_empty();
            }
            if gone {
                w.soracle.remove(&k);
            }
            let o = obs("srem", line, raw.clone());
            Ok(vec![o.expect("remove(String)", "remove(id, string key) return value", &format!("{}", r as u8), &raw)])
        }
        "pq" => {
            arity(4)?;
            let stop: Option<u64> = if t[1] == "-" { None } else { Some(nat(t[1])?) };
            let odd = match t[2] {
                "all" => false,
                "odd" => true,
                _ => return Err("pq: all|odd".into()),
            };
            let pre = unhex(t[3])?;
            let mut calls = 0u64;
            let res: Vec<(String, Vec<u64>)> = w.sidx.prefix_query_with(&pre, |k, p| {
                calls += 1;
                let con = stop.is_none_or(|n| calls < n);
                let mut ids: Vec<u64> = p.iter().copied().filter(|d| !odd || d % 2 == 1).collect();
                ids.sort_unstable();
                (con, if ids.is_empty() { None } else { Some((k.to_string(), ids)) })
            });
            let show = |v: &[(String, Vec<u64>)]| if v.is_empty() { "-".to_string() } else { v.iter().map(|(k, ids)| format!("{}={}", hex_str(k), ids_str(ids))).collect::<Vec<_>>().join(";") };
            let raw = show(&res);
            // oracle: keys that start with the prefix (std `str::starts_with`), ascending, the first
            // max(n,1) of them reach the callback
            let hits: Vec<(&String, &BTreeSet<u64>)> = w.soracle.iter().filter(|(k, _)| k.starts_with(pre.as_str())).collect();
            let take = stop.map(|n| (n.max(1) as usize).min(hits.len())).unwrap_or(hits.len());
            let exp: Vec<(String, Vec<u64>)> = hits[..take]
                .iter()
                .filter_map(|(k, s)| {
                    let ids: Vec<u64> = s.iter().copied().filter(|d| !odd || d % 2 == 1).collect();
                    if ids.is_empty() { None } else { Some(((*k).clone(), ids)) }
                })
                .collect();
            let mut o = obs("pq", line, raw.clone());
            o.answered = !res.is_empty();
            o.hits.push(format!("pq:{}", if stop.is_some() { "stop" } else { "all" }));
            Ok(vec![o.expect("prefix_query_with", "prefix query answer (keys starting with the prefix, ascending, early stop after n callbacks)", &show(&exp), &raw)])
        }
        "dump" => {
            arity(1)?;
            let o = match dump(&w.idx) {
                Ok((_raw, sorted)) => {
                    let mut o = obs("dump", line, sorted.clone());
                    o.answered = sorted != "-";
                    o.expect("contents", "final contents (keys() + query_with)", &dump_oracle(&w.oracle), &sorted)
                }
                Err(e) => obs("dump", line, format!("inconsistent: {e}")).expect("contents", "internal maps consistent", "consistent", &e),
            };
            Ok(vec![o])
        }
        "compact" => {
            arity(1)?;
            let (old, new) = w.idx.compact_buckets();
            let mut o = StepObs { what: "compact".into(), hits: vec!["op:compact".into()], ..Default::default() };
            if new < old {
                o.hits.push("compact:shrunk".into());
            }
            w.compacted = old > 1;
            let keys = ks(&w.idx.keys(None, None));
            let exp = ks(&w.oracle.keys().copied().collect::<Vec<_>>());
            Ok(vec![o.expect("compact", "keys() after compact_buckets", &exp, &keys)])
        }
        "flush" | "crash" | "ffail" => flush_family(w, &t, line),
        "reload" => {
            arity(1)?;
            reload_steps(w, "reload", vec![])
        }
        "legacy" => {
            arity(1)?;
            // rewrite the committed layout as a pre-manifest one (generation 0, no manifest), reload
            if let Some(md) = w.store.meta.clone() {
                let mut m = dec_meta(&md);
                let mut objs = BTreeMap::new();
                for o in referenced(&m) {
                    if let Some(d) = w.store.objs.get(&o) {
                        objs.insert((o.0, 0u64), d.clone());
                    }
                }
                m.buckets.clear();
                w.store = Store { objs, meta: Some(enc_meta(m)) };
            }
            let pre = StepObs { what: "legacy".into(), model_line: Some("legacy".into()), impl_raw: "ok".into(), hits: vec!["op:legacy".into()], ..Default::default() };
            reload_steps(w, "legacy", vec![pre])
        }
        "stale" => {
            arity(4)?;
            let (b, k, ids) = (nat(t[1])? as u32, int(t[2])?, parse_ids(t[3])?);
            let mut hit = false;
            if let Some(md) = w.store.meta.clone() {
                let m = dec_meta(&md);
                if let Some(o) = referenced(&m).into_iter().find(|o| o.0 == b)
                    && let Some(d) = w.store.objs.get(&o).cloned()
                {
                    let mut p = dec_bucket(&d);
                    p.insert(k, ids.clone());
                    w.store.objs.insert(o, enc_bucket(b, &p));
                    hit = true;
                }
            }
            // the committed snapshot is now whatever the documented rule reads from the store
            if w.store.meta.is_some() {
                w.committed = rule_load(&w.store);
            }
            let pre = StepObs {
                what: "stale".into(),
                model_line: Some(line.to_string()),
                impl_raw: "ok".into(),
                hits: vec![format!("op:stale:{}", if hit { if ids.is_empty() { "tombstone" } else { "copy" } } else { "miss" })],
                ..Default::default()
            };
            reload_steps(w, "stale", vec![pre])
        }
        other => Err(format!("unknown op {other}")),
    }
}

/// Drop the live index, load it from the store. The dump is taken from a second, throw-away load
/// (dumping bumps `query_count`, which the model tracks).
fn reload_steps(w: &mut World, what: &str, mut pre: Vec<StepObs>) -> Result<Vec<StepObs>, String> {
    let shown = w.load_prefix(&[], 0);
    let mut o = StepObs { what: format!("{what}:reload"), model_line: Some("reload".into()), hits: vec!["op:reload".into()], ..Default::default() };
    match shown {
        Err(e) => {
            o.impl_raw = format!("load failed: {e}");
            o = o.expect("load", "load_all of the committed store succeeds and is self-consistent", "ok", &e);
        }
        Ok((raw, sorted)) => {
            let expected = if raw == "nometa" { "-".to_string() } else { dump_oracle(&w.committed) };
            let sorted = if raw == "nometa" { "-".to_string() } else { sorted };
            o.impl_raw = sorted.clone();
            o.answered = sorted != "-";
            o.prefixes_loaded = 1;
            o = o.expect("load", "contents after reload = contents of the last committed flush", &expected, &sorted);
            if let Err(e) = w.reload_live() {
                o = o.expect("load", "load_all succeeds", "ok", &e);
            }
        }
    }
    pre.push(o);
    Ok(pre)
}

fn flush_family(w: &mut World, t: &[&str], line: &str) -> Result<Vec<StepObs>, String> {
    let kind = t[0];
    let r: Option<u64> = if kind == "flush" { None } else { Some(t.get(1).ok_or("missing number")?.parse::<u64>().map_err(|e| e.to_string())?) };
    let mut o = StepObs { what: kind.into(), hits: vec![format!("op:{kind}")], ..Default::default() };

    if kind == "ffail" {
        // dry run on a clone is impossible (the index is not Clone): choose the failing write from
        // the number of dirty buckets the flush is about to write, observed through a probe flush
        // into nowhere would mutate state — instead fail at `r mod 4` and accept a no-op when the
        // flush has fewer writes.
        let j = (r.unwrap() % 4) as usize;
        let run = w.real_flush(Some(j));
        let failed = run.result.is_err();
        o.hits.push(format!("ffail:{}", if failed { "failed" } else { "completed" }));
        if !failed {
            // fewer than j+1 writes: this was a complete flush
            return finish_flush(w, o, run, None, line);
        }
        // every prefix of the partial sequence must still load to the committed snapshot
        let old = dump_oracle(&w.committed);
        let mut last_raw = String::new();
        for jj in 0..=run.writes.len() {
            match w.load_prefix(&run.writes, jj) {
                Err(e) => {
                    o = o.expect("flush-crash", &format!("load_all after {jj} writes of a failed flush"), "ok", &e);
                    break;
                }
                Ok((raw, sorted)) => {
                    o.prefixes_loaded += 1;
                    let exp = if raw == "nometa" { "nometa".to_string() } else { old.clone() };
                    o = o.expect("flush-crash", &format!("contents loaded after {jj} of {} writes of a flush that failed before its commit = last committed contents", run.writes.len()), &exp, &sorted);
                    last_raw = sorted;
                }
            }
        }
        for wr in &run.writes {
            w.store.apply(wr);
        }
        o.model_line = Some(format!("flp{}", run.writes.iter().map(|x| format!(" {}", wr_tokens(x))).collect::<String>()));
        o.impl_raw = format!("fresh:1 | {last_raw}");
        return Ok(vec![o]);
    }

    let run = w.real_flush(None);
    finish_flush(w, o, run, r, line)
}

/// A flush that ran to completion in the index. `crash = Some(r)`: only the first
/// `r mod (len+1)` writes reach the store and the index is reloaded from it.
fn finish_flush(w: &mut World, mut o: StepObs, run: FlushRun, crash: Option<u64>, _line: &str) -> Result<Vec<StepObs>, String> {
    if let Err(e) = &run.result {
        o = o.expect("flush", "flush_owned_with succeeds with infallible writers", "ok", e);
        return Ok(vec![o]);
    }
    let n = run.writes.len();
    if n == 0 {
        // nothing to persist (`saved == false`): no model line, nothing changes
        o.hits.push("flush:noop".into());
        if let Some(_r) = crash {
            return reload_steps(w, "crash", vec![o]);
        }
        return Ok(vec![o]);
    }
    o.hits.push(format!("flush:buckets={}", run.nb.min(6)));
    if run.writes.iter().any(|x| matches!(x, Wr::Del(..))) {
        o.hits.push("flush:obsolete".into());
    }
    let old = dump_oracle(&w.committed);
    let new = dump_oracle(&w.oracle);
    let mut dumps = Vec::new();
    for j in 0..=n {
        match w.load_prefix(&run.writes, j) {
            Err(e) => {
                o = o.expect("flush-crash", &format!("load_all after {j} of {n} writes of a flush"), "ok", &e);
                dumps.push(format!("load failed: {e}"));
            }
            Ok((raw, sorted)) => {
                o.prefixes_loaded += 1;
                let exp = if raw == "nometa" {
                    "nometa".to_string()
                } else if j <= run.nb {
                    old.clone()
                } else {
                    new.clone()
                };
                let what = if j <= run.nb {
                    format!("contents loaded after {j} of {n} flush writes (before the metadata commit) = last committed contents")
                } else {
                    format!("contents loaded after {j} of {n} flush writes (commit at write {}) = flushed contents", run.nb + 1)
                };
                o = o.expect("flush-crash", &what, &exp, &sorted);
                o.answered |= sorted != "-" && sorted != "nometa";
                dumps.push(sorted);
            }
        }
    }
    // the flush right after a compaction shows the bins of its first-fit packing
    let mut extra: Vec<StepObs> = Vec::new();
    if w.compacted {
        let limit = w.overload.max(64);
        let bins: Vec<(u32, Vec<(i64, usize)>)> = run.writes.iter().filter_map(|x| if let Wr::Put(b, _, d) = x { Some((*b, bucket_sizes(d))) } else { None }).collect();
        let mut seen: BTreeSet<i64> = BTreeSet::new();
        let mut dup = None;
        for (_, es) in &bins {
            for (k, _) in es {
                if !seen.insert(*k) {
                    dup = Some(*k);
                }
            }
        }
        let all: BTreeSet<i64> = w.oracle.keys().copied().collect();
        o.hits.push("compact:bins_checked".into());
        o = o.expect("compact-packing", "after compact_buckets every key sits in exactly one bucket object", &format!("{all:?} once each"), &if dup.is_some() || seen != all { format!("duplicate {dup:?}, keys {seen:?}") } else { format!("{all:?} once each") });
        let bad = bins.iter().find(|(_, es)| es.len() > 1 && es.iter().map(|e| e.1).sum::<usize>() >= limit);
        o = o.expect("compact-packing", &format!("every bin of compact_buckets stays below bucket_overload_size = {limit} unless it holds one item"), "ok", &bad.map(|b| format!("bucket {} = {:?}", b.0, b.1)).unwrap_or_else(|| "ok".into()));
        // with pairwise distinct size estimates the item order (size descending) is determined: the
        // model's packing must produce the very same bins
        let mut items: Vec<(i64, usize)> = bins.iter().flat_map(|b| b.1.iter().copied()).collect();
        items.sort_by(|a, b| b.1.cmp(&a.1));
        let distinct = items.windows(2).all(|x| x[0].1 != x[1].1);
        if distinct && !items.is_empty() && w.store.meta.is_some() {
            o.hits.push("compact:bins_compared_with_model".into());
            let mut real: Vec<(u32, Vec<i64>)> = bins.iter().map(|(b, es)| { let mut ks: Vec<i64> = es.iter().map(|e| e.0).collect(); ks.sort_unstable(); (*b, ks) }).collect();
            real.sort();
            extra.push(StepObs {
                what: "compact:pack".into(),
                model_line: Some(format!("pack {limit} {}", items.iter().map(|(k, z)| format!("{k}:{z}")).collect::<Vec<_>>().join(","))),
                impl_raw: real.iter().map(|(_, ks)| ks.iter().map(|k| k.to_string()).collect::<Vec<_>>().join(",")).collect::<Vec<_>>().join("|"),
                ..Default::default()
            });
        }
        w.compacted = false;
    }
    let k = crash.map(|r| (r % (n as u64 + 1)) as usize);
    o.model_line = Some(format!(
        "flw {}{}",
        k.map(|k| k.to_string()).unwrap_or_else(|| "-".into()),
        run.writes.iter().map(|x| format!(" {}", wr_tokens(x))).collect::<String>()
    ));
    o.impl_raw = format!("shape:1 strict:1 vol:1 ci:{} new:1 | {}", run.nb, dumps.join(" | "));
    let applied = k.unwrap_or(n);
    for wr in &run.writes[..applied] {
        w.store.apply(wr);
    }
    if applied > run.nb {
        w.committed = w.oracle.clone();
        o.hits.push("flush:committed".into());
    } else {
        o.hits.push("flush:lost_before_commit".into());
    }
    if crash.is_some() {
        o.hits.push(format!("crash:at={}", if applied <= run.nb { "before_commit" } else if applied == run.nb + 1 { "after_commit" } else { "during_deletes" }));
        let mut pre = vec![o];
        pre.extend(extra);
        return reload_steps(w, "crash", pre);
    }
    let mut v = vec![o];
    v.extend(extra);
    Ok(v)
}
