//! Query trees, op-line syntax and the generators.

use crate::world::World;
use anda_db_btree::RangeQuery;
use vh_common::{Rng, join};

#[derive(Clone, Debug)]
pub enum Q {
    Eq(i64),
    Gt(i64),
    Ge(i64),
    Lt(i64),
    Le(i64),
    Btw(i64, i64),
    In(Vec<i64>),
    Or(Vec<Q>),
    And(Vec<Q>),
    Not(Box<Q>),
}

pub fn ks(v: &[i64]) -> String {
    if v.is_empty() { "-".into() } else { join(v.iter(), ",") }
}

impl Q {
    pub fn tokens(&self) -> String {
        match self {
            Q::Eq(k) => format!("eq {k}"),
            Q::Gt(k) => format!("gt {k}"),
            Q::Ge(k) => format!("ge {k}"),
            Q::Lt(k) => format!("lt {k}"),
            Q::Le(k) => format!("le {k}"),
            Q::Btw(a, b) => format!("btw {a} {b}"),
            Q::In(v) => format!("in {}", ks(v)),
            Q::Or(qs) => format!("or {}{}", qs.len(), qs.iter().map(|q| format!(" {}", q.tokens())).collect::<String>()),
            Q::And(qs) => format!("and {}{}", qs.len(), qs.iter().map(|q| format!(" {}", q.tokens())).collect::<String>()),
            Q::Not(q) => format!("not {}", q.tokens()),
        }
    }
    pub fn real(&self) -> RangeQuery<i64> {
        match self {
            Q::Eq(k) => RangeQuery::Eq(*k),
            Q::Gt(k) => RangeQuery::Gt(*k),
            Q::Ge(k) => RangeQuery::Ge(*k),
            Q::Lt(k) => RangeQuery::Lt(*k),
            Q::Le(k) => RangeQuery::Le(*k),
            Q::Btw(a, b) => RangeQuery::Between(*a, *b),
            Q::In(v) => RangeQuery::Include(v.clone()),
            Q::Or(qs) => RangeQuery::Or(qs.iter().map(|q| Box::new(q.real())).collect()),
            Q::And(qs) => RangeQuery::And(qs.iter().map(|q| Box::new(q.real())).collect()),
            Q::Not(q) => RangeQuery::Not(Box::new(q.real())),
        }
    }
    /// The property's own reading of a query (independent of the index and of the Lean model):
    /// plain set algebra over keys; an empty conjunction selects nothing (documented convention).
    pub fn selects(&self, k: i64) -> bool {
        match self {
            Q::Eq(v) => k == *v,
            Q::Gt(v) => k > *v,
            Q::Ge(v) => k >= *v,
            Q::Lt(v) => k < *v,
            Q::Le(v) => k <= *v,
            Q::Btw(a, b) => *a <= k && k <= *b,
            Q::In(v) => v.contains(&k),
            Q::Or(qs) => qs.iter().any(|q| q.selects(k)),
            Q::And(qs) => !qs.is_empty() && qs.iter().all(|q| q.selects(k)),
            Q::Not(q) => !q.selects(k),
        }
    }
    pub fn depth(&self) -> usize {
        match self {
            Q::Or(qs) | Q::And(qs) => 1 + qs.iter().map(|q| q.depth()).max().unwrap_or(0),
            Q::Not(q) => 1 + q.depth(),
            _ => 1,
        }
    }
}

pub fn parse_ks(s: &str) -> Result<Vec<i64>, String> {
    if s == "-" {
        return Ok(vec![]);
    }
    s.split(',').map(|x| x.parse::<i64>().map_err(|e| format!("{x}: {e}"))).collect()
}

pub fn parse_ids(s: &str) -> Result<Vec<u64>, String> {
    if s == "-" {
        return Ok(vec![]);
    }
    s.split(',').map(|x| x.parse::<u64>().map_err(|e| format!("{x}: {e}"))).collect()
}

pub fn parse_q(t: &[&str], pos: &mut usize) -> Result<Q, String> {
    let head = *t.get(*pos).ok_or("query: unexpected end")?;
    *pos += 1;
    let int = |pos: &mut usize| -> Result<i64, String> {
        let s = t.get(*pos).ok_or("query: missing key")?;
        *pos += 1;
        s.parse::<i64>().map_err(|e| e.to_string())
    };
    Ok(match head {
        "eq" => Q::Eq(int(pos)?),
        "gt" => Q::Gt(int(pos)?),
        "ge" => Q::Ge(int(pos)?),
        "lt" => Q::Lt(int(pos)?),
        "le" => Q::Le(int(pos)?),
        "btw" => {
            let a = int(pos)?;
            let b = int(pos)?;
            Q::Btw(a, b)
        }
        "in" => {
            let s = t.get(*pos).ok_or("query: missing key list")?;
            *pos += 1;
            Q::In(parse_ks(s)?)
        }
        "or" | "and" => {
            let n = int(pos)? as usize;
            let mut qs = Vec::new();
            for _ in 0..n {
                qs.push(parse_q(t, pos)?);
            }
            if head == "or" { Q::Or(qs) } else { Q::And(qs) }
        }
        "not" => Q::Not(Box::new(parse_q(t, pos)?)),
        "deep" => {
            let n = int(pos)? as usize;
            let mut q = parse_q(t, pos)?;
            for _ in 0..n {
                q = Q::Not(Box::new(q));
            }
            q
        }
        other => return Err(format!("query: unknown head {other}")),
    })
}

// ---------------------------------------------------------------------------------------------
// generators
// ---------------------------------------------------------------------------------------------

/// key universe: small, negative and positive, plus two wide values (CBOR width changes the size
/// estimate, hence the bucket packing)
pub const KEYS: [i64; 14] = [-3, -2, -1, 0, 1, 2, 3, 4, 5, 6, 7, 8, -5_000_000_000, 70_000];
/// id universe: mixed CBOR widths so that postings of different byte sizes exist
pub const IDS: [u64; 8] = [0, 1, 2, 3, 4, 300, 70_000, 5_000_000_000];

fn key(r: &mut Rng) -> i64 {
    *r.pick(&KEYS)
}
fn qkey(r: &mut Rng) -> i64 {
    // bounds also fall between / outside the keys
    if r.chance(1, 8) { *r.pick(&[-6_000_000_000i64, -4, 9, 80_000, i64::MIN, i64::MAX]) } else { key(r) }
}
fn id(r: &mut Rng) -> u64 {
    *r.pick(&IDS)
}
fn key_list(r: &mut Rng, max: usize) -> Vec<i64> {
    let n = r.usize(max + 1);
    (0..n).map(|_| key(r)).collect()
}

pub fn gen_q(r: &mut Rng, depth: usize) -> Q {
    let leaf = depth <= 1 || r.chance(2, 5);
    if leaf {
        match r.usize(8) {
            0 => Q::Eq(qkey(r)),
            1 => Q::Gt(qkey(r)),
            2 => Q::Ge(qkey(r)),
            3 => Q::Lt(qkey(r)),
            4 => Q::Le(qkey(r)),
            5 => {
                let a = qkey(r);
                let b = qkey(r);
                // mostly well-formed, sometimes inverted
                if a > b && r.chance(3, 4) { Q::Btw(b, a) } else { Q::Btw(a, b) }
            }
            6 => Q::In(key_list(r, 5)),
            _ => Q::Ge(i64::MIN),
        }
    } else {
        match r.usize(3) {
            0 => Q::Not(Box::new(gen_q(r, depth - 1))),
            1 => {
                let n = r.usize(4);
                Q::And((0..n).map(|_| gen_q(r, depth - 1)).collect())
            }
            _ => {
                let n = r.usize(4);
                Q::Or((0..n).map(|_| gen_q(r, depth - 1)).collect())
            }
        }
    }
}

pub fn gen_new(r: &mut Rng) -> String {
    let unique = r.chance(1, 4);
    // 64 is the floor the code clamps to; 0 exercises the clamp
    let ov = *r.pick(&[64usize, 64, 64, 0, 96, 160]);
    format!("new {} {}", unique as u8, ov)
}

fn existing_pair(r: &mut Rng, w: &World) -> Option<(u64, i64)> {
    if w.oracle.is_empty() {
        return None;
    }
    let i = r.usize(w.oracle.len());
    let (k, set) = w.oracle.iter().nth(i).unwrap();
    let j = r.usize(set.len());
    Some((*set.iter().nth(j).unwrap(), *k))
}

/// string keys: shared prefixes, the empty string, multi-byte characters and `char::MAX`
/// (the upper-bound trick the code replaced would miss keys continuing after `char::MAX`)
pub const SKEYS: [&str; 16] = ["", "a", "ab", "abc", "abd", "ac", "b", "ba", "a\u{10FFFF}", "a\u{10FFFF}b", "a\u{10FFFF}\u{10FFFF}", "é", "aé", "aéb", "ab\u{10FFFF}z", "c"];
pub const SPRE: [&str; 14] = ["", "a", "ab", "abc", "abcd", "a\u{10FFFF}", "b", "é", "aé", "d", "ab\u{10FFFF}", "ac", "c", "\u{10FFFF}"];

pub fn gen_rq(r: &mut Rng) -> String {
    let q = gen_q(r, 3);
    let dir = if r.chance(1, 2) { "asc" } else { "desc" };
    let stop = if r.chance(1, 2) { "-".to_string() } else { r.range(0, 5).to_string() };
    let mode = *r.pick(&["all", "all", "odd", "cnt"]);
    format!("rq {dir} {stop} {mode} {}", q.tokens())
}

/// One generator step: usually one line, sometimes a short directed burst.
pub fn gen_next(r: &mut Rng, w: &World) -> Vec<String> {
    if r.chance(1, 25)
        && let Some((_, k)) = existing_pair(r, w)
    {
        // flush, then either grow one posting until it migrates or remove the whole key, flush again
        let mut v = vec!["flush".to_string()];
        if r.chance(1, 2) {
            for i in 0..(1 + r.below(4)) {
                v.push(format!("ins {} {k}", 5_000_000_000u64 + i));
            }
        } else {
            for d in w.oracle[&k].iter() {
                v.push(format!("rem {d} {k}"));
            }
        }
        v.push(if r.chance(1, 3) { format!("crash {}", r.below(1000)) } else { "flush".to_string() });
        return v;
    }
    vec![gen_one(r, w)]
}

fn gen_one(r: &mut Rng, w: &World) -> String {
    let x = r.usize(100);
    match x {
        0..=24 => format!("ins {} {}", id(r), key(r)),
        25..=29 => match existing_pair(r, w) {
            // grow an existing posting with wide ids (appends overflow a bucket and migrate it)
            Some((_, k)) => format!("ins {} {k}", *r.pick(&[5_000_000_000u64, 5_000_000_001, 5_000_000_002, 70_000, 70_001, 300])),
            None => format!("ins {} {}", id(r), key(r)),
        },
        30..=41 => match existing_pair(r, w) {
            Some((d, k)) if r.chance(4, 5) => format!("rem {d} {k}"),
            _ => format!("rem {} {}", id(r), key(r)),
        },
        42..=49 => format!("insa {} {}", id(r), ks(&key_list(r, 5))),
        50..=54 => match existing_pair(r, w) {
            Some((d, k)) if r.chance(3, 4) => {
                let mut l = key_list(r, 3);
                l.push(k);
                if r.chance(1, 3) {
                    l.push(k);
                }
                r.shuffle(&mut l);
                format!("rema {d} {}", ks(&l))
            }
            _ => format!("rema {} {}", id(r), ks(&key_list(r, 4))),
        },
        55..=59 => {
            // batch_update: old values are mostly the document's real ones
            let d = id(r);
            let mut old: Vec<i64> = w.oracle.iter().filter(|(_, s)| s.contains(&d)).map(|(k, _)| *k).collect();
            if r.chance(1, 3) {
                old.extend(key_list(r, 2));
            }
            if r.chance(1, 4) && !old.is_empty() {
                let i = r.usize(old.len());
                old.remove(i);
            }
            let mut new = key_list(r, 4);
            if r.chance(1, 2) {
                new.extend(old.iter().take(2).copied());
            }
            format!("upd {d} {} {}", ks(&old), ks(&new))
        }
        60..=61 => format!("get {}", key(r)),
        62 => format!("sins {} {}", r.below(4), crate::world::hex_str(*r.pick(&SKEYS[..]))),
        63 => {
            if r.chance(1, 6) {
                format!("srem {} {}", r.below(4), crate::world::hex_str(*r.pick(&SKEYS[..])))
            } else if r.chance(1, 2) && !w.soracle.is_empty() {
                let i = r.usize(w.soracle.len());
                let (k, s) = w.soracle.iter().nth(i).unwrap();
                format!("srem {} {}", s.iter().next().unwrap(), crate::world::hex_str(k))
            } else {
                format!("sins {} {}", r.below(4), crate::world::hex_str(*r.pick(&SKEYS[..])))
            }
        }
        64..=66 => {
            let c = if r.chance(1, 2) { "-".to_string() } else { qkey(r).to_string() };
            let l = if r.chance(1, 2) { "-".to_string() } else { r.range(0, 6).to_string() };
            format!("keys {c} {l}")
        }
        67..=78 => gen_rq(r),
        79 => {
            if r.chance(1, 2) {
                "stats".into()
            } else {
                let stop = if r.chance(1, 2) { "-".to_string() } else { r.range(0, 4).to_string() };
                format!("pq {stop} {} {}", if r.chance(1, 4) { "odd" } else { "all" }, crate::world::hex_str(*r.pick(&SPRE[..])))
            }
        }
        80 => "len".into(),
        81..=87 => "flush".into(),
        88..=91 => format!("crash {}", r.below(1000)),
        92..=93 => "reload".into(),
        94..=96 => "compact".into(),
        97 => format!("ffail {}", r.below(1000)),
        98 => "legacy".into(),
        _ => {
            // stale / tombstone copy of a key inside a lower (or any) bucket object
            let b = *r.pick(&[0u64, 0, 0, 1, 1, 2]);
            let k = match existing_pair(r, w) {
                Some((_, k)) if r.chance(2, 3) => k,
                _ => key(r),
            };
            let ids = if r.chance(1, 3) { "-".to_string() } else { format!("{}", 900 + r.below(3)) };
            format!("stale {b} {k} {ids}")
        }
    }
}

/// The closing checkpoint: for a few query trees every early-stop position in both directions,
/// key paging from every cursor, all point lookups, a deep query, statistics, contents.
pub fn gen_checkpoint(r: &mut Rng, w: &World) -> Vec<String> {
    let mut v = Vec::new();
    let nkeys = w.oracle.len();
    for i in 0..3 {
        let q = if i == 0 { Q::Ge(i64::MIN) } else { gen_q(r, 3) };
        let groups = w.oracle.keys().filter(|k| q.selects(**k)).count();
        let mode = *r.pick(&["all", "all", "odd", "cnt"]);
        for dir in ["asc", "desc"] {
            v.push(format!("rq {dir} - {mode} {}", q.tokens()));
            for n in 1..=(groups + 1).min(7) {
                v.push(format!("rq {dir} {n} {mode} {}", q.tokens()));
            }
        }
    }
    if r.chance(1, 6) {
        v.push(format!("rq asc - all deep {} eq {}", 63 + r.below(3), key(r)));
    }
    if !w.soracle.is_empty() {
        for p in SPRE.iter().take(6) {
            v.push(format!("pq - all {}", crate::world::hex_str(p)));
            v.push(format!("pq {} odd {}", 1 + r.below(3), crate::world::hex_str(p)));
        }
    }
    v.push("keys - -".into());
    let cursors: Vec<i64> = w.oracle.keys().copied().collect();
    for c in cursors.iter().take(4) {
        v.push(format!("keys {c} {}", r.range(0, 3)));
    }
    v.push(format!("keys - {}", nkeys.saturating_sub(1)));
    for k in KEYS.iter().take(9) {
        v.push(format!("get {k}"));
    }
    v.push("len".into());
    v.push("stats".into());
    v.push("dump".into());
    v
}
