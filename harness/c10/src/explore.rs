//! L3: systematic exploration of thread interleavings of the real `BTreeIndex` at the
//! `verif::point("btree.<fn>.<n>")` hooks (H1/H2).
//!
//! Every worker thread parks inside the installed callback; the controller releases exactly one
//! thread at a time and waits until it parks again (or finishes), so a schedule is a list of thread
//! ids and the code between two points runs alone. A thread released from a `.0` point that does
//! not come back within `T_BLOCK` is blocked on the mutation gate (the only lock held across
//! points): the run is abandoned, the (positions → blocked thread) fact is cached — it was
//! *observed*, not predicted — and the schedule is retried without that choice.
//! All interleavings are enumerated depth-first (stateless: every schedule is re-executed from a
//! fresh index).
//!
//! Per complete schedule: results and final contents; internal consistency of the three maps
//! (`keys()` vs `query_with` vs `len()`); bucket ownership (a flush taken now + `load_all` gives the
//! same contents); linearisability of the element operations (Wing–Gong search over the ≤ 3 threads);
//! and — for programs of insert / remove / compact — the Lean model replays the same schedule
//! (`sched` line) and must predict where every thread parks after each action, every result and the
//! final contents.

use crate::world::{Idx, Oracle, Store, Wr, block_on, dump, dump_oracle};
use anda_db_btree::{BTreeConfig, BTreeError, BucketObject};
use std::cell::RefCell;
use std::collections::{BTreeMap, BTreeSet, HashMap};
use std::sync::{Arc, Condvar, Mutex, Once};
use std::time::{Duration, Instant};
use vh_common::{ModelProc, join};

const T_BLOCK: Duration = Duration::from_millis(20);
const T_STUCK: Duration = Duration::from_secs(5);

#[derive(Clone, Debug, PartialEq)]
pub enum COp {
    Ins(u64, i64),
    Rem(u64, i64),
    Compact,
    Insa(u64, Vec<i64>),
    Rema(u64, Vec<i64>),
    Upd(u64, Vec<i64>, Vec<i64>),
}

impl COp {
    fn show(&self) -> String {
        let ks = |v: &Vec<i64>| if v.is_empty() { "-".to_string() } else { join(v.iter(), ",") };
        match self {
            COp::Ins(d, k) => format!("ins {d} {k}"),
            COp::Rem(d, k) => format!("rem {d} {k}"),
            COp::Compact => "compact".into(),
            COp::Insa(d, v) => format!("insa {d} {}", ks(v)),
            COp::Rema(d, v) => format!("rema {d} {}", ks(v)),
            COp::Upd(d, o, n) => format!("upd {d} {} {}", ks(o), ks(n)),
        }
    }
    fn parse(s: &str) -> Result<COp, String> {
        let t: Vec<&str> = s.split_whitespace().collect();
        let ks = |s: &str| crate::ops::parse_ks(s);
        let n = |s: &str| s.parse::<u64>().map_err(|e| e.to_string());
        let i = |s: &str| s.parse::<i64>().map_err(|e| e.to_string());
        Ok(match t.as_slice() {
            ["ins", d, k] => COp::Ins(n(d)?, i(k)?),
            ["rem", d, k] => COp::Rem(n(d)?, i(k)?),
            ["compact"] => COp::Compact,
            ["insa", d, v] => COp::Insa(n(d)?, ks(v)?),
            ["rema", d, v] => COp::Rema(n(d)?, ks(v)?),
            ["upd", d, o, w] => COp::Upd(n(d)?, ks(o)?, ks(w)?),
            _ => return Err(format!("bad concurrent op {s:?}")),
        })
    }
    fn modelled(&self) -> bool {
        matches!(self, COp::Ins(..) | COp::Rem(..) | COp::Compact)
    }
}

#[derive(Clone, Debug)]
pub struct Case {
    pub unique: bool,
    pub init: Vec<COp>,
    pub progs: Vec<Vec<COp>>,
}

impl Case {
    pub fn lines(&self, schedule: &[usize]) -> Vec<String> {
        let mut v = vec![format!("conc {}", self.unique as u8)];
        for o in &self.init {
            v.push(format!("init {}", o.show()));
        }
        for p in &self.progs {
            v.push(format!("thread {}", p.iter().map(|o| o.show()).collect::<Vec<_>>().join(" ; ")));
        }
        v.push(format!("schedule {}", join(schedule.iter(), " ")));
        v
    }
    pub fn parse(lines: &[String]) -> Result<(Case, Vec<usize>), String> {
        let mut c = Case { unique: false, init: vec![], progs: vec![] };
        let mut sched = vec![];
        for l in lines {
            if let Some(r) = l.strip_prefix("conc ") {
                c.unique = r.trim() == "1";
            } else if let Some(r) = l.strip_prefix("init ") {
                c.init.push(COp::parse(r)?);
            } else if let Some(r) = l.strip_prefix("thread") {
                let r = r.trim();
                c.progs.push(if r.is_empty() { vec![] } else { r.split(';').map(|s| COp::parse(s.trim())).collect::<Result<_, _>>()? });
            } else if let Some(r) = l.strip_prefix("schedule") {
                sched = r.split_whitespace().map(|x| x.parse::<usize>().map_err(|e| e.to_string())).collect::<Result<_, _>>()?;
            } else {
                return Err(format!("bad line {l:?}"));
            }
        }
        Ok((c, sched))
    }
}

// ---------------------------------------------------------------------------------------------
// parking
// ---------------------------------------------------------------------------------------------

#[derive(Clone, Copy, PartialEq, Debug)]
enum Status {
    Starting,
    Parked(&'static str),
    Running,
    Done,
}

struct St {
    status: Vec<Status>,
    go: Vec<bool>,
    free_run: bool,
}

struct Sess {
    m: Mutex<St>,
    cv: Condvar,
}

thread_local! {
    static SLOT: RefCell<Option<(Arc<Sess>, usize)>> = const { RefCell::new(None) };
}

fn callback(tag: &'static str) {
    let slot = SLOT.with(|s| s.borrow().clone());
    if let Some((sess, tid)) = slot {
        let mut g = sess.m.lock().unwrap();
        if g.free_run {
            return;
        }
        g.status[tid] = Status::Parked(tag);
        sess.cv.notify_all();
        while !g.go[tid] && !g.free_run {
            g = sess.cv.wait(g).unwrap();
        }
        g.go[tid] = false;
        g.status[tid] = Status::Running;
    }
}

static INSTALL: Once = Once::new();

fn err_name(e: &BTreeError) -> &'static str {
    match e {
        BTreeError::AlreadyExists { .. } => "err:exists",
        _ => "err:other",
    }
}

fn run_op(idx: &Idx, op: &COp, now: u64) -> String {
    match op {
        COp::Ins(d, k) => match idx.insert(*d, *k, now) {
            Ok(b) => format!("ok:{}", b as u8),
            Err(e) => err_name(&e).into(),
        },
        COp::Rem(d, k) => format!("rm:{}", idx.remove(*d, *k, now) as u8),
        COp::Compact => {
            idx.compact_buckets();
            "c".into()
        }
        COp::Insa(d, v) => match idx.insert_array(*d, v.clone(), now) {
            Ok(n) => format!("ok:{n}"),
            Err(e) => err_name(&e).into(),
        },
        COp::Rema(d, v) => format!("rm:{}", idx.remove_array(*d, v.clone(), now)),
        COp::Upd(d, o, n) => match idx.batch_update(*d, o.clone(), n.clone(), now) {
            Ok((r, i)) => format!("ok:{r},{i}"),
            Err(e) => err_name(&e).into(),
        },
    }
}

fn short_tag(tag: &str) -> String {
    // "btree.insert.1" -> "i1"; any ".0" -> "n"
    let mut it = tag.split('.');
    let (_, f, n) = (it.next(), it.next().unwrap_or(""), it.next().unwrap_or(""));
    if n == "0" {
        return "n".into();
    }
    let c = match f {
        "insert" => "i",
        "remove" => "r",
        "compact_buckets" => "c",
        "insert_array" => "ia",
        "remove_array" => "ra",
        _ => "?",
    };
    format!("{c}{n}")
}

#[derive(Clone, Debug)]
pub struct Step {
    pub tid: usize,
    /// where the thread parked after the action (`e` = finished)
    pub tag: String,
    /// did `max_bucket_id` grow during the action
    pub grew: bool,
}

pub struct Run {
    pub chosen: Vec<usize>,
    pub choices: Vec<Vec<usize>>,
    pub steps: Vec<Step>,
    pub results: Vec<Vec<String>>,
    pub idx: Arc<Idx>,
}

pub enum Outcome {
    Complete(Box<Run>),
    /// a blocked thread was discovered (cached); run again
    Retry,
    Stuck(String),
}

/// positions → (threads seen blocked twice there, threads seen blocked once)
pub type BlockCache = HashMap<Vec<String>, (BTreeSet<usize>, BTreeSet<usize>)>;

pub fn fresh_index(case: &Case) -> Idx {
    let idx = Idx::new("c10x".into(), Some(BTreeConfig { bucket_overload_size: 64, allow_duplicates: !case.unique }));
    for (i, o) in case.init.iter().enumerate() {
        run_op(&idx, o, 1 + i as u64);
    }
    idx
}

/// Executes `prefix`, then extends greedily (lowest enabled thread id) to completion.
pub fn run_schedule(case: &Case, prefix: &[usize], cache: &mut BlockCache) -> Outcome {
    INSTALL.call_once(|| anda_db_utils::verif::install(Some(Arc::new(callback))));
    let n = case.progs.len();
    let idx = Arc::new(fresh_index(case));
    let sess = Arc::new(Sess { m: Mutex::new(St { status: vec![Status::Starting; n], go: vec![false; n], free_run: false }), cv: Condvar::new() });
    let mut handles = Vec::new();
    for (tid, prog) in case.progs.iter().cloned().enumerate() {
        let idx = idx.clone();
        let sess = sess.clone();
        handles.push(std::thread::spawn(move || {
            SLOT.with(|s| *s.borrow_mut() = Some((sess.clone(), tid)));
            let r = std::panic::catch_unwind(std::panic::AssertUnwindSafe(|| {
                let mut res = Vec::new();
                for (i, op) in prog.iter().enumerate() {
                    res.push(run_op(&idx, op, 100 + i as u64));
                }
                res
            }));
            SLOT.with(|s| *s.borrow_mut() = None);
            let mut g = sess.m.lock().unwrap();
            g.status[tid] = Status::Done;
            sess.cv.notify_all();
            drop(g);
            r.unwrap_or_else(|_| vec!["panic".into()])
        }));
    }
    let abort = |sess: &Arc<Sess>, handles: Vec<std::thread::JoinHandle<Vec<String>>>| {
        {
            let mut g = sess.m.lock().unwrap();
            g.free_run = true;
            sess.cv.notify_all();
        }
        for h in handles {
            let _ = h.join();
        }
    };
    // everybody to its first `.0`
    {
        let mut g = sess.m.lock().unwrap();
        let deadline = Instant::now() + T_STUCK;
        while g.status.iter().any(|s| matches!(s, Status::Starting | Status::Running)) {
            let (g2, to) = sess.cv.wait_timeout(g, Duration::from_millis(200)).unwrap();
            g = g2;
            if to.timed_out() && Instant::now() > deadline {
                drop(g);
                abort(&sess, handles);
                return Outcome::Stuck("a thread did not reach its first yield point".into());
            }
        }
    }
    let mut run = Run { chosen: vec![], choices: vec![], steps: vec![], results: vec![], idx: idx.clone() };
    let mut mb = idx.stats().max_bucket_id;
    loop {
        let (positions, parked): (Vec<String>, Vec<(usize, &'static str)>) = {
            let g = sess.m.lock().unwrap();
            (
                g.status.iter().map(|s| match s { Status::Parked(t) => (*t).to_string(), Status::Done => "done".into(), _ => "?".into() }).collect(),
                g.status.iter().enumerate().filter_map(|(i, s)| if let Status::Parked(t) = s { Some((i, *t)) } else { None }).collect(),
            )
        };
        if parked.is_empty() {
            break;
        }
        let blocked = cache.get(&positions).map(|x| x.0.clone()).unwrap_or_default();
        let choices: Vec<usize> = parked.iter().map(|x| x.0).filter(|t| !blocked.contains(t)).collect();
        if choices.is_empty() {
            abort(&sess, handles);
            return Outcome::Stuck(format!("deadlock: every parked thread is blocked at {positions:?}"));
        }
        let k = run.chosen.len();
        let pick = if k < prefix.len() {
            if !choices.contains(&prefix[k]) {
                abort(&sess, handles);
                return Outcome::Stuck(format!("schedule prefix not executable at step {k}: thread {} is not enabled at {positions:?}", prefix[k]));
            }
            prefix[k]
        } else {
            choices[0]
        };
        let from_tag = parked.iter().find(|x| x.0 == pick).unwrap().1;
        // Only the mutation gate is held across yield points, so a thread can only be blocked when it
        // is about to take the gate (a `.0` point) while another thread is inside an operation.
        let may_block = from_tag.ends_with(".0") && parked.iter().any(|x| x.0 != pick && !x.1.ends_with(".0"));
        // release `pick`, wait for it to park again or finish
        let arrived = {
            let mut g = sess.m.lock().unwrap();
            g.go[pick] = true;
            g.status[pick] = Status::Running;
            sess.cv.notify_all();
            let deadline = Instant::now() + if may_block { T_BLOCK } else { T_STUCK };
            loop {
                if g.status[pick] != Status::Running {
                    break Some(g.status[pick]);
                }
                let now = Instant::now();
                if now >= deadline {
                    break None;
                }
                let (g2, _) = sess.cv.wait_timeout(g, deadline - now).unwrap();
                g = g2;
            }
        };
        match arrived {
            None if may_block => {
                // believed only when observed twice at the same positions (a slow thread is not a blocked one)
                let e = cache.entry(positions).or_default();
                if !e.1.insert(pick) {
                    e.0.insert(pick);
                }
                abort(&sess, handles);
                return Outcome::Retry;
            }
            None => {
                abort(&sess, handles);
                return Outcome::Stuck(format!("thread {pick} released from {from_tag} did not reach its next yield point"));
            }
            Some(st) => {
                let mb2 = idx.stats().max_bucket_id;
                let tag = match st {
                    Status::Parked(t) => short_tag(t),
                    _ => "e".into(),
                };
                run.steps.push(Step { tid: pick, tag, grew: mb2 > mb });
                mb = mb2;
                run.chosen.push(pick);
                run.choices.push(choices);
            }
        }
    }
    for h in handles {
        run.results.push(h.join().unwrap_or_else(|_| vec!["panic".into()]));
    }
    Outcome::Complete(Box::new(run))
}

// ---------------------------------------------------------------------------------------------
// checks on a complete run
// ---------------------------------------------------------------------------------------------

#[derive(Clone)]
struct Elem {
    insert: bool,
    d: u64,
    k: i64,
    /// (thread, op index)
    op: (usize, usize),
    /// last element of its operation
    last: bool,
}

fn elems(case: &Case) -> Vec<Vec<Elem>> {
    case.progs
        .iter()
        .enumerate()
        .map(|(t, p)| {
            let mut v = Vec::new();
            for (i, op) in p.iter().enumerate() {
                let mut es: Vec<Elem> = match op {
                    COp::Ins(d, k) => vec![Elem { insert: true, d: *d, k: *k, op: (t, i), last: false }],
                    COp::Rem(d, k) => vec![Elem { insert: false, d: *d, k: *k, op: (t, i), last: false }],
                    COp::Insa(d, ks) => ks.iter().map(|k| Elem { insert: true, d: *d, k: *k, op: (t, i), last: false }).collect(),
                    COp::Rema(d, ks) => ks.iter().map(|k| Elem { insert: false, d: *d, k: *k, op: (t, i), last: false }).collect(),
                    COp::Compact | COp::Upd(..) => vec![],
                };
                if let Some(l) = es.last_mut() {
                    l.last = true;
                }
                v.extend(es);
            }
            v
        })
        .collect()
}

/// Wing–Gong: is there an interleaving of the per-thread element sequences whose sequential
/// execution gives the observed results (if `with_results`) and the observed final contents?
fn linearizable(case: &Case, init: &Oracle, results: &[Vec<String>], fin: &str, with_results: bool) -> bool {
    let es = elems(case);
    fn go(case: &Case, es: &[Vec<Elem>], pos: &mut Vec<usize>, st: &mut Oracle, acc: &mut BTreeMap<(usize, usize), u64>, results: &[Vec<String>], fin: &str, with_results: bool) -> bool {
        if pos.iter().enumerate().all(|(t, p)| *p == es[t].len()) {
            return dump_oracle(st) == fin;
        }
        for t in 0..es.len() {
            if pos[t] == es[t].len() {
                continue;
            }
            let e = es[t][pos[t]].clone();
            let present = st.get(&e.k).is_some_and(|s| s.contains(&e.d));
            let occupied_other = st.get(&e.k).is_some_and(|s| !s.contains(&e.d));
            let single = matches!(case.progs[e.op.0][e.op.1], COp::Ins(..) | COp::Rem(..));
            // sequential effect
            let (eff, err) = if e.insert {
                if case.unique && occupied_other { (false, true) } else { (!present, false) }
            } else {
                (present, false)
            };
            let observed = &results[e.op.0][e.op.1];
            if with_results && single {
                let exp = if e.insert { if err { "err:exists".to_string() } else { format!("ok:{}", eff as u8) } } else { format!("rm:{}", eff as u8) };
                if &exp != observed {
                    continue;
                }
            }
            // apply
            let undo_present = present;
            if eff {
                if e.insert {
                    st.entry(e.k).or_default().insert(e.d);
                } else {
                    let gone = {
                        let s = st.get_mut(&e.k).unwrap();
                        s.remove(&e.d);
                        s.is_empty()
                    };
                    if gone {
                        st.remove(&e.k);
                    }
                }
            }
            let prev_acc = acc.get(&e.op).copied();
            *acc.entry(e.op).or_insert(0) += eff as u64;
            let mut ok = true;
            if with_results && !single && e.last && !case.unique {
                let n = acc[&e.op];
                let exp = if e.insert { format!("ok:{n}") } else { format!("rm:{n}") };
                ok = &exp == observed;
            }
            pos[t] += 1;
            let found = ok && go(case, es, pos, st, acc, results, fin, with_results);
            pos[t] -= 1;
            match prev_acc {
                Some(v) => {
                    acc.insert(e.op, v);
                }
                None => {
                    acc.remove(&e.op);
                }
            }
            if eff {
                if e.insert && !undo_present {
                    let gone = {
                        let s = st.get_mut(&e.k).unwrap();
                        s.remove(&e.d);
                        s.is_empty()
                    };
                    if gone {
                        st.remove(&e.k);
                    }
                } else if !e.insert {
                    st.entry(e.k).or_default().insert(e.d);
                }
            }
            if found {
                return true;
            }
        }
        false
    }
    let mut st = init.clone();
    go(case, &es, &mut vec![0; es.len()], &mut st, &mut BTreeMap::new(), results, fin, with_results)
}

fn pairs_of(p: &[COp]) -> BTreeSet<(i64, u64)> {
    let mut s = BTreeSet::new();
    for o in p {
        match o {
            COp::Ins(d, k) | COp::Rem(d, k) => {
                s.insert((*k, *d));
            }
            COp::Insa(d, ks) | COp::Rema(d, ks) => {
                for k in ks {
                    s.insert((*k, *d));
                }
            }
            COp::Upd(d, o, n) => {
                for k in o.iter().chain(n.iter()) {
                    s.insert((*k, *d));
                }
            }
            COp::Compact => {}
        }
    }
    s
}

pub struct Finding {
    pub key: String,
    pub what: String,
    pub expected: String,
    pub observed: String,
    pub model: bool,
}

fn init_oracle(case: &Case) -> Oracle {
    let mut o = Oracle::new();
    for op in &case.init {
        match op {
            COp::Ins(d, k) => {
                if !(case.unique && o.get(k).is_some_and(|s: &BTreeSet<u64>| !s.contains(d))) {
                    o.entry(*k).or_default().insert(*d);
                }
            }
            COp::Insa(d, ks) => {
                for k in ks {
                    o.entry(*k).or_default().insert(*d);
                }
            }
            _ => {}
        }
    }
    o
}

/// All checks of one complete run. `anomalies` counts returned values that no sequential order
/// explains in cases where two threads work on the same pair (documented, see notes/C10.md).
pub fn check_run(case: &Case, run: &Run, model: &mut Option<ModelProc>, anomalies: &mut u64) -> Option<Finding> {
    if run.results.iter().flatten().any(|r| r == "panic") {
        return Some(Finding { key: "threads:panic".into(), what: "panic in the code under test".into(), expected: "no panic".into(), observed: "panic".into(), model: false });
    }
    // 1. the three maps agree with each other
    let fin = match dump(&run.idx) {
        Ok((_, sorted)) => sorted,
        Err(e) => {
            return Some(Finding { key: "threads:maps-inconsistent".into(), what: "keys() / query_with / len() agree at quiescence (no phantom key, no lost key, no empty posting)".into(), expected: "consistent".into(), observed: e, model: false });
        }
    };
    // 1b. a unique index holds exactly one id per key, whatever raced (single, array or batch operations)
    if case.unique && let Some(bad) = fin.split(';').find(|e| e.contains(',')) {
        return Some(Finding { key: "threads:unique-violated".into(), what: "unique index: one id per key at quiescence".into(), expected: "one id per key".into(), observed: bad.to_string(), model: false });
    }
    // 2. ownership: what a flush serialises now is everything
    let log: RefCell<Vec<Wr>> = RefCell::new(Vec::new());
    let fr = block_on(run.idx.flush_owned_with(
        9,
        |d: Vec<u8>| {
            log.borrow_mut().push(Wr::Meta(d));
            std::future::ready(Ok(()))
        },
        |o: BucketObject, d: Vec<u8>| {
            log.borrow_mut().push(Wr::Put(o.bucket_id, o.generation, d));
            std::future::ready(Ok(()))
        },
    ));
    let mut s = Store::default();
    for w in log.into_inner() {
        s.apply(&w);
    }
    let loaded = match (fr, s.load()) {
        (Ok(_), Some(Ok(re))) => dump(&re).map(|x| x.1),
        (Err(e), _) => Err(format!("flush failed: {e:?}")),
        (_, Some(Err(e))) => Err(format!("load failed: {e}")),
        (_, None) => Err("no metadata written".into()),
    };
    if loaded.as_deref() != Ok(fin.as_str()) {
        return Some(Finding { key: "threads:lost-posting".into(), what: "contents loaded from a flush taken at quiescence = contents (every posting is listed by the bucket that owns it)".into(), expected: fin, observed: format!("{loaded:?}"), model: false });
    }
    // 3. linearisability
    let init = init_oracle(case);
    let overlapping = {
        let ps: Vec<BTreeSet<(i64, u64)>> = case.progs.iter().map(|p| pairs_of(p)).collect();
        (0..ps.len()).any(|a| (a + 1..ps.len()).any(|b| !ps[a].is_disjoint(&ps[b])))
    };
    let has_upd = case.progs.iter().flatten().any(|o| matches!(o, COp::Upd(..)));
    let arrays_unique = case.unique && case.progs.iter().flatten().any(|o| matches!(o, COp::Insa(..) | COp::Rema(..)));
    if !has_upd && !arrays_unique {
        if !linearizable(case, &init, &run.results, &fin, false) {
            return Some(Finding { key: "threads:not-sequential".into(), what: "final contents = those of some sequential order of the element operations (nothing lost, nothing duplicated)".into(), expected: "some sequential order".into(), observed: fin, model: false });
        }
        if !linearizable(case, &init, &run.results, &fin, true) {
            if overlapping {
                *anomalies += 1;
            } else {
                return Some(Finding {
                    key: "threads:results-not-sequential".into(),
                    what: "returned values and final contents = those of some sequential order of the element operations".into(),
                    expected: "some sequential order".into(),
                    observed: format!("results {:?} final {fin}", run.results),
                    model: false,
                });
            }
        }
    }
    // 4. the Lean model replays the schedule
    if case.progs.iter().flatten().all(|o| o.modelled()) && let Some(m) = model.as_mut() {
        // spill bits: max_bucket_id grew during the action that parked at insert.3
        let mut opidx = vec![0usize; case.progs.len()];
        let mut spill: Vec<Vec<bool>> = case.progs.iter().map(|p| vec![false; p.len()]).collect();
        for st in &run.steps {
            if st.tag == "i3" && st.grew {
                spill[st.tid][opidx[st.tid]] = true;
            }
            if st.tag == "n" || st.tag == "e" {
                opidx[st.tid] += 1;
            }
        }
        let progs: Vec<String> = case
            .progs
            .iter()
            .enumerate()
            .map(|(t, p)| {
                if p.is_empty() {
                    "-".to_string()
                } else {
                    p.iter()
                        .enumerate()
                        .map(|(i, o)| match o {
                            COp::Ins(d, k) => format!("i:{d}:{k}:{}", spill[t][i] as u8),
                            COp::Rem(d, k) => format!("r:{d}:{k}"),
                            // `skip` is read off the tags: a compaction that returns right after taking the gate
                            _ => {
                                let skipped = compaction_skipped(&run.steps, t, i, &case.progs[t]);
                                format!("c:{}", skipped as u8)
                            }
                        })
                        .collect::<Vec<_>>()
                        .join(",")
                }
            })
            .collect();
        let line = format!(
            "sched {} {} {} S {}",
            case.unique as u8,
            dump_oracle(&init),
            progs.iter().map(|p| format!("T {p}")).collect::<Vec<_>>().join(" "),
            if run.steps.is_empty() { "-".to_string() } else { run.steps.iter().map(|s| format!("{}>{}", s.tid, s.tag)).collect::<Vec<_>>().join(",") }
        );
        let ans = m.ask(&line);
        let res = run.results.iter().map(|r| if r.is_empty() { "-".to_string() } else { r.join(",") }).collect::<Vec<_>>().join("|");
        let expect = format!("ok res {res} final {fin} q:1 wf:1");
        if ans != expect {
            return Some(Finding { key: "threads:model".into(), what: format!("model replay of the explored schedule ({line})"), expected: ans, observed: expect, model: true });
        }
    }
    None
}

/// Did the `i`-th operation of thread `t` (a compaction) return right after taking the gate?
fn compaction_skipped(steps: &[Step], t: usize, i: usize, _prog: &[COp]) -> bool {
    let mut op = 0usize;
    let mut seen_c = false;
    for s in steps.iter().filter(|s| s.tid == t) {
        if op == i && s.tag.starts_with('c') {
            seen_c = true;
        }
        if s.tag == "n" || s.tag == "e" {
            if op == i {
                return !seen_c;
            }
            op += 1;
        }
    }
    !seen_c
}

pub struct ExploreOut {
    pub schedules: u64,
    pub retries: u64,
    pub truncated: bool,
    pub anomalies: u64,
    pub finding: Option<(Finding, Vec<String>)>,
    pub model_lines: u64,
}

/// Depth-first enumeration of every interleaving of `case` (up to `max_schedules`).
pub fn explore(case: &Case, max_schedules: u64, deadline: Instant, model: &mut Option<ModelProc>) -> ExploreOut {
    let mut out = ExploreOut { schedules: 0, retries: 0, truncated: false, anomalies: 0, finding: None, model_lines: 0 };
    let mut cache: BlockCache = HashMap::new();
    let mut stack: Vec<Vec<usize>> = vec![vec![]];
    while let Some(prefix) = stack.pop() {
        if out.schedules >= max_schedules || Instant::now() > deadline {
            out.truncated = true;
            break;
        }
        let run = loop {
            match run_schedule(case, &prefix, &mut cache) {
                Outcome::Retry => {
                    out.retries += 1;
                    if out.retries > 10_000 {
                        break Err("too many blocked-thread retries".to_string());
                    }
                }
                Outcome::Stuck(e) => break Err(e),
                Outcome::Complete(r) => break Ok(r),
            }
        };
        let run = match run {
            Ok(r) => r,
            Err(e) => {
                // a prefix that became infeasible because a blocked thread was learnt later is skipped
                if e.starts_with("schedule prefix not executable") {
                    continue;
                }
                out.finding = Some((Finding { key: "threads:stuck".into(), what: e, expected: "every thread reaches its next yield point".into(), observed: "stuck".into(), model: false }, case.lines(&prefix)));
                return out;
            }
        };
        out.schedules += 1;
        for i in (prefix.len()..run.chosen.len()).rev() {
            for alt in &run.choices[i] {
                if *alt != run.chosen[i] {
                    let mut p = run.chosen[..i].to_vec();
                    p.push(*alt);
                    stack.push(p);
                }
            }
        }
        let had_model = model.is_some() && case.progs.iter().flatten().all(|o| o.modelled());
        if let Some(f) = check_run(case, &run, model, &mut out.anomalies) {
            // confirm by re-running the same schedule (a mis-timed "blocked" verdict could overlap two actions)
            let mut confirmed = 0;
            for _ in 0..2 {
                let mut c2 = cache.clone();
                if let Outcome::Complete(r2) = run_schedule(case, &run.chosen, &mut c2) {
                    let mut a = 0;
                    if check_run(case, &r2, model, &mut a).is_some_and(|g| g.key == f.key) {
                        confirmed += 1;
                    }
                }
            }
            if confirmed > 0 {
                out.finding = Some((f, case.lines(&run.chosen)));
                return out;
            }
        }
        if had_model {
            out.model_lines += 1;
        }
    }
    out
}

// ---------------------------------------------------------------------------------------------
// the cases
// ---------------------------------------------------------------------------------------------

const B: u64 = 5_000_000_000;

fn full_bucket() -> Vec<COp> {
    // three wide postings: 51 of 64 bytes — the next wide posting or two appends spill
    vec![COp::Ins(B, 1), COp::Ins(B, 2), COp::Ins(B, 3)]
}

fn two_buckets() -> Vec<COp> {
    // five wide postings: buckets 0 and 1 exist, so `compact_buckets` does work
    vec![COp::Ins(B, 1), COp::Ins(B, 2), COp::Ins(B, 3), COp::Ins(B, 4), COp::Ins(B + 1, 4), COp::Ins(B + 2, 4), COp::Ins(B + 3, 4)]
}

pub fn cases(thorough: bool) -> Vec<Case> {
    let c = |unique: bool, init: Vec<COp>, progs: Vec<Vec<COp>>| Case { unique, init, progs };
    let mut v = vec![
        // same pair: posting created, emptied, erased, re-created around each other
        c(false, vec![], vec![vec![COp::Ins(1, 5)], vec![COp::Rem(1, 5)]]),
        c(false, vec![COp::Ins(1, 5)], vec![vec![COp::Ins(1, 5)], vec![COp::Rem(1, 5)]]),
        c(false, vec![COp::Ins(1, 5)], vec![vec![COp::Rem(1, 5), COp::Ins(1, 5)], vec![COp::Rem(1, 5)]]),
        // same key, different ids
        c(false, vec![], vec![vec![COp::Ins(1, 5)], vec![COp::Ins(2, 5)]]),
        c(false, vec![COp::Ins(1, 5)], vec![vec![COp::Rem(1, 5)], vec![COp::Ins(2, 5)]]),
        c(false, vec![COp::Ins(1, 5), COp::Ins(2, 5)], vec![vec![COp::Rem(1, 5)], vec![COp::Rem(2, 5)]]),
        c(false, vec![COp::Ins(1, 5)], vec![vec![COp::Rem(1, 5)], vec![COp::Ins(2, 5), COp::Rem(2, 5)]]),
        // unique index
        c(true, vec![], vec![vec![COp::Ins(1, 5)], vec![COp::Ins(2, 5)]]),
        c(true, vec![COp::Ins(1, 5)], vec![vec![COp::Rem(1, 5)], vec![COp::Ins(2, 5)]]),
        c(true, vec![COp::Ins(1, 5)], vec![vec![COp::Rem(1, 5)], vec![COp::Ins(1, 5)]]),
        // spills: migration of a fresh / of an appended posting next to a remove / another spill
        c(false, full_bucket(), vec![vec![COp::Ins(B, 5)], vec![COp::Rem(B, 5)]]),
        c(false, full_bucket(), vec![vec![COp::Ins(B, 5)], vec![COp::Ins(B + 1, 6)]]),
        c(false, full_bucket(), vec![vec![COp::Ins(B + 1, 1)], vec![COp::Ins(B + 2, 1)]]),
        c(false, full_bucket(), vec![vec![COp::Ins(B + 1, 1), COp::Ins(B + 2, 1)], vec![COp::Rem(B, 1)]]),
        // compaction under the exclusive gate
        c(false, two_buckets(), vec![vec![COp::Compact], vec![COp::Ins(1, 9)]]),
        c(false, two_buckets(), vec![vec![COp::Compact], vec![COp::Rem(B, 1)]]),
        c(false, two_buckets(), vec![vec![COp::Compact], vec![COp::Ins(B, 9), COp::Rem(B, 2)]]),
        c(false, vec![COp::Ins(1, 5)], vec![vec![COp::Compact], vec![COp::Rem(1, 5)]]),
        // array operations (real threads + oracle only)
        c(false, vec![COp::Ins(1, 5)], vec![vec![COp::Insa(1, vec![5, 6])], vec![COp::Rem(1, 5)]]),
        c(false, vec![COp::Ins(1, 5), COp::Ins(1, 6)], vec![vec![COp::Rema(1, vec![5, 6])], vec![COp::Ins(1, 5)]]),
        c(true, vec![], vec![vec![COp::Insa(1, vec![5, 6])], vec![COp::Ins(2, 6)]]),
        c(false, two_buckets(), vec![vec![COp::Compact], vec![COp::Insa(1, vec![8, 9])]]),
    ];
    if thorough {
        v.extend(vec![
            // longer programs, arrays, batch update
            c(false, vec![COp::Ins(1, 5)], vec![vec![COp::Rem(1, 5), COp::Ins(1, 5), COp::Rem(1, 5)], vec![COp::Ins(1, 5), COp::Rem(1, 5)]]),
            c(false, vec![], vec![vec![COp::Insa(1, vec![5, 6])], vec![COp::Rema(1, vec![6, 5])]]),
            c(false, vec![COp::Ins(1, 5)], vec![vec![COp::Upd(1, vec![5], vec![6])], vec![COp::Ins(2, 5), COp::Rem(2, 5)]]),
            c(false, full_bucket(), vec![vec![COp::Insa(B + 1, vec![7, 8])], vec![COp::Ins(B + 2, 9)]]),
            c(true, vec![], vec![vec![COp::Insa(1, vec![5, 6])], vec![COp::Insa(2, vec![6, 5])]]),
            // three threads
            c(false, vec![], vec![vec![COp::Ins(1, 5)], vec![COp::Rem(1, 5)], vec![COp::Ins(2, 5)]]),
            c(false, vec![COp::Ins(1, 5)], vec![vec![COp::Rem(1, 5)], vec![COp::Ins(2, 5)], vec![COp::Rem(2, 5)]]),
            c(false, vec![COp::Ins(1, 5)], vec![vec![COp::Rem(1, 5)], vec![COp::Ins(1, 5)], vec![COp::Rem(1, 5)]]),
            c(true, vec![COp::Ins(1, 5)], vec![vec![COp::Rem(1, 5)], vec![COp::Ins(2, 5)], vec![COp::Ins(3, 5)]]),
            c(false, two_buckets(), vec![vec![COp::Compact], vec![COp::Ins(1, 9)], vec![COp::Rem(B, 1)]]),
            c(false, full_bucket(), vec![vec![COp::Ins(B, 5)], vec![COp::Rem(B, 5)], vec![COp::Ins(B + 1, 5)]]),
            c(false, full_bucket(), vec![vec![COp::Ins(B + 1, 1)], vec![COp::Ins(B + 2, 1)], vec![COp::Rem(B, 1)]]),
            c(false, two_buckets(), vec![vec![COp::Compact], vec![COp::Compact], vec![COp::Ins(1, 9)]]),
        ]);
    }
    v
}
