//! Harness for property C10 (stub: not built yet).
fn main() {
    let a = vh_common::Args::parse();
    let r = vh_common::Report::new("C10", &a, "stub");
    r.write(&a);
}
