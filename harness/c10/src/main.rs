//! Harness for property C10 — `anda_db_btree::BTreeIndex` equals an ordered multimap, across
//! flush and crash (threads: see notes/C10.md, needs hooks).
//!
//! A case is a list of op lines (`new U OV` first). Every line is executed on the real index; its
//! canonical answer is compared
//!   (a) with an independent oracle (`BTreeMap<i64, BTreeSet<u64>>` + brute-force query semantics +
//!       the snapshot-at-commit rule for loads)  -> `oracle_failure`
//!   (b) with the Lean model behind `drv_c10`    -> `disagreement`.
//! Flush-family ops run the real `flush_owned_with` into a recording in-memory object map and call
//! the real `load_all` on *every prefix* of the recorded write sequence (bucket PUTs, metadata PUT,
//! obsolete DELETEs); the decoded write sequence is what the model's `flw` line receives.

mod explore;
mod ops;
mod stress;
mod world;
mod wrapper;

use ops::*;
use std::collections::BTreeMap;
use vh_common::serde_json::json;
use vh_common::{Args, ModelProc, Report, Rng, read_corpus, read_replay, shrink};
use world::*;

#[derive(Clone, Debug)]
pub enum Failure {
    Oracle { key: String, what: String, expected: String, observed: String },
    Disagree { what: String, model: String, implementation: String },
}

impl Failure {
    fn same_kind(&self, other: &Failure) -> bool {
        match (self, other) {
            (Failure::Oracle { key: a, .. }, Failure::Oracle { key: b, .. }) => a == b,
            (Failure::Disagree { what: a, .. }, Failure::Disagree { what: b, .. }) => a == b,
            _ => false,
        }
    }
}

#[derive(Default)]
pub struct CaseOut {
    pub ops: Vec<String>,
    pub failure: Option<(usize, Failure)>,
    pub hits: BTreeMap<String, u64>,
    pub mutated: bool,
    pub answered: bool,
    pub model_lines: u64,
    pub prefixes_loaded: u64,
}

impl CaseOut {
    fn hit(&mut self, k: &str) {
        *self.hits.entry(k.to_string()).or_insert(0) += 1;
    }
}

/// Executes one line on the world (+ model); records the first failure.
fn exec_line(w: &mut Option<World>, line: &str, model: &mut Option<ModelProc>, out: &mut CaseOut, skip_oracle_deep: bool) {
    let idx = out.ops.len();
    out.ops.push(line.to_string());
    let res = std::panic::catch_unwind(std::panic::AssertUnwindSafe(|| step(w, line)));
    let steps = match res {
        Ok(Ok(s)) => s,
        Ok(Err(e)) => {
            out.hit("bad_line");
            eprintln!("bad op line {line:?}: {e}");
            return;
        }
        Err(p) => {
            let msg = p.downcast_ref::<String>().cloned().or_else(|| p.downcast_ref::<&str>().map(|s| s.to_string())).unwrap_or_default();
            out.failure = Some((
                idx,
                Failure::Oracle { key: format!("panic:{}", line.split(' ').next().unwrap_or("")), what: format!("panic in the code under test: {msg}"), expected: "no panic".into(), observed: "panic".into() },
            ));
            return;
        }
    };
    let _ = skip_oracle_deep;
    for st in steps {
        for h in &st.hits {
            out.hit(h);
        }
        out.mutated |= st.mutated;
        out.answered |= st.answered;
        out.prefixes_loaded += st.prefixes_loaded;
        if out.failure.is_some() {
            // still feed the model so that it stays in step? no: stop at the first failure
            return;
        }
        if let Some((key, what, expected, observed)) = st.oracle_violation {
            out.failure = Some((idx, Failure::Oracle { key, what, expected, observed }));
            return;
        }
        if let (Some(m), Some(ml)) = (model.as_mut(), st.model_line.as_ref()) {
            let ans = m.ask(ml);
            out.model_lines += 1;
            if ans != st.impl_raw {
                out.failure = Some((idx, Failure::Disagree { what: st.what.clone(), model: clip(&ans), implementation: clip(&st.impl_raw) }));
                return;
            }
        }
    }
}

/// the model's own branch counters (`cov` driver line) into `model:<branch>` histogram keys
fn merge_cov(hits: &mut BTreeMap<String, u64>, model: &mut Option<ModelProc>) {
    if let Some(m) = model.as_mut() {
        let ans = m.ask("cov");
        if ans != "-" && !ans.starts_with('<') {
            for e in ans.split(';') {
                if let Some((k, n)) = e.rsplit_once('@') {
                    *hits.entry(format!("model:{k}")).or_insert(0) += n.parse::<u64>().unwrap_or(0);
                }
            }
        }
    }
}

fn clip(s: &str) -> String {
    if s.len() > 1200 { format!("{}…[{} bytes]", &s[..1200], s.len()) } else { s.to_string() }
}

fn run_conc(ops: &[String], model: &mut Option<ModelProc>) -> CaseOut {
    let mut out = CaseOut { ops: ops.to_vec(), ..Default::default() };
    match explore::Case::parse(ops) {
        Err(e) => {
            out.hit("bad_line");
            eprintln!("bad concurrent case: {e}");
        }
        Ok((case, sched)) => {
            let mut cache = std::collections::HashMap::new();
            let mut anomalies = 0;
            let r = loop {
                match explore::run_schedule(&case, &sched, &mut cache) {
                    explore::Outcome::Retry => continue,
                    x => break x,
                }
            };
            out.hit("sched:corpus_schedule");
            match r {
                explore::Outcome::Complete(run) => {
                    out.mutated = true;
                    out.answered = true;
                    if case.progs.iter().flatten().all(|o| matches!(o, explore::COp::Ins(..) | explore::COp::Rem(..) | explore::COp::Compact)) && model.is_some() {
                        out.model_lines += 1;
                    }
                    if let Some(f) = explore::check_run(&case, &run, model, &mut anomalies) {
                        let at = ops.len() - 1;
                        out.failure = Some((at, if f.model { Failure::Disagree { what: f.what, model: f.expected, implementation: f.observed } } else { Failure::Oracle { key: f.key, what: f.what, expected: f.expected, observed: f.observed } }));
                    }
                }
                explore::Outcome::Stuck(e) => {
                    out.failure = Some((ops.len() - 1, Failure::Oracle { key: "threads:stuck".into(), what: e, expected: "schedule executable".into(), observed: "stuck".into() }));
                }
                explore::Outcome::Retry => unreachable!(),
            }
        }
    }
    out
}

fn run_ops(ops: &[String], model: &mut Option<ModelProc>) -> CaseOut {
    if ops.first().is_some_and(|l| l.starts_with("conc ")) {
        return run_conc(ops, model);
    }
    if ops.first().is_some_and(|l| l.starts_with("wnew")) {
        return wrapper::run_wrapper_ops(ops);
    }
    let mut out = CaseOut::default();
    let mut w: Option<World> = None;
    for l in ops {
        exec_line(&mut w, l, model, &mut out, false);
        if out.failure.is_some() {
            break;
        }
    }
    out
}

fn run_generated(seed: u64, case: u64, thorough: bool, model: &mut Option<ModelProc>) -> CaseOut {
    let mut rng = Rng::for_case(seed, case);
    let mut out = CaseOut::default();
    let mut w: Option<World> = None;
    let first = gen_new(&mut rng);
    exec_line(&mut w, &first, model, &mut out, false);
    let n = if thorough { 20 + rng.usize(120) } else { 10 + rng.usize(50) };
    for _ in 0..n {
        if out.failure.is_some() {
            return out;
        }
        for line in gen_next(&mut rng, w.as_ref().unwrap()) {
            if out.failure.is_some() {
                return out;
            }
            exec_line(&mut w, &line, model, &mut out, false);
        }
    }
    // checkpoint: every early-stop position in both directions for a few query trees, key paging,
    // point lookups, statistics, final contents
    if out.failure.is_none() {
        for line in gen_checkpoint(&mut rng, w.as_ref().unwrap()) {
            exec_line(&mut w, &line, model, &mut out, false);
            if out.failure.is_some() {
                break;
            }
        }
    }
    out
}

fn shrink_case(ops: Vec<String>, f: &Failure, model: &mut Option<ModelProc>) -> Vec<String> {
    let f_is_conc = ops.first().is_some_and(|l| l.starts_with("conc "));
    if f_is_conc {
        return ops;
    }
    shrink(
        ops,
        |cand: &[String]| {
            if cand.is_empty() || !(cand[0].starts_with("new ") || cand[0].starts_with("wnew ")) || f_is_conc {
                return false;
            }
            let o = run_ops(cand, model);
            o.failure.as_ref().is_some_and(|(_, g)| g.same_kind(f))
        },
        400,
    )
}

fn record(report: &mut Report, out: &CaseOut, model: &mut Option<ModelProc>, label: &str) {
    for (k, v) in &out.hits {
        report.hit_n(k, *v);
    }
    report.hit_n("prefix_loads", out.prefixes_loaded);
    report.model_compared += out.model_lines;
    let canon = out.ops.join("\n");
    report.case(&canon, out.mutated && out.answered);
    report_failure(report, out, model, label);
}

fn report_failure(report: &mut Report, out: &CaseOut, model: &mut Option<ModelProc>, label: &str) {
    if let Some((at, f)) = &out.failure {
        let upto: Vec<String> = out.ops[..=*at].to_vec();
        let small = shrink_case(upto, f, model);
        // re-run the shrunken case to report its own expected/observed
        let again = run_ops(&small, model);
        let f2 = again.failure.map(|x| x.1).unwrap_or_else(|| f.clone());
        match f2 {
            Failure::Oracle { key, what, expected, observed } => report.oracle_failure(&key, &format!("{what} [{label}]"), &small, &expected, &observed),
            Failure::Disagree { what, model: m, implementation } => report.disagreement(&format!("{what} [{label}]"), &small, &m, &implementation),
        }
    }
}

fn main() {
    let args = Args::parse();
    let mut report = Report::new(
        "C10",
        &args,
        "a case (one op history incl. its flush/crash/reload points and the closing checkpoint) counts as non-trivial when at least one mutation changed the contents and at least one query/listing/load returned a non-empty answer",
    );
    // panics of the code under test are caught per line; keep the default hook quiet
    std::panic::set_hook(Box::new(|_| {}));
    let use_model = args.driver.is_some() && args.focus.is_none();
    let mut model: Option<ModelProc> = if use_model { ModelProc::from_args(&args) } else { None };

    if let Some(rp) = &args.replay {
        let ops = read_replay(rp);
        if ops.first().is_some_and(|l| l.starts_with("conc ")) {
            // a schedule found by the explorer: run it again (three times: real threads)
            match explore::Case::parse(&ops) {
                Ok((case, sched)) => {
                    for _ in 0..3 {
                        let mut cache = std::collections::HashMap::new();
                        let mut anomalies = 0;
                        let r = loop {
                            match explore::run_schedule(&case, &sched, &mut cache) {
                                explore::Outcome::Retry => continue,
                                x => break x,
                            }
                        };
                        report.evaluations += 1;
                        match r {
                            explore::Outcome::Complete(run) => {
                                if let Some(f) = explore::check_run(&case, &run, &mut model, &mut anomalies) {
                                    if f.model {
                                        report.disagreement(&f.what, &ops, &f.expected, &f.observed);
                                    } else {
                                        report.oracle_failure(&f.key, &f.what, &ops, &f.expected, &f.observed);
                                    }
                                    break;
                                }
                            }
                            explore::Outcome::Stuck(e) => {
                                report.oracle_failure("threads:stuck", &e, &ops, "schedule executable", "stuck");
                                break;
                            }
                            explore::Outcome::Retry => unreachable!(),
                        }
                    }
                }
                Err(e) => report.notes.push(format!("bad concurrent replay: {e}")),
            }
            report.write(&args);
            return;
        }
        let out = run_ops(&ops, &mut model);
        record(&mut report, &out, &mut model, "replay");
        report.write(&args);
        return;
    }

    if let Some(dir) = &args.corpus {
        for (name, ops) in read_corpus(dir) {
            let out = run_ops(&ops, &mut model);
            report.hit("corpus_cases");
            if report.samples.len() < 2 {
                report.sample(json!({"corpus": name, "ops": ops.len()}));
            }
            record(&mut report, &out, &mut model, &format!("corpus {name}"));
        }
    }

    // budget: a case count and a wall-clock limit, whichever comes first (cases are a pure function
    // of (seed, index), so a replay never depends on how far a run got)
    // `--only sched`: development switch, run nothing but the schedule exploration
    let only_sched = args.extra.get("only").is_some_and(|v| v == "sched");
    let n_cases = if only_sched { 0 } else { args.budget(40_000, 1_500_000) };
    let limit_s = if args.focus.is_some() { 420 } else { args.budget(60, 300) };
    let deadline = std::time::Instant::now() + std::time::Duration::from_secs(limit_s);
    let threads = std::thread::available_parallelism().map(|n| n.get()).unwrap_or(4).min(16) as u64;
    let thorough = args.thorough() || args.focus.is_some();
    let failures = std::sync::atomic::AtomicUsize::new(0);
    struct Agg {
        cases: Vec<(u64, u64, bool)>,
        hits: BTreeMap<String, u64>,
        model_lines: u64,
        prefixes: u64,
        failing: Vec<(u64, CaseOut)>,
        samples: Vec<(u64, Vec<String>)>,
    }
    let aggs: Vec<Agg> = std::thread::scope(|sc| {
        let hs: Vec<_> = (0..threads)
            .map(|t| {
                let args = &args;
                let failures = &failures;
                sc.spawn(move || {
                    let mut model: Option<ModelProc> = if use_model { ModelProc::from_args(args) } else { None };
                    let mut a = Agg { cases: Vec::new(), hits: BTreeMap::new(), model_lines: 0, prefixes: 0, failing: Vec::new(), samples: Vec::new() };
                    let mut i = t;
                    while i < n_cases {
                        if failures.load(std::sync::atomic::Ordering::Relaxed) >= 24 || std::time::Instant::now() > deadline {
                            break;
                        }
                        // one case in 40 goes through the production wrapper (anda_db::index::BTree)
                        let out = if i % 40 == 39 { wrapper::run_wrapper_ops(&wrapper::gen_wrapper_case(args.seed, i, thorough)) } else { run_generated(args.seed, i, thorough, &mut model) };
                        let mut h: u64 = 0xcbf2_9ce4_8422_2325;
                        for l in &out.ops {
                            for b in l.bytes().chain(std::iter::once(b'\n')) {
                                h ^= b as u64;
                                h = h.wrapping_mul(0x0000_0100_0000_01B3);
                            }
                        }
                        a.cases.push((i, h, out.mutated && out.answered));
                        for (k, v) in &out.hits {
                            *a.hits.entry(k.clone()).or_insert(0) += *v;
                        }
                        a.model_lines += out.model_lines;
                        a.prefixes += out.prefixes_loaded;
                        if i % 997 == 0 && a.samples.len() < 2 && out.mutated && out.answered {
                            a.samples.push((i, out.ops.iter().take(40).cloned().collect()));
                        }
                        if out.failure.is_some() {
                            failures.fetch_add(1, std::sync::atomic::Ordering::Relaxed);
                            a.failing.push((i, out));
                        }
                        i += threads;
                    }
                    merge_cov(&mut a.hits, &mut model);
                    a
                })
            })
            .collect();
        hs.into_iter().map(|h| h.join().expect("worker")).collect()
    });
    let mut cases: Vec<(u64, u64, bool)> = Vec::new();
    let mut failing: Vec<(u64, CaseOut)> = Vec::new();
    let mut samples: Vec<(u64, Vec<String>)> = Vec::new();
    for a in aggs {
        cases.extend(a.cases);
        for (k, v) in a.hits {
            report.hit_n(&k, v);
        }
        report.hit_n("prefix_loads", a.prefixes);
        report.model_compared += a.model_lines;
        failing.extend(a.failing);
        samples.extend(a.samples);
    }
    cases.sort_unstable();
    for (_, h, nontrivial) in &cases {
        report.case(&format!("{h:016x}"), *nontrivial);
    }
    report.hit_n("generated_cases", cases.len() as u64);
    samples.sort();
    for (i, ops) in samples.into_iter().take(4) {
        report.sample(json!({"seed": args.seed, "case": i, "ops": ops}));
    }
    failing.sort_by_key(|x| x.0);
    for (n, (i, out)) in failing.iter().enumerate() {
        if n < 6 {
            report_failure(&mut report, out, &mut model, &format!("seed {} case {}", args.seed, i));
        } else {
            report.hit("failures_not_shrunk");
        }
    }
    if (cases.len() as u64) < n_cases {
        report.notes.push(format!("stopped after {} of {} cases (time limit {limit_s}s or enough failures)", cases.len(), n_cases));
    }
    // real threads, no hooks: measured, not proved
    if args.replay.is_none() {
        let so = stress::stress(args.seed, if only_sched { 0 } else { args.budget(600, 3000) }, 3);
        report.measured.insert("thread_stress_runs(3 mutator threads + 1 compaction thread, disjoint ids per thread)".into(), json!(so.runs));
        report.measured.insert("thread_stress_ops".into(), json!(so.ops));
        report.measured.insert("thread_stress_compactions".into(), json!(so.compactions));
        if let Some((what, e, o, logs)) = so.failure {
            report.oracle_failure("threads", &format!("{what} (real threads; not deterministically replayable)"), &logs, &e, &o);
        }
    }
    // L3: systematic interleavings of real threads at the hook points
    if args.replay.is_none() {
        let t0 = std::time::Instant::now();
        let thorough_x = args.thorough() || args.focus.is_some();
        let deadline = t0 + std::time::Duration::from_secs(if args.focus.is_some() { 120 } else { args.budget(20, 240) });
        let per_case = args.budget(6_000, 400_000);
        let mut total = 0u64;
        let mut anomalies = 0u64;
        let mut exhaustive = true;
        for (ci, case) in explore::cases(thorough_x).iter().enumerate() {
            if std::time::Instant::now() > deadline {
                exhaustive = false;
                report.notes.push(format!("schedule exploration stopped at case {ci} (time limit)"));
                break;
            }
            let out = explore::explore(case, per_case, deadline, &mut model);
            total += out.schedules;
            anomalies += out.anomalies;
            exhaustive &= !out.truncated;
            report.hit("sched:cases");
            report.hit_n("sched:schedules", out.schedules);
            report.hit_n("sched:blocked_probes", out.retries);
            report.hit_n(&format!("sched:threads={}", case.progs.len()), out.schedules);
            if out.truncated {
                report.hit("sched:cases_truncated");
            }
            report.model_compared += out.model_lines;
            report.evaluations += out.schedules;
            if ci < 2 {
                report.sample(json!({"concurrent_case": case.lines(&[]), "schedules": out.schedules}));
            }
            if let Some((f, lines)) = out.finding {
                if f.model {
                    report.disagreement(&f.what, &lines, &f.expected, &f.observed);
                } else {
                    report.oracle_failure(&f.key, &f.what, &lines, &f.expected, &f.observed);
                }
            }
        }
        report.measured.insert("schedules_explored_on_real_threads".into(), json!(total));
        report.measured.insert("schedule_exploration_exhaustive_for_listed_cases".into(), json!(exhaustive));
        report.measured.insert("same_pair_result_anomalies (returned value not explained by a sequential order while two threads work on the same (key,id); see notes/C10.md)".into(), json!(anomalies));
        report.measured.insert("schedule_exploration_seconds".into(), json!(t0.elapsed().as_secs_f64()));
    }
    {
        let mut h = BTreeMap::new();
        merge_cov(&mut h, &mut model);
        for (k, v) in h {
            report.hit_n(&k, v);
        }
    }
    report.notes.push("histogram keys `model:*` are the Lean model's own branch counters under the correspondence run (driver line `cov`)".into());
    report.notes.push("threads: interleavings at the verif::point hooks are enumerated on real threads and replayed by the Lean model (insert / remove / compact; array operations oracle only); the free-running stress phase is measured only".into());
    report.write(&args);
}
