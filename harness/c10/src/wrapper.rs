//! The production wrapper `anda_db::index::BTree` (rs/anda_db/src/index/btree.rs) over a recording
//! object store: object paths per (bucket, generation), the conditional metadata PUT, the obsolete
//! deletions after the commit, `compact_index`. Oracle only (the Lean model is tied one level
//! below): after every flush, **every prefix of the backend mutations it issued** is replayed onto
//! a fresh store and `BTree::bootstrap` must yield the last committed contents (before the
//! metadata PUT) or the flushed contents (from it on).
//!
//! Op lines: `wnew OV | wins D K | wrem D K | winsa D KS | wflush | wcrash R | wreload | wcompact
//! | wget K | wdump`.

use crate::ops::{ks, parse_ks};
use crate::world::{Oracle, dump_oracle};
use crate::{CaseOut, Failure};
use anda_db::index::BTree;
use anda_db::schema::{Fe, Ft, Fv};
use anda_db::storage::{Storage, StorageConfig};
use async_trait::async_trait;
use bytes::Bytes;
use futures::StreamExt;
use futures::stream::BoxStream;
use object_store::memory::InMemory;
use object_store::path::Path;
use object_store::ObjectStoreExt;
use object_store::{
    CopyOptions, GetOptions, GetResult, ListResult, MultipartUpload, ObjectMeta, ObjectStore, PutMultipartOptions, PutOptions, PutPayload, PutResult,
    Result as OsResult,
};
use std::collections::BTreeMap;
use std::sync::{Arc, Mutex};
use vh_common::{Rng, join};

#[derive(Clone, Debug)]
enum Mu {
    Put(String, Bytes),
    Del(String),
}

#[derive(Debug)]
struct RecStore {
    inner: Arc<InMemory>,
    log: Arc<Mutex<Vec<Mu>>>,
    shadow: Arc<Mutex<BTreeMap<String, Bytes>>>,
}

impl std::fmt::Display for RecStore {
    fn fmt(&self, f: &mut std::fmt::Formatter<'_>) -> std::fmt::Result {
        f.write_str("RecStore")
    }
}

#[async_trait]
impl ObjectStore for RecStore {
    async fn put_opts(&self, location: &Path, payload: PutPayload, opts: PutOptions) -> OsResult<PutResult> {
        let data: Bytes = payload.clone().into();
        let r = self.inner.put_opts(location, payload, opts).await?;
        self.log.lock().unwrap().push(Mu::Put(location.to_string(), data.clone()));
        self.shadow.lock().unwrap().insert(location.to_string(), data);
        Ok(r)
    }
    async fn put_multipart_opts(&self, location: &Path, opts: PutMultipartOptions) -> OsResult<Box<dyn MultipartUpload>> {
        self.inner.put_multipart_opts(location, opts).await
    }
    async fn get_opts(&self, location: &Path, options: GetOptions) -> OsResult<GetResult> {
        self.inner.get_opts(location, options).await
    }
    fn delete_stream(&self, locations: BoxStream<'static, OsResult<Path>>) -> BoxStream<'static, OsResult<Path>> {
        let log = self.log.clone();
        let shadow = self.shadow.clone();
        let s = locations
            .map(move |r| {
                if let Ok(p) = &r {
                    log.lock().unwrap().push(Mu::Del(p.to_string()));
                    shadow.lock().unwrap().remove(&p.to_string());
                }
                r
            })
            .boxed();
        self.inner.delete_stream(s)
    }
    fn list(&self, prefix: Option<&Path>) -> BoxStream<'static, OsResult<ObjectMeta>> {
        self.inner.list(prefix)
    }
    fn list_with_offset(&self, prefix: Option<&Path>, offset: &Path) -> BoxStream<'static, OsResult<ObjectMeta>> {
        self.inner.list_with_offset(prefix, offset)
    }
    async fn list_with_delimiter(&self, prefix: Option<&Path>) -> OsResult<ListResult> {
        self.inner.list_with_delimiter(prefix).await
    }
    async fn copy_opts(&self, from: &Path, to: &Path, options: CopyOptions) -> OsResult<()> {
        self.inner.copy_opts(from, to, options).await
    }
}

const NAME: &str = "c10w";

async fn store_from(objs: &BTreeMap<String, Bytes>) -> Arc<RecStore> {
    let inner = Arc::new(InMemory::new());
    for (p, d) in objs {
        inner.put(&Path::from(p.as_str()), PutPayload::from(d.clone())).await.expect("seed store");
    }
    Arc::new(RecStore { inner, log: Arc::new(Mutex::new(Vec::new())), shadow: Arc::new(Mutex::new(objs.clone())) })
}

async fn connect(store: Arc<RecStore>, overload: usize) -> Result<Storage, String> {
    Storage::connect("c10w_store".into(), store, StorageConfig { compress_level: 0, bucket_overload_size: overload, ..Default::default() }).await.map_err(|e| format!("{e:?}"))
}

fn dump_tree(t: &BTree) -> Result<String, String> {
    let keys = t.keys(None, None);
    let mut v = Vec::new();
    for k in keys {
        let Fv::I64(kk) = k else { return Err(format!("keys() returned a non-i64 key {k:?}")) };
        match t.query_with(&Fv::I64(kk), |p| Some(p.clone())) {
            None => return Err(format!("key {kk} listed by keys() has no posting")),
            Some(mut p) => {
                if p.is_empty() {
                    return Err(format!("key {kk} has an empty posting"));
                }
                p.sort_unstable();
                v.push(format!("{kk}={}", join(p.iter(), ",")));
            }
        }
    }
    Ok(if v.is_empty() { "-".into() } else { v.join(";") })
}

async fn load_dump(objs: &BTreeMap<String, Bytes>, overload: usize) -> Result<String, String> {
    let st = connect(store_from(objs).await, overload).await?;
    let t = BTree::bootstrap(NAME.into(), &Ft::I64, st).await.map_err(|e| format!("bootstrap failed: {e:?}"))?;
    dump_tree(&t)
}

struct W {
    overload: usize,
    store: Arc<RecStore>,
    tree: BTree,
    oracle: Oracle,
    committed: Oracle,
    now: u64,
}

fn apply(objs: &mut BTreeMap<String, Bytes>, m: &Mu) {
    match m {
        Mu::Put(p, d) => {
            objs.insert(p.clone(), d.clone());
        }
        Mu::Del(p) => {
            objs.remove(p);
        }
    }
}

async fn wstep(w: &mut Option<W>, line: &str, out: &mut CaseOut) -> Result<Option<Failure>, String> {
    let t: Vec<&str> = line.split(' ').filter(|s| !s.is_empty()).collect();
    let fail = |key: &str, what: String, expected: String, observed: String| Ok(Some(Failure::Oracle { key: format!("wrapper:{key}"), what, expected, observed }));
    if t[0] == "wnew" {
        let overload: usize = t.get(1).ok_or("wnew OV")?.parse().map_err(|_| "overload")?;
        let store = store_from(&BTreeMap::new()).await;
        let st = connect(store.clone(), overload).await?;
        let tree = BTree::new(Fe::new(NAME.into(), Ft::I64).map_err(|e| format!("{e:?}"))?, st, 1000).await.map_err(|e| format!("{e:?}"))?;
        *w = Some(W { overload, store, tree, oracle: Oracle::new(), committed: Oracle::new(), now: 1000 });
        return Ok(None);
    }
    let w = w.as_mut().ok_or("first line must be wnew")?;
    w.now += 1;
    let now = w.now;
    out.hit(&format!("wop:{}", t[0]));
    match t[0] {
        "wins" => {
            let (d, k): (u64, i64) = (t[1].parse().map_err(|_| "id")?, t[2].parse().map_err(|_| "key")?);
            let got = w.tree.insert(d, &Fv::I64(k), now).map_err(|e| format!("{e:?}"));
            let exp = w.oracle.entry(k).or_default().insert(d);
            out.mutated |= exp;
            if got != Ok(exp) {
                return fail("insert", format!("BTree::insert({d}, {k})"), format!("Ok({exp})"), format!("{got:?}"));
            }
        }
        "wrem" => {
            let (d, k): (u64, i64) = (t[1].parse().map_err(|_| "id")?, t[2].parse().map_err(|_| "key")?);
            let got = w.tree.remove(d, &Fv::I64(k), now);
            let mut exp = false;
            let mut gone = false;
            if let Some(s) = w.oracle.get_mut(&k) {
                exp = s.remove(&d);
                gone = s.is_empty();
            }
            if gone {
                w.oracle.remove(&k);
            }
            if got != exp {
                return fail("remove", format!("BTree::remove({d}, {k})"), exp.to_string(), got.to_string());
            }
        }
        "winsa" => {
            let d: u64 = t[1].parse().map_err(|_| "id")?;
            let l = parse_ks(t[2])?;
            let got = w.tree.insert(d, &Fv::Array(l.iter().map(|k| Fv::I64(*k)).collect()), now).map_err(|e| format!("{e:?}"));
            let mut n = 0;
            for k in &l {
                n += w.oracle.entry(*k).or_default().insert(d) as usize;
            }
            out.mutated |= n > 0;
            if got != Ok(n > 0) {
                return fail("insert_array", format!("BTree::insert({d}, Array{l:?})"), format!("Ok({})", n > 0), format!("{got:?}"));
            }
        }
        "wget" => {
            let k: i64 = t[1].parse().map_err(|_| "key")?;
            let got = w.tree.query_with(&Fv::I64(k), |p| {
                let mut p = p.clone();
                p.sort_unstable();
                Some(p)
            });
            let exp: Option<Vec<u64>> = w.oracle.get(&k).map(|s| s.iter().copied().collect());
            out.answered |= got.is_some();
            if got != exp {
                return fail("query_with", format!("BTree::query_with({k})"), format!("{exp:?}"), format!("{got:?}"));
            }
        }
        "wdump" => {
            let got = dump_tree(&w.tree);
            let exp = dump_oracle(&w.oracle);
            out.answered |= exp != "-";
            if got.as_deref() != Ok(exp.as_str()) {
                return fail("contents", "contents (keys + query_with)".into(), exp, format!("{got:?}"));
            }
        }
        "wcompact" => {
            // compact_index flushes by itself when the bucket count shrinks: treat like a flush
            return wflush(w, out, None, true).await;
        }
        "wflush" => return wflush(w, out, None, false).await,
        "wcrash" => {
            let r: u64 = t.get(1).ok_or("wcrash R")?.parse().map_err(|_| "R")?;
            return wflush(w, out, Some(r), false).await;
        }
        "wreload" => {
            let objs = w.store.shadow.lock().unwrap().clone();
            return wreopen(w, &objs).await;
        }
        other => return Err(format!("unknown wrapper op {other}")),
    }
    Ok(None)
}

async fn wreopen(w: &mut W, objs: &BTreeMap<String, Bytes>) -> Result<Option<Failure>, String> {
    let store = store_from(objs).await;
    let st = connect(store.clone(), w.overload).await?;
    match BTree::bootstrap(NAME.into(), &Ft::I64, st).await {
        Ok(t) => {
            w.store = store;
            w.tree = t;
            w.oracle = w.committed.clone();
            let got = dump_tree(&w.tree);
            let exp = dump_oracle(&w.committed);
            if got.as_deref() != Ok(exp.as_str()) {
                return Ok(Some(Failure::Oracle { key: "wrapper:load".into(), what: "contents after reopen = last committed contents".into(), expected: exp, observed: format!("{got:?}") }));
            }
            Ok(None)
        }
        Err(e) => Ok(Some(Failure::Oracle { key: "wrapper:load".into(), what: "BTree::bootstrap from the committed store".into(), expected: "ok".into(), observed: format!("{e:?}") })),
    }
}

async fn wflush(w: &mut W, out: &mut CaseOut, crash: Option<u64>, compact: bool) -> Result<Option<Failure>, String> {
    let base = w.store.shadow.lock().unwrap().clone();
    w.store.log.lock().unwrap().clear();
    let r = if compact { w.tree.compact_index().await.map(|_| true) } else { w.tree.flush(w.now).await };
    if let Err(e) = r {
        return Ok(Some(Failure::Oracle { key: "wrapper:flush".into(), what: "BTree::flush / compact_index over a healthy store".into(), expected: "ok".into(), observed: format!("{e:?}") }));
    }
    let log: Vec<Mu> = w.store.log.lock().unwrap().clone();
    let meta_path = format!("btree_indexes/{NAME}/meta.cbor");
    let commit = log.iter().position(|m| matches!(m, Mu::Put(p, _) if p.ends_with(&meta_path)));
    let old = dump_oracle(&w.committed);
    let new = dump_oracle(&w.oracle);
    let mut objs = base.clone();
    for j in 0..=log.len() {
        if j > 0 {
            apply(&mut objs, &log[j - 1]);
        }
        let exp = if commit.is_some_and(|c| j > c) { &new } else { &old };
        let got = load_dump(&objs, w.overload).await;
        out.prefixes_loaded += 1;
        out.answered |= exp != "-";
        if got.as_deref() != Ok(exp.as_str()) {
            let shape: Vec<String> = log
                .iter()
                .map(|m| match m {
                    Mu::Put(p, _) => format!("PUT {p}"),
                    Mu::Del(p) => format!("DELETE {p}"),
                })
                .collect();
            return Ok(Some(Failure::Oracle {
                key: "wrapper:flush-crash".into(),
                what: format!("contents bootstrapped after {j} of {} backend mutations of a wrapper flush [{}]", log.len(), shape.join(", ")),
                expected: exp.clone(),
                observed: format!("{got:?}"),
            }));
        }
    }
    out.hit(&format!("wflush:mutations={}", log.len().min(8)));
    if let Some(r) = crash {
        let k = (r % (log.len() as u64 + 1)) as usize;
        let mut objs = base;
        for m in &log[..k] {
            apply(&mut objs, m);
        }
        if commit.is_some_and(|c| k > c) {
            w.committed = w.oracle.clone();
        }
        return wreopen(w, &objs).await;
    }
    if commit.is_some() {
        w.committed = w.oracle.clone();
    }
    Ok(None)
}

pub fn run_wrapper_ops(ops: &[String]) -> CaseOut {
    let rt = tokio::runtime::Builder::new_current_thread().enable_all().build().expect("tokio runtime");
    let mut out = CaseOut::default();
    let mut w: Option<W> = None;
    for (i, l) in ops.iter().enumerate() {
        out.ops.push(l.clone());
        let r = std::panic::catch_unwind(std::panic::AssertUnwindSafe(|| rt.block_on(wstep(&mut w, l, &mut out))));
        match r {
            Ok(Ok(None)) => {}
            Ok(Ok(Some(f))) => {
                out.failure = Some((i, f));
                break;
            }
            Ok(Err(e)) => {
                out.hit("bad_line");
                eprintln!("bad wrapper op {l:?}: {e}");
                break;
            }
            Err(_) => {
                out.failure = Some((i, Failure::Oracle { key: "wrapper:panic".into(), what: format!("panic in the code under test at `{l}`"), expected: "no panic".into(), observed: "panic".into() }));
                break;
            }
        }
    }
    out
}

pub fn gen_wrapper_case(seed: u64, case: u64, thorough: bool) -> Vec<String> {
    let mut r = Rng::for_case(seed ^ 0x77_7261_7070, case);
    let mut v = vec![format!("wnew {}", *r.pick(&[64usize, 64, 96]))];
    let n = if thorough { 20 + r.usize(60) } else { 10 + r.usize(30) };
    let ids = [5_000_000_000u64, 5_000_000_001, 5_000_000_002, 1, 2, 70_000];
    for _ in 0..n {
        let k = r.range(0, 7);
        let d = *r.pick(&ids);
        v.push(match r.usize(20) {
            0..=7 => format!("wins {d} {k}"),
            8..=10 => format!("wrem {d} {k}"),
            11..=12 => {
                let l: Vec<i64> = (0..1 + r.usize(5)).map(|_| r.range(0, 7)).collect();
                format!("winsa {d} {}", ks(&l))
            }
            13..=15 => "wflush".into(),
            16 => format!("wcrash {}", r.below(1000)),
            17 => "wcompact".into(),
            18 => "wreload".into(),
            _ => format!("wget {k}"),
        });
    }
    v.push("wflush".into());
    v.push("wdump".into());
    v.push("wreload".into());
    v.push("wdump".into());
    v
}
