//! Real threads without yield-point hooks: *measured*, never a proof (the interleavings that happen
//! are the ones the scheduler produces). The oracle is nevertheless exact under every schedule:
//! thread `t` only ever touches pairs `(key, id)` whose id belongs to `t`, so every return value and
//! the final contents are determined by each thread's own sequential history; a compaction thread
//! (exclusive side of the mutation gate) runs alongside.

use crate::world::{Idx, Oracle, Store, Wr, block_on, dump, dump_oracle};
use anda_db_btree::{BTreeConfig, BucketObject};
use std::cell::RefCell;
use std::collections::BTreeSet;
use std::sync::{Arc, Barrier};
use vh_common::Rng;

pub struct StressOut {
    pub runs: u64,
    pub ops: u64,
    pub compactions: u64,
    /// (what, expected, observed, per-thread op lists)
    pub failure: Option<(String, String, String, Vec<String>)>,
}

pub fn stress(seed: u64, runs: u64, nthreads: usize) -> StressOut {
    let mut out = StressOut { runs: 0, ops: 0, compactions: 0, failure: None };
    for run in 0..runs {
        let idx: Arc<Idx> = Arc::new(Idx::new("c10t".into(), Some(BTreeConfig { bucket_overload_size: 64, allow_duplicates: true })));
        let barrier = Arc::new(Barrier::new(nthreads + 1));
        let mut hs = Vec::new();
        for t in 0..nthreads {
            let idx = idx.clone();
            let barrier = barrier.clone();
            hs.push(std::thread::spawn(move || {
                let mut r = Rng::for_case(seed ^ 0x5712_e55, run * 16 + t as u64);
                let mut own: Oracle = Oracle::new();
                let mut log: Vec<String> = Vec::new();
                let mut bad: Option<(String, String, String)> = None;
                let ids: Vec<u64> = (0..3).map(|i| (t as u64) * 1_000_000_007 + i).collect();
                barrier.wait();
                for step in 0..120u64 {
                    let d = *r.pick(&ids);
                    let k = r.range(0, 5);
                    let (line, exp, got) = match r.usize(10) {
                        0..=4 => {
                            let exp = own.entry(k).or_default().insert(d);
                            (format!("t{t} ins {d} {k}"), format!("{exp}"), format!("{:?}", idx.insert(d, k, step).ok()))
                        }
                        5..=7 => {
                            let mut exp = false;
                            let mut gone = false;
                            if let Some(s) = own.get_mut(&k) {
                                exp = s.remove(&d);
                                gone = s.is_empty();
                            }
                            if gone {
                                own.remove(&k);
                            }
                            (format!("t{t} rem {d} {k}"), format!("{exp}"), format!("{}", idx.remove(d, k, step)))
                        }
                        8 => {
                            let ks: Vec<i64> = (0..3).map(|_| r.range(0, 5)).collect();
                            let mut n = 0;
                            for k in &ks {
                                n += own.entry(*k).or_default().insert(d) as usize;
                            }
                            (format!("t{t} insa {d} {ks:?}"), format!("{n}"), format!("{}", idx.insert_array(d, ks, step).map(|n| n as i64).unwrap_or(-1)))
                        }
                        _ => {
                            let ks: Vec<i64> = (0..3).map(|_| r.range(0, 5)).collect();
                            let mut n = 0;
                            for k in &ks {
                                let mut gone = false;
                                if let Some(s) = own.get_mut(k) {
                                    n += s.remove(&d) as usize;
                                    gone = s.is_empty();
                                }
                                if gone {
                                    own.remove(k);
                                }
                            }
                            (format!("t{t} rema {d} {ks:?}"), format!("{n}"), format!("{}", idx.remove_array(d, ks, step)))
                        }
                    };
                    let got = got.replace("Some(true)", "true").replace("Some(false)", "false");
                    if bad.is_none() && exp != got {
                        bad = Some((format!("return value of `{line}` under concurrency"), exp, got));
                    }
                    log.push(line);
                    if step % 16 == 0 {
                        std::thread::yield_now();
                    }
                }
                (own, log, bad)
            }));
        }
        let cidx = idx.clone();
        let cb = barrier.clone();
        let ch = std::thread::spawn(move || {
            cb.wait();
            let mut n = 0;
            for _ in 0..12 {
                cidx.compact_buckets();
                n += 1;
                std::thread::yield_now();
            }
            n
        });
        let mut expected: Oracle = Oracle::new();
        let mut logs = Vec::new();
        let mut bad = None;
        for h in hs {
            let (own, log, b) = h.join().expect("stress worker");
            for (k, s) in own {
                expected.entry(k).or_insert_with(BTreeSet::new).extend(s);
            }
            out.ops += log.len() as u64;
            logs.push(log.join("; "));
            if bad.is_none() {
                bad = b;
            }
        }
        out.compactions += ch.join().expect("compactor");
        out.runs += 1;
        let want = dump_oracle(&expected);
        if bad.is_none() {
            match dump(&idx) {
                Ok((_, sorted)) if sorted == want => {}
                Ok((_, sorted)) => bad = Some(("contents at quiescence after concurrent insert/remove/compact".into(), want.clone(), sorted)),
                Err(e) => bad = Some(("internal maps consistent at quiescence".into(), "consistent".into(), e)),
            }
        }
        if bad.is_none() {
            // what a flush serialises at quiescence must be all of it (every posting owned by a bucket)
            let log: RefCell<Vec<Wr>> = RefCell::new(Vec::new());
            let r = block_on(idx.flush_owned_with(
                1,
                |d: Vec<u8>| {
                    log.borrow_mut().push(Wr::Meta(d));
                    std::future::ready(Ok(()))
                },
                |o: BucketObject, d: Vec<u8>| {
                    log.borrow_mut().push(Wr::Put(o.bucket_id, o.generation, d));
                    std::future::ready(Ok(()))
                },
            ));
            let mut s = Store::default();
            for w in log.into_inner() {
                s.apply(&w);
            }
            match (r, s.load()) {
                (Ok(_), Some(Ok(re))) => match dump(&re) {
                    Ok((_, sorted)) if sorted == want => {}
                    Ok((_, sorted)) => bad = Some(("contents loaded from a flush taken at quiescence after concurrent mutations".into(), want.clone(), sorted)),
                    Err(e) => bad = Some(("reloaded index consistent".into(), "consistent".into(), e)),
                },
                (Err(e), _) => bad = Some(("flush at quiescence".into(), "ok".into(), format!("{e:?}"))),
                (_, Some(Err(e))) => bad = Some(("load at quiescence".into(), "ok".into(), e)),
                (_, None) => bad = Some(("load at quiescence".into(), "ok".into(), "no metadata written".into())),
            }
        }
        if let Some((what, e, o)) = bad {
            out.failure = Some((what, e, o, logs));
            return out;
        }
    }
    out
}
