//! One case = a sequence of statements on a fresh Nexus. Shared by vh-c17 and vh-c18
//! (`cfg.history` switches the AS OF battery of C18 on).
use crate::ops::*;
use crate::oracle::{self, Failure};
use crate::world::*;
use std::collections::BTreeMap;
use vh_common::{ModelProc, Rng};

#[derive(Clone, Copy)]
pub struct Cfg {
    /// C18: record a battery of queries at every coordinate and replay it `AS OF` after every later statement
    pub history: bool,
    /// C17: full "nothing observable changed" / version / uniqueness oracle
    pub atomicity: bool,
}

#[derive(Default)]
pub struct CaseResult {
    pub ops: Vec<String>,
    pub failures: Vec<Failure>,
    pub disagreement: Option<(String, String, String)>, // what, model, impl
    pub hits: Vec<String>,
    pub nontrivial: bool,
    pub canon: String,
    pub compared: u64,
    pub leftover_rows: u64,
    pub replays: u64,
    pub time_checks_skipped: u64,
}

pub enum Source<'a> {
    Gen { rng: &'a mut Rng, len: usize },
    Ops(&'a [String]),
}

/// the C18 battery: element, tuple, path, join, filter, aggregate, belief, order/limit patterns.
/// `sorted`: the answer is a set (no ORDER BY), compared after sorting its rows.
pub const BATTERY: [(&str, &str, &str, bool); 54] = [
    ("concept-default", "FIND(?e) WHERE { ?e CONCEPT {} }", "", true),
    ("concept-archived", "FIND(?e.id, ?e.name, ?e._system.version) WHERE { ?e CONCEPT {state: \"archived\"} }", "", true),
    ("concept-tombstoned", "FIND(?e.id, ?e._system.version) WHERE { ?e CONCEPT {state: \"tombstoned\"} }", "", true),
    ("concept-typed-key", "FIND(?e.id, ?e.key) WHERE { ?e CONCEPT {type: \"Person\"} }", "", true),
    ("tuple", "FIND(?p, ?s.id, ?o.id) WHERE { ?p PROPOSITION (?s, \"prefers\", ?o) }", "", true),
    ("tuple-path", "FIND(?s.name, ?o.name, ?p._system.version) WHERE { ?p PROPOSITION (?s, ?pred, ?o) }", "", true),
    ("assertion", "FIND(?a.id, ?a.confidence, ?a.lifecycle.status, ?a._system.version) WHERE { ?a ASSERTION {} }", "", true),
    ("assertion-join", "FIND(?a.id, ?p.id, ?s.name) WHERE { ?a ASSERTION {proposition: ?p} ?p PROPOSITION (?s, ?pred, ?o) }", "", true),
    ("evidence", "FIND(?e) WHERE { ?e EVIDENCE {} }", "", true),
    ("activity", "FIND(?e) WHERE { ?e ACTIVITY {state: \"active\"} }", "", true),
    ("filter", "FIND(?c.id, ?c.name) WHERE { ?c CONCEPT {} FILTER(?c.name != \"n1\") }", "", true),
    ("count", "FIND(COUNT(?c)) WHERE { ?c CONCEPT {} }", "", true),
    ("belief", "FIND(?p.id, ?b.status) WHERE { ?p PROPOSITION (?s, \"prefers\", ?o) ?b BELIEF (?p) }", "", true),
    // every Concept with its version AND its mutable columns (name, one attribute, one Facet member):
    // a coordinate that lost a version row shows as a vanished row or as an older version
    ("concept-version-values", "FIND(?c.id, ?c._system.version, ?c._system.state, ?c.name, ?c.attributes.note, ?c.facets[\"MnemonicState\"].salience) WHERE { ?c CONCEPT {state: ?s} }", "", true),
    ("concept-facet-filter", "FIND(?c.id, ?c._system.version, ?c.facets[\"MnemonicState\"].salience) WHERE { ?c CONCEPT {} FILTER(?c.facets[\"MnemonicState\"].salience > 0.4) }", "", true),
    ("order-limit", "FIND(?c.id, ?c.name) WHERE { ?c CONCEPT {} }", " ORDER BY ?c.id LIMIT 3", false),
    // answers that depend on the Schema Environment of the coordinate: a local type name and a local
    // predicate name that only the second environment knows (an error under the first one)
    ("env-type-name", "FIND(?c.id, ?c.name) WHERE { ?c CONCEPT {type: \"Gadget\"} }", "", true),
    ("env-predicate-name", "FIND(?p.id) WHERE { ?p PROPOSITION (?s, \"likes\", ?o) }", "", true),
    // ---- graph walks: hop-quantified path patterns, every range shape, both directions, anchored and not.
    // A link (or an endpoint Concept) that was active at the coordinate and was archived / tombstoned
    // later must still carry the walk AS OF the coordinate: the candidates of a one-hop step are the
    // Propositions whose version AT the coordinate is active, whatever their row says today.
    ("path-1", "FIND(?a.id, ?b.id) WHERE { (?a, \"same_as\"{1,1}, ?b) }", "", true),
    ("path-1-2", "FIND(?a.id, ?b.id) WHERE { (?a, \"same_as\"{1,2}, ?b) }", "", true),
    ("path-0-3-from", "FIND(?a.id, ?b.id) WHERE { ?a CONCEPT {type: \"Person\"} (?a, \"same_as\"{0,3}, ?b) }", "", true),
    ("path-2-up-from", "FIND(?a.id, ?b.id) WHERE { ?a CONCEPT {type: \"Person\"} (?a, \"same_as\"{2,}, ?b) }", "", true),
    ("path-1-3-to", "FIND(?a.id, ?b.id) WHERE { ?b CONCEPT {type: \"Person\"} (?a, \"same_as\"{1,3}, ?b) }", "", true),
    ("path-alt", "FIND(?a.id, ?b.id) WHERE { ?a CONCEPT {type: \"Person\"} (?a, \"same_as\"{1,2} | \"prefers\", ?b) }", "", true),
    ("path-bound-hop", "FIND(?p.id, ?a.id, ?b.id) WHERE { ?p PROPOSITION (?a, \"same_as\"{1,1}, ?b) }", "", true),
    ("path-names", "FIND(?a.name, ?b.name, ?b._system.state) WHERE { (?a, \"same_as\"{1,3}, ?b) }", "", true),
    // ---- the remaining WHERE forms: structural edges, NOT, OPTIONAL, UNION, the belief slot
    ("structural", "FIND(?x.id, ?y.id) WHERE { ?x CONCEPT {} STRUCTURAL (?x, \"experienced_by\", ?y) }", "", true),
    ("not", "FIND(?p.id) WHERE { ?p PROPOSITION (?s, \"prefers\", ?o) NOT { ?a ASSERTION {proposition: ?p} } }", "", true),
    ("optional", "FIND(?p.id, ?a.id, ?a.lifecycle.status) WHERE { ?p PROPOSITION (?s, ?pred, ?o) OPTIONAL { ?a ASSERTION {proposition: ?p} } }", "", true),
    ("union", "FIND(?c.id, ?c._system.state) WHERE { ?c CONCEPT {type: \"Person\"} UNION { ?c CONCEPT {state: \"archived\"} } }", "", true),
    ("belief-slot", "FIND(?slot.contested, ?slot.accepted) WHERE { ?slot BELIEF SLOT (:c1, \"prefers\") }", "", true),
    // ---- every (element kind, matcher key) pair `column_of` / `view_key` of kql/matching.rs know, constrained
    // to values the generated elements really carry (all statuses of the lifecycle clauses, classes,
    // digests, canonical ids): a present-day read answers through the index column, a read AS OF a
    // coordinate re-checks the key against the rendered view of the version row — the two must agree
    ("k-concept-id", "FIND(?e.id, ?e._system.version) WHERE { ?e CONCEPT {id: \"C-1\"} }", "", true),
    ("k-concept-schema_ref", "FIND(?e.id) WHERE { ?e CONCEPT {schema_ref: \"kip://profiles/cognitive-memory@2.0.0/Person\"} }", "", true),
    ("k-concept-key", "FIND(?e.id, ?e.key) WHERE { ?e CONCEPT {key: \"k1\"} UNION { ?e CONCEPT {key: \"k2\"} } UNION { ?e CONCEPT {key: \"k3\"} } }", "", true),
    ("k-concept-name", "FIND(?e.id, ?e.name) WHERE { ?e CONCEPT {name: \"n1\"} UNION { ?e CONCEPT {name: \"n2\"} } UNION { ?e CONCEPT {name: \"n3\"} } }", "", true),
    ("k-concept-canonical_id", "FIND(?e.id, ?e.canonical_id) WHERE { ?e CONCEPT {canonical_id: \"cid1\"} UNION { ?e CONCEPT {canonical_id: \"cid2\"} } UNION { ?e CONCEPT {canonical_id: \"cid3\"} } UNION { ?e CONCEPT {canonical_id: \"cid4\"} } }", "", true),
    ("k-concept-state", "FIND(?e.id, ?e._system.state) WHERE { ?e CONCEPT {state: \"active\"} UNION { ?e CONCEPT {state: \"merged\"} } }", "", true),
    ("k-assertion-id", "FIND(?a.id, ?a._system.version) WHERE { ?a ASSERTION {id: \"A-1\"} }", "", true),
    ("k-assertion-state", "FIND(?a.id, ?a._system.state) WHERE { ?a ASSERTION {state: \"active\"} UNION { ?a ASSERTION {state: \"archived\"} } UNION { ?a ASSERTION {state: \"tombstoned\"} } }", "", true),
    ("k-assertion-proposition", "FIND(?a.id) WHERE { ?a ASSERTION {proposition: \"P-1\"} }", "", true),
    ("k-assertion-stance", "FIND(?a.id) WHERE { ?a ASSERTION {stance: \"support\"} }", "", true),
    ("k-assertion-mode", "FIND(?a.id) WHERE { ?a ASSERTION {mode: \"stated\"} }", "", true),
    ("k-assertion-status", "FIND(?a.id, ?a.lifecycle.status) WHERE { ?a ASSERTION {status: \"active\"} UNION { ?a ASSERTION {status: \"retracted\"} } UNION { ?a ASSERTION {status: \"superseded\"} } }", "", true),
    ("k-assertion-by", "FIND(?a.id, ?who) WHERE { ?a ASSERTION {by: ?who} }", "", true),
    ("k-evidence-id", "FIND(?e.id, ?e._system.version) WHERE { ?e EVIDENCE {id: \"E-1\"} }", "", true),
    ("k-evidence-state", "FIND(?e.id, ?e._system.state) WHERE { ?e EVIDENCE {state: \"active\"} UNION { ?e EVIDENCE {state: \"archived\"} } UNION { ?e EVIDENCE {state: \"tombstoned\"} } }", "", true),
    ("k-evidence-evidence_class", "FIND(?e.id) WHERE { ?e EVIDENCE {evidence_class: \"message\"} }", "", true),
    ("k-evidence-class", "FIND(?e.id) WHERE { ?e EVIDENCE {class: \"message\"} }", "", true),
    ("k-evidence-content_digest", "FIND(?e.id, ?e.content_digest) WHERE { ?e EVIDENCE {content_digest: \"d1\"} UNION { ?e EVIDENCE {content_digest: \"d2\"} } UNION { ?e EVIDENCE {content_digest: \"d3\"} } }", "", true),
    ("k-evidence-status", "FIND(?e.id, ?e.lifecycle.status) WHERE { ?e EVIDENCE {status: \"active\"} UNION { ?e EVIDENCE {status: \"corrected\"} } }", "", true),
    ("k-activity-id", "FIND(?x.id, ?x._system.version) WHERE { ?x ACTIVITY {id: \"X-1\"} }", "", true),
    ("k-activity-activity_class", "FIND(?x.id) WHERE { ?x ACTIVITY {activity_class: \"reflection\"} }", "", true),
    ("k-activity-class", "FIND(?x.id) WHERE { ?x ACTIVITY {class: \"reflection\"} }", "", true),
    ("k-activity-status", "FIND(?x.id, ?x.status) WHERE { ?x ACTIVITY {status: \"pending\"} UNION { ?x ACTIVITY {status: \"running\"} } UNION { ?x ACTIVITY {status: \"completed\"} } UNION { ?x ACTIVITY {status: \"failed\"} } }", "", true),
];

/// every (kind, matcher key) pair some battery query constrains (the translator reads this list into
/// `Gen/QueryForms.lean` `batteryKeys`; `check_battery_forms` verifies each claim against the query texts)
pub const BATTERY_KEYS: [(&str, &str); 25] = [
    ("Concept", "id"), ("Concept", "state"), ("Concept", "type"), ("Concept", "schema_ref"), ("Concept", "key"), ("Concept", "name"), ("Concept", "canonical_id"),
    ("Assertion", "id"), ("Assertion", "state"), ("Assertion", "proposition"), ("Assertion", "stance"), ("Assertion", "mode"), ("Assertion", "status"), ("Assertion", "by"),
    ("Evidence", "id"), ("Evidence", "state"), ("Evidence", "evidence_class"), ("Evidence", "class"), ("Evidence", "content_digest"), ("Evidence", "status"),
    ("Activity", "id"), ("Activity", "state"), ("Activity", "activity_class"), ("Activity", "class"), ("Activity", "status"),
];

/// every WHERE form of `kql/mod.rs` `apply_clause_inner` the battery exercises (the translator reads this
/// list into `Gen/QueryForms.lean`; `check_battery_forms` verifies at start-up, with the real parser, that
/// each name really occurs in some battery query)
pub const BATTERY_FORMS: [&str; 12] = ["Activity", "Assertion", "Belief", "BeliefSlot", "Concept", "Evidence", "Filter", "Not", "Optional", "Proposition", "Structural", "Union"];

/// the battery really contains every form it claims: parse each query, look at the WHERE clause variants
pub fn check_battery_forms() -> Vec<String> {
    let mut seen = String::new();
    for (_, q, tail, _) in BATTERY {
        if let Ok(cmd) = anda_kip::parse_kip(&format!("{q}{tail}")) { seen.push_str(&format!("{cmd:?}")); }
    }
    let mut missing: Vec<String> = BATTERY_FORMS.iter().filter(|f| !seen.contains(&format!("{f} {{")) && !seen.contains(&format!("{f}("))).map(|f| f.to_string()).collect();
    // a claimed (kind, key) pair: some query has `<KIND> {… key: …}`
    for (kind, key) in BATTERY_KEYS.iter() {
        let open = format!("{} {{", kind.to_uppercase());
        let found = BATTERY.iter().any(|(_, q, _, _)| q.match_indices(&open).any(|(i, _)| { let rest = &q[i + open.len()..]; let end = rest.find('}').unwrap_or(rest.len()); rest[..end].contains(&format!("{key}:")) }));
        if !found { missing.push(format!("{kind}.{key}")); }
    }
    missing
}
/// the pattern that also reaches `pending` shell rows (root cause F-C17-1); reported under its own key
pub const ANYSTATE: (&str, &str) = ("concept-anystate", "FIND(?e.id, ?e._system.version) WHERE { ?e CONCEPT {state: ?s} }");

fn canon_answer(text: &str, sorted: bool) -> String {
    if !sorted {
        return text.to_string();
    }
    match serde_json::from_str::<serde_json::Value>(text) {
        Ok(serde_json::Value::Array(a)) => {
            let mut rows: Vec<String> = a.iter().map(|r| r.to_string()).collect();
            rows.sort();
            format!("[{}]", rows.join(","))
        }
        _ => text.to_string(),
    }
}

/// One stable key per root cause: a pattern that names a `state` and comes back empty at a past
/// coordinate is F-C18-1 whatever the kind and the coordinate form; anything else is keyed by the
/// battery entry.
fn asof_key(form: &str, i: usize, observed: &str) -> String {
    if BATTERY[i].1.contains("{state: \"") && observed == "[]" {
        "asof-state-pattern-matches-nothing".to_string()
    } else {
        format!("asof-{form}-differs:{}", BATTERY[i].0)
    }
}

/// battery entries whose rows are self-contained (each row spells the ids it depends on), so that
/// rows mentioning an element a later committed PURGE destroyed can be set aside on both sides
const SCRUBBABLE: [usize; 12] = [0, 1, 2, 3, 4, 6, 8, 9, 10, 13, 14, 16];

/// drops the rows that mention a purged element
fn scrub(text: &str, purged: &[String]) -> String {
    match serde_json::from_str::<serde_json::Value>(text) {
        Ok(serde_json::Value::Array(a)) => {
            let rows: Vec<String> = a.iter().map(|r| r.to_string()).filter(|r| !purged.iter().any(|p| r.contains(&format!("\"{}\"", real_id(p))))).collect();
            format!("[{}]", rows.join(","))
        }
        _ => text.to_string(),
    }
}

/// replay = recording; after a committed purge of some elements only for what does not depend on
/// them ("only an explicit purge removes the past"). `None` = not comparable any more.
fn same_answer(i: usize, recorded: &str, now: &str, purged_since: &[String]) -> Option<bool> {
    if purged_since.is_empty() {
        return Some(recorded == now);
    }
    if i != usize::MAX && !SCRUBBABLE.contains(&i) {
        return None;
    }
    Some(scrub(recorded, purged_since) == scrub(now, purged_since))
}

struct Recorded {
    seq: u64,
    tx_id: Option<String>,
    at: Option<String>,
    answers: Vec<String>,
    anystate: String,
    /// the Schema Environment version in force when the coordinate was the present
    env: String,
}

async fn battery(w: &World, suffix: &str) -> (Vec<String>, String) {
    let mut out = Vec::with_capacity(BATTERY.len());
    for (_, q, tail, sorted) in BATTERY {
        out.push(canon_answer(&w.ask(&format!("{q}{suffix}{tail}")).await, sorted));
    }
    let any = canon_answer(&w.ask(&format!("{}{suffix}", ANYSTATE.1)).await, true);
    (out, any)
}

pub async fn run_case(name: &str, cfg: Cfg, mut model: Option<&mut ModelProc>, mut src: Source<'_>) -> CaseResult {
    let mut res = CaseResult::default();
    if cfg.history {
        for f in check_battery_forms() {
            res.failures.push(Failure { key: "battery-misses-query-form".into(), what: format!("the battery claims to exercise the WHERE form {f} and no query of it parses to one"), expected: f.clone(), observed: "-".into() });
        }
    }
    let w = World::new(name).await;
    if let Some(m) = model.as_deref_mut() {
        m.ask("reset");
    }
    let mut pre = w.raw_dump().await;
    let mut pre_q = if cfg.atomicity { w.query_dump(&pre).await } else { BTreeMap::new() };
    let mut recorded: Vec<Recorded> = Vec::new();
    let mut purged_log: Vec<(u64, String)> = Vec::new(); // (sequence of the committed purge, element)
    let mut step = 0usize;
    let mut canon = String::new();
    let mut model_alive = model.is_some();
    let mut env_b = false;
    let mut activations = 0;
    loop {
        let mut activate: Option<u8> = None;
        let st = match &mut src {
            Source::Gen { rng, len } => {
                if step >= *len { break; }
                // 1–2 schema activations per history, after at least one AS OF replay happened
                if step >= 2 && activations < 2 && rng.chance(1, 5) {
                    activate = Some(if env_b { 1 } else { 2 });
                    Stmt { dry: false, clauses: vec![] }
                } else {
                    let mut k = World::known(&pre);
                    k.env_b = env_b;
                    gen_stmt(rng, &k)
                }
            }
            Source::Ops(ops) => {
                if step >= ops.len() { break; }
                if let Some(n) = ops[step].strip_prefix("activate ") {
                    activate = Some(if n.trim() == "2" { 2 } else { 1 });
                }
                match if activate.is_some() { Some(Stmt { dry: false, clauses: vec![] }) } else { Stmt::parse(&ops[step]) } {
                    Some(s) => s,
                    None => { step += 1; res.hits.push("op:unparsable-line".into()); continue; }
                }
            }
        };
        step += 1;
        let line = match activate { Some(n) => format!("activate {n}"), None => st.line(step as u64) };
        res.ops.push(line.clone());
        for c in &st.clauses {
            res.hits.push(format!("clause:{}", c.shape()));
            if let Clause::Ud { acts, .. } = c {
                for a in acts { res.hits.push(format!("update:{}", a.family())); }
                if acts.iter().all(|a| matches!(a, Act::Facet(_) | Act::UnsetFacet)) { res.hits.push("update:facet-only".into()); }
            }
        }
        res.hits.push(format!("stmt:clauses={}", st.clauses.len().min(6)));
        if st.dry { res.hits.push("stmt:dry".into()); }

        let purge_targets: std::collections::BTreeSet<String> = st.clauses.iter().filter_map(|c| if let Clause::Pg { t: Ref::Id(i), .. } = c { Some(i.clone()) } else { None }).collect();
        let out = match activate {
            Some(n) => {
                activations += 1;
                res.hits.push("stmt:schema-activation".into());
                match w.activate(n).await {
                    Ok(version) => { env_b = n == 2; Outcome::Activated { seq: w.space_seq().await, version } }
                    Err(e) => Outcome::Odd(format!("activation failed: {e}")),
                }
            }
            None => w.exec(&st).await,
        };
        let post = w.raw_dump().await;
        match &out {
            Outcome::Parse(_) => res.hits.push("out:parse-rejected".into()),
            Outcome::Refused { code, .. } => res.hits.push(format!("out:refused:{code}")),
            Outcome::Dry { .. } => res.hits.push("out:dry".into()),
            Outcome::Done { status, changes, .. } => {
                res.hits.push(format!("out:{status}"));
                if !changes.is_empty() { res.nontrivial = true; }
                if changes.iter().any(|c| c.1 != "create") { res.hits.push("out:changed-existing".into()); }
            }
            Outcome::Activated { .. } => res.hits.push("out:activated".into()),
            Outcome::Odd(_) => res.hits.push("out:odd".into()),
        }
        // coverage of the model's branches: which clause kind ended how when it stood alone, and in which
        // statements each kind took part in a commit / a refusal (evidence: `coverage` histogram)
        let how = match &out {
            Outcome::Refused { code, message } => format!("refused-{}", err_class(code, message)),
            Outcome::Dry { .. } => "dry".to_string(),
            Outcome::Done { status, .. } => status.clone(),
            _ => "other".to_string(),
        };
        if activate.is_none() {
            if st.clauses.len() == 1 { res.hits.push(format!("alone:{}:{how}", st.clauses[0].shape())); }
            let mut kinds: Vec<&'static str> = st.clauses.iter().map(|c| c.shape()).collect();
            kinds.sort(); kinds.dedup();
            for k in kinds { res.hits.push(format!("in:{k}:{}", how.split('-').next().unwrap_or("other"))); }
        }
        canon.push_str(&out.canon());
        canon.push('|');

        // ---------------- C17 oracle
        if cfg.atomicity {
            let post_q = w.query_dump(&post).await;
            match &out {
                Outcome::Done { .. } => res.failures.extend(oracle::check_commit(&out, &pre, &post, &purge_targets)),
                Outcome::Odd(s) => res.failures.push(Failure { key: "odd-response".into(), what: "a successful response without a receipt".into(), expected: "receipt".into(), observed: s.clone() }),
                Outcome::Activated { seq, version } => {
                    if post.elems != pre.elems || post.vlog != pre.vlog || post.journal != pre.journal || *seq != pre.seq + 1 || *version != pre.env + 1 || post.env != *version {
                        res.failures.push(Failure { key: "activation-touched-cognition".into(), what: "a schema activation takes one sequence and one environment version and touches nothing else".into(), expected: format!("seq {} env {}", pre.seq + 1, pre.env + 1), observed: format!("seq {seq} env {version} (stored {})", post.env) });
                    }
                }
                _ => {
                    let fs = oracle::check_noop(&out, &pre_q, &post_q, &pre, &post);
                    if post.elems.len() != pre.elems.len() {
                        res.leftover_rows += (post.elems.len() as i64 - pre.elems.len() as i64).unsigned_abs();
                        res.hits.push("leftover:raw-rows-after-refusal".into());
                    }
                    res.failures.extend(fs);
                }
            }
            res.failures.extend(oracle::check_unique(&post));
            pre_q = post_q;
        }

        // ---------------- both: the version log, counted per element (independent of the model):
        // a commit adds exactly one row per changed element, a committed purge leaves only the stub
        // row of its target, nothing else ever removes a row
        res.failures.extend(oracle::check_log_counts(&out, &pre, &post, &purge_targets));

        // ---------------- C18 oracle: replay every recorded coordinate, then record this one
        if cfg.history {
            if let Outcome::Done { seq, changes, .. } = &out {
                for t in &purge_targets {
                    if changes.iter().any(|c| &c.0 == t) {
                        purged_log.push((*seq, t.clone()));
                        res.hits.push("asof:committed-purge".into());
                    }
                }
            }
            for rec in &recorded {
                let purged_since: Vec<String> = purged_log.iter().filter(|p| p.0 > rec.seq).map(|p| p.1.clone()).collect();
                let (now, any) = battery(&w, &format!(" AS OF SEQ {}", rec.seq)).await;
                res.replays += now.len() as u64;
                for (i, a) in now.iter().enumerate() {
                    let same = same_answer(i, &rec.answers[i], a, &purged_since);
                    if same.is_none() { res.hits.push("asof:not-comparable-after-purge".into()); }
                    if same == Some(false) {
                        res.failures.push(Failure { key: asof_key("seq", i, a), what: format!("`{} AS OF SEQ {}{}` differs from what the query returned when {} was the present", BATTERY[i].1, rec.seq, BATTERY[i].2, rec.seq), expected: rec.answers[i].clone(), observed: a.clone() });
                    }
                }
                if same_answer(usize::MAX, &rec.anystate, &any, &purged_since) == Some(false) {
                    res.failures.push(Failure { key: "asof-omits-pending-shell-rows".into(), what: format!("`{} AS OF SEQ {}` differs from the live answer at {}", ANYSTATE.1, rec.seq, rec.seq), expected: rec.anystate.clone(), observed: any });
                }
                // the Schema Environment of that point
                let e1 = w.ask_member(&format!("DESCRIBE SCHEMA ENVIRONMENT AS OF SEQ {}", rec.seq), "version").await;
                let e2 = w.ask_member(&format!("SNAPSHOT AS OF SEQ {}", rec.seq), "schema_environment_version").await;
                res.replays += 2;
                if e1 != rec.env || e2 != rec.env {
                    res.failures.push(Failure { key: "asof-schema-environment-version-differs".into(), what: format!("the Schema Environment version reported AS OF SEQ {} is not the one in force when {} was the present", rec.seq, rec.seq), expected: rec.env.clone(), observed: format!("DESCRIBE SCHEMA ENVIRONMENT AS OF: {e1}; SNAPSHOT AS OF: {e2}") });
                }
                if let Some(tx) = &rec.tx_id {
                    let (now, _) = battery(&w, &format!(" AS OF TX \"{tx}\"")).await;
                    res.replays += now.len() as u64;
                    for (i, a) in now.iter().enumerate() {
                        if same_answer(i, &rec.answers[i], a, &purged_since) == Some(false) {
                            res.failures.push(Failure { key: asof_key("tx", i, a), what: format!("`{} AS OF TX {tx}` differs from the recording", BATTERY[i].1), expected: rec.answers[i].clone(), observed: a.clone() });
                        }
                    }
                }
                if let Some(at) = &rec.at {
                    // AS OF TIME resolves to the *last* commit at or before the instant: only a
                    // commit whose millisecond is not shared with a later one names itself
                    let unique = post.journal.iter().filter(|j| &j.4 == at).count() == 1 && post.journal.iter().all(|j| j.0 <= rec.seq || &j.4 > at);
                    // a later refused / dry statement burns a sequence without a journal row: the instant still names `rec.seq`
                    if unique {
                        let (now, _) = battery(&w, &format!(" AS OF TIME \"{at}\"")).await;
                        res.replays += now.len() as u64;
                        for (i, a) in now.iter().enumerate() {
                            if same_answer(i, &rec.answers[i], a, &purged_since) == Some(false) {
                                res.failures.push(Failure { key: asof_key("time", i, a), what: format!("`{} AS OF TIME {at}` differs from the recording at sequence {}", BATTERY[i].1, rec.seq), expected: rec.answers[i].clone(), observed: a.clone() });
                            }
                        }
                    } else {
                        res.time_checks_skipped += 1;
                    }
                }
            }
            // payload immutability across versions (assertions / evidence), over the rows the version
            // log holds now (a committed purge destroys the old rows together with the content)
            let mut payloads: BTreeMap<String, String> = BTreeMap::new();
            for v in &post.vlog {
                if v.0.starts_with('A') || v.0.starts_with('E') {
                    let row: serde_json::Value = serde_json::from_str(&v.4).unwrap_or_default();
                    let proj = payload_projection(&v.0, &row);
                    if let Some(old) = payloads.get(&v.0) {
                        if *old != proj {
                            res.failures.push(Failure { key: "payload-changed-across-versions".into(), what: format!("{}: the epistemic payload differs between versions", v.0), expected: old.clone(), observed: proj.clone() });
                        }
                    } else {
                        payloads.insert(v.0.clone(), proj);
                    }
                }
            }
            // record the coordinate that is the present now (every statement burns one, committed or not)
            if !matches!(out, Outcome::Parse(_)) && recorded.iter().all(|r| r.seq != post.seq) {
                let (answers, anystate) = battery(&w, "").await;
                for (i, a) in answers.iter().enumerate() {
                    if a.starts_with("error") || a.starts_with("parse-error") { res.hits.push(format!("battery-error:{}:{}", BATTERY[i].0, &a[..a.len().min(60)])); } else if a != "[]" { res.hits.push(format!("battery-nonempty:{}", BATTERY[i].0)); }
                    if i == 14 && a.contains("0.") { res.hits.push("battery:facet-value-read".into()); }
                }
                let (tx_id, at) = match &out { Outcome::Done { tx_id, committed_at, .. } => (Some(tx_id.clone()), Some(committed_at.clone())), _ => (None, None) };
                let env = w.ask_member("DESCRIBE SCHEMA ENVIRONMENT", "version").await;
                if env != post.env.to_string() {
                    res.failures.push(Failure { key: "environment-version-mismatch".into(), what: "DESCRIBE SCHEMA ENVIRONMENT disagrees with the Space row".into(), expected: post.env.to_string(), observed: env.clone() });
                }
                recorded.push(Recorded { seq: post.seq, tx_id, at, answers, anystate, env });
                res.hits.push("asof:coordinate-recorded".into());
            }
        }

        // ---------------- correspondence with the Lean model
        if model_alive && !matches!(out, Outcome::Parse(_)) {
            let m = model.as_deref_mut().unwrap();
            let mo = m.ask(if activate.is_some() { "activate" } else { &line });
            let io = out.canon();
            res.compared += 1;
            if mo != io {
                res.disagreement = Some((format!("outcome of statement {step}: {}", render(&st).0.replace('\n', " ")), mo, io));
                model_alive = false;
            } else {
                let md = model_dump_canon(&m.ask("dump"));
                let id = post.canon();
                res.compared += 1;
                if md != id {
                    res.disagreement = Some((format!("store after statement {step} ({})", m.ask("stage")), md, id));
                    model_alive = false;
                } else if cfg.history {
                    // the model's reconstruction at every recorded coordinate vs the version log read through AS OF
                    for rec in &recorded {
                        let me = m.ask(&format!("envat {}", rec.seq));
                        res.compared += 1;
                        let ie = w.ask_member(&format!("DESCRIBE SCHEMA ENVIRONMENT AS OF SEQ {}", rec.seq), "version").await;
                        if me != ie {
                            res.disagreement = Some((format!("Schema Environment version in force at {} (schema_version_at, after statement {step})", rec.seq), me, ie));
                            model_alive = false;
                            break;
                        }
                        let ma = m.ask(&format!("asofv {}", rec.seq));
                        let ia = impl_asof(&w, rec.seq).await;
                        res.compared += 1;
                        if ma != ia {
                            res.disagreement = Some((format!("(id, version, state) visible AS OF SEQ {} after statement {step}", rec.seq), ma, ia));
                            model_alive = false;
                            break;
                        }
                    }
                }
                res.hits.push(format!("stage:{}", m.ask("stage").split(' ').next().unwrap_or("?")));
            }
        }
        pre = post;
        // one report per root cause and case; the case goes on (the engine's state is still the
        // state the model predicts), it stops only when model and engine diverge
        let mut seen = std::collections::BTreeSet::new();
        res.failures.retain(|f| seen.insert(f.key.clone()));
        if res.disagreement.is_some() || res.failures.iter().any(|f| f.key == "panic") {
            break;
        }
    }
    res.canon = canon;
    res
}

/// the immutable epistemic payload of an Assertion / Evidence version row
pub fn payload_projection(id: &str, row: &serde_json::Value) -> String {
    let fields: &[&str] = if id.starts_with('A') {
        &["proposition_id", "asserted_by", "stance", "mode", "confidence", "asserted_at", "valid_from", "valid_until", "evidence_refs", "context_refs"]
    } else {
        &["evidence_class", "payload_mode", "payload_inline", "content_ref", "content_digest", "media_type", "observed_at", "source_refs", "generated_by"]
    };
    fields.iter().map(|f| format!("{f}={}", row[*f])).collect::<Vec<_>>().join(";")
}

/// every element (any non-shell state) the real engine shows AS OF a coordinate, in the model's
/// `asof` format restricted to what AS OF answers carry: `id/version/state`
pub async fn impl_asof(w: &World, seq: u64) -> String {
    let mut rows: Vec<(usize, u64, String)> = Vec::new();
    for (_, c, kw) in KINDS {
        let q = if c == 'P' {
            // tuple patterns read active tuples only; the model line is filtered the same way below
            format!("FIND(?e.id, ?e._system.version, ?e._system.state) WHERE {{ ?e PROPOSITION (?s, ?pred, ?o) }} AS OF SEQ {seq}")
        } else {
            format!("FIND(?e.id, ?e._system.version, ?e._system.state) WHERE {{ ?e {kw} {{state: ?st}} }} AS OF SEQ {seq}")
        };
        let text = w.ask(&q).await;
        if let Ok(serde_json::Value::Array(a)) = serde_json::from_str::<serde_json::Value>(&text) {
            for r in a {
                let id = compact_id(r[0].as_str().unwrap_or("?"));
                let k = id_sort_key(&id);
                rows.push((k.0, k.1, format!("{id}/{}/{}", r[1], r[2].as_str().unwrap_or("?"))));
            }
        } else {
            rows.push((9, 0, format!("{c}:{text}")));
        }
    }
    rows.sort();
    if rows.is_empty() { "-".into() } else { rows.into_iter().map(|r| r.2).collect::<Vec<_>>().join(";") }
}

/// Measured, not proved: real reader tasks (KQL `COUNT` over active Concepts) run on other threads
/// while a writer commits statements that each create — or archive — exactly two Concepts. A reader
/// that overlapped a half-written statement would see an odd count. Returns (reads, torn reads,
/// statements committed).
pub fn concurrent_readers(statements: usize) -> (u64, u64, u64) {
    use std::sync::Arc;
    use std::sync::atomic::{AtomicBool, AtomicU64, Ordering};
    let rt = tokio::runtime::Builder::new_multi_thread().worker_threads(4).enable_all().build().expect("runtime");
    rt.block_on(async move {
        let w = Arc::new(World::new("concurrent_readers").await);
        let done = Arc::new(AtomicBool::new(false));
        let reads = Arc::new(AtomicU64::new(0));
        let torn = Arc::new(AtomicU64::new(0));
        let mut readers = Vec::new();
        for _ in 0..3 {
            let (w, done, reads, torn) = (w.clone(), done.clone(), reads.clone(), torn.clone());
            readers.push(tokio::spawn(async move {
                while !done.load(Ordering::Relaxed) {
                    let a = w.ask("FIND(COUNT(?c)) WHERE { ?c CONCEPT {} }").await;
                    let n: Option<u64> = serde_json::from_str::<serde_json::Value>(&a).ok().and_then(|v| v.get(0).and_then(|x| x.as_u64()));
                    reads.fetch_add(1, Ordering::Relaxed);
                    match n {
                        Some(n) if n % 2 == 0 => {}
                        _ => { torn.fetch_add(1, Ordering::Relaxed); }
                    }
                    tokio::task::yield_now().await;
                }
            }));
        }
        let mut committed = 0u64;
        for k in 0..statements {
            let text = if k % 4 == 3 {
                // archive the pair created by statement k-3 (two rows change state in one statement)
                let a = 2 * (k - 3) + 1;
                format!("MUTATE {{ ARCHIVE :a ARCHIVE :b }}").replace(":a", &format!(":p{a}")).replace(":b", &format!(":p{}", a + 1))
            } else {
                "MUTATE { CREATE CONCEPT ?a { TYPE \"Person\" NAME \"x\" } CREATE CONCEPT ?b { TYPE \"Preference\" NAME \"y\" } ENSURE PROPOSITION (?a, \"prefers\", ?b) }".to_string()
            };
            let mut params = BTreeMap::new();
            if k % 4 == 3 {
                // ids of the pair: statements k with k % 4 != 3 create Concepts; count them
                let created_before = |j: usize| -> usize { (0..j).filter(|x| x % 4 != 3).count() };
                let first = 2 * created_before(k - 3) + 1;
                params.insert(format!("p{}", 2 * (k - 3) + 1), format!("C-{first}"));
                params.insert(format!("p{}", 2 * (k - 3) + 2), format!("C-{}", first + 1));
            }
            if let Ok(r) = w.run(&text, &params, false).await {
                if r.status == anda_kip::TopLevelStatus::Succeeded { committed += 1; }
            }
            tokio::task::yield_now().await;
        }
        done.store(true, Ordering::Relaxed);
        for r in readers { let _ = r.await; }
        (reads.load(Ordering::Relaxed), torn.load(Ordering::Relaxed), committed)
    })
}
