//! The real side: an in-memory Cognitive Nexus, statement execution through `parse_kip` +
//! `Executor::execute`, and the two dumps (what queries / META / AS OF reads return; what the raw
//! collections hold).
use crate::ops::*;
use anda_cognitive_nexus::{
    CognitiveNexus, Element,
    id::ElementId,
    nexus::DEFAULT_SPACE,
    profiles::COGNITIVE_MEMORY,
    schema::{PackageState, SchemaLock, SchemaPackage},
    store::rows::{ElementVersionRow, TransactionRow},
};
use anda_db::database::{AndaDB, DBConfig};
use anda_kip::{ElementKind, Executor, Request, Response, TopLevelStatus};
use object_store::memory::InMemory;
use serde_json::Value;
use std::collections::BTreeMap;
use std::sync::Arc;

const PROFILE_ID: &str = "kip://profiles/cognitive-memory";
const EXTRA_ID: &str = "kip://vh/extra";
/// a second package: one more local type name and one more local predicate name
const EXTRA: &str = r#"{
    "format": "KIP-Schema-Package",
    "manifest": {"package_id": "kip://vh/extra", "version": "1.0.0"},
    "definitions": {
        "concept_types": { "Gadget": {"kind": "ConceptType", "description": "A thing."} },
        "predicates": { "likes": {"kind": "PredicateType", "description": "Likes.", "subject": {"kinds": ["Concept"]}, "object": {"kinds": ["Concept"]}, "functional": false, "open_world": true, "complete": false} }
    }
}"#;
pub const KINDS: [(ElementKind, char, &str); 5] = [
    (ElementKind::Assertion, 'A', "ASSERTION"),
    (ElementKind::Concept, 'C', "CONCEPT"),
    (ElementKind::Evidence, 'E', "EVIDENCE"),
    (ElementKind::Proposition, 'P', "PROPOSITION"),
    (ElementKind::Activity, 'X', "ACTIVITY"),
];

pub struct World {
    pub nexus: CognitiveNexus,
}

/// the receipt-level outcome of one statement
#[derive(Clone, Debug)]
pub enum Outcome {
    /// rejected by `parse_kip`: never reached the engine
    #[allow(dead_code)]
    Parse(String),
    Refused { code: String, message: String },
    Dry { changes: Vec<(String, String, u64)> },
    Done { seq: u64, status: String, changes: Vec<(String, String, u64)>, tx_id: String, committed_at: String },
    /// a schema activation (not a KML statement): the sequence it took and the version it minted
    Activated { seq: u64, version: u64 },
    /// a successful response without a usable receipt (never expected)
    Odd(String),
}

impl Outcome {
    /// the line the Lean driver prints for the same statement
    pub fn canon(&self) -> String {
        let ch = |cs: &Vec<(String, String, u64)>| if cs.is_empty() { "-".to_string() } else { cs.iter().map(|(i, o, v)| format!("{i}.{o}.{v}")).collect::<Vec<_>>().join("+") };
        match self {
            Outcome::Parse(_) => "parse".into(),
            Outcome::Refused { code, message } => format!("refused {}", err_class(code, message)),
            Outcome::Dry { changes } => format!("dry {}", ch(changes)),
            Outcome::Done { seq, status, changes, .. } => format!("done {seq} {status} {}", ch(changes)),
            Outcome::Activated { seq, version } => format!("ok {seq} {version}"),
            Outcome::Odd(s) => format!("odd {s}"),
        }
    }
}

pub fn err_class(code: &str, _message: &str) -> &'static str {
    match code {
        "VersionConflict" => "version",
        "PreconditionFailed" => "precond",
        "IdentityConflict" => "identity",
        "NotFoundOrNotVisible" => "notfound",
        _ => "invalid",
    }
}

/// the row text in which a quoted id means "this row refers to that element"
fn reference_text(full: &str) -> String {
    if !full.contains("\"supersede") && !full.contains("\"merged_into\":\"C") { return full.to_string(); }
    match serde_json::from_str::<Value>(full) {
        // (neither is a Concept's `merged_into` pointer: `Element::references` lists a Concept's structural edges only)
        Ok(Value::Object(mut m)) => { m.remove("supersedes"); m.remove("superseded_by"); m.remove("merged_into"); Value::Object(m).to_string() }
        _ => full.to_string(),
    }
}

/// `retention.retention_class` = "r<k>" as the code k (0 = no retention block)
fn ret_code(retention: &Value) -> u32 {
    retention.get("retention_class").and_then(|v| v.as_str()).map(code_of).unwrap_or(0)
}
/// the row number of an element id string (`A-3` -> 3)
fn row_number(id: &str) -> u64 {
    id.rsplit('-').next().and_then(|n| n.parse().ok()).unwrap_or(0)
}
fn row_numbers(ids: &[String]) -> Vec<u64> {
    ids.iter().map(|i| row_number(i)).collect()
}

#[derive(Clone, Debug, PartialEq, Eq)]
pub struct RawElem {
    pub version: u64,
    pub state: String,
    pub ty: u32,
    pub key: u32,
    pub val: u32,
    pub att: u32,
    pub fac: u32,
    /// `retention.retention_class` as a code (0 = no retention block)
    pub ret: u32,
    /// `supersedes` of an Assertion / `corrects` of Evidence: the row numbers, in stored order
    pub links: Vec<u64>,
    pub pay: u32,
    pub tup: String,
    pub seq: u64,
    /// logical key material for the uniqueness oracle
    pub schema_ref: String,
    pub key_text: String,
    pub tuple_key: String,
    /// the whole row as canonical JSON
    pub full: String,
}

#[derive(Clone, Debug, Default, PartialEq, Eq)]
pub struct RawDump {
    pub seq: u64,
    pub env: u64,
    pub elems: BTreeMap<String, RawElem>, // compact id
    pub journal: Vec<(u64, String, String, String, String)>, // seq, status, changes, tx_id, committed_at
    pub vlog: Vec<(String, u64, u64, String, String)>, // id, version, seq, op, row json
}

fn kind_order(c: char) -> usize {
    "ACEPX".find(c).unwrap_or(9)
}

/// ids in the order the Lean driver lists them: kind order `A C E P X`, then number
pub fn id_sort_key(id: &str) -> (usize, u64) {
    (kind_order(id.chars().next().unwrap_or('?')), id[1..].parse().unwrap_or(0))
}

impl RawDump {
    /// the line `dump` of the Lean driver prints (without `next=`: row-id allocation is compared
    /// through the ids themselves)
    pub fn canon(&self) -> String {
        let mut ids: Vec<&String> = self.elems.keys().collect();
        ids.sort_by_key(|i| id_sort_key(i));
        let elems: Vec<String> = ids.iter().map(|i| { let e = &self.elems[*i]; format!("{i}/{}/{}/{}/{}/{}.{}.{}.{}.{}/{}/{}/{}", e.version, e.state, e.ty, e.key, e.val, e.att, e.fac, e.ret, if e.links.is_empty() { "0".to_string() } else { e.links.iter().map(|n| n.to_string()).collect::<Vec<_>>().join("_") }, e.pay, e.tup, e.seq) }).collect();
        let journal: Vec<String> = self.journal.iter().map(|(s, st, ch, _, _)| format!("{s}/{st}/{ch}")).collect();
        let vlog: Vec<String> = self.vlog.iter().map(|(i, v, s, o, _)| format!("{i}/{v}/{s}/{o}")).collect();
        let j = |v: Vec<String>| if v.is_empty() { "-".to_string() } else { v.join(";") };
        format!("seq={} env={} elems={} journal={} vlog={}", self.seq, self.env, j(elems), j(journal), j(vlog))
    }
}

/// strips `next=…` from a model dump line
pub fn model_dump_canon(line: &str) -> String {
    line.split(' ').filter(|t| !t.starts_with("next=")).collect::<Vec<_>>().join(" ")
}

fn changes_of(v: &Value) -> Vec<(String, String, u64)> {
    v.as_array().map(|a| a.iter().map(|c| (compact_id(c["id"].as_str().unwrap_or("?")), c["op"].as_str().unwrap_or("?").to_string(), c["version"].as_u64().unwrap_or(0))).collect()).unwrap_or_default()
}

fn changes_text(v: &[Value]) -> String {
    let cs = changes_of(&Value::Array(v.to_vec()));
    if cs.is_empty() { "-".into() } else { cs.iter().map(|(i, o, v)| format!("{i}.{o}.{v}")).collect::<Vec<_>>().join("+") }
}

impl World {
    pub async fn new(name: &str) -> World {
        let name: String = name.chars().map(|c| if c.is_ascii_alphanumeric() { c } else { '_' }).collect();
        let db = AndaDB::connect(Arc::new(InMemory::new()), DBConfig { name: name.to_string(), description: "vh".into(), ..Default::default() }).await.expect("db");
        let nexus = CognitiveNexus::connect(Arc::new(db)).await.expect("nexus");
        nexus.install_package(&SchemaPackage::parse(COGNITIVE_MEMORY).expect("profile"), "vh").await.expect("install");
        nexus.install_package(&SchemaPackage::parse(EXTRA).expect("extra package"), "vh").await.expect("install extra");
        let mut lock = SchemaLock::default();
        lock.packages.insert(PROFILE_ID.to_string(), "2.0.0".to_string());
        lock.states.insert(PROFILE_ID.to_string(), PackageState::Active);
        nexus.activate_schema(DEFAULT_SPACE, lock).await.expect("activate");
        World { nexus }
    }

    /// a (non-first) schema activation: 1 = the profile alone, 2 = the profile and the extra package.
    /// Returns the environment version it minted.
    pub async fn activate(&self, which: u8) -> Result<u64, String> {
        let mut lock = SchemaLock::default();
        lock.packages.insert(PROFILE_ID.to_string(), "2.0.0".to_string());
        lock.states.insert(PROFILE_ID.to_string(), PackageState::Active);
        if which == 2 {
            lock.packages.insert(EXTRA_ID.to_string(), "1.0.0".to_string());
            lock.states.insert(EXTRA_ID.to_string(), PackageState::Active);
        }
        self.nexus.activate_schema(DEFAULT_SPACE, lock).await.map(|e| e.version).map_err(|e| e.message.clone())
    }

    /// one command through the real parser and the executor
    pub async fn run(&self, command: &str, params: &BTreeMap<String, String>, dry: bool) -> Result<Response, String> {
        let mut request = Request::single(command);
        if !params.is_empty() {
            request.parameters = Some(params.iter().map(|(k, v)| (k.clone(), Value::String(v.clone()))).collect());
        }
        if dry {
            request.options = Some(anda_kip::RequestOptions { dry_run: Some(true), ..Default::default() });
        }
        let parsed = anda_kip::parse_kip(command).map_err(|e| format!("{}", e.message))?;
        Ok(self.nexus.execute(parsed, &request, &request.operations[0]).await)
    }

    pub async fn exec(&self, st: &Stmt) -> Outcome {
        let (text, params) = render(st);
        let resp = match self.run(&text, &params, st.dry).await {
            Err(e) => return Outcome::Parse(e),
            Ok(r) => r,
        };
        if resp.status != TopLevelStatus::Succeeded {
            let err = resp.error.clone().or_else(|| resp.results.iter().find_map(|r| r.error.clone()));
            return match err {
                Some(e) => { if std::env::var("VH_TRACE_CODE").ok().as_deref() == Some(&e.code.to_string()) { eprintln!("TRACE {} :: {} :: {}", e.code, e.message, text.replace('\n', " ")); } Outcome::Refused { code: e.code.to_string(), message: e.message.clone() } }
                None => Outcome::Odd("failed without an error object".into()),
            };
        }
        let result = resp.first_result().cloned().unwrap_or(Value::Null);
        let changes = changes_of(&result["changes"]);
        let Some(receipt) = resp.receipt.as_ref() else { return Outcome::Odd("no receipt".into()) };
        let status = serde_json::to_value(receipt.status).ok().and_then(|v| v.as_str().map(|s| s.to_string())).unwrap_or_default();
        match receipt.space_seq {
            None => Outcome::Dry { changes },
            Some(seq) => Outcome::Done { seq, status, changes, tx_id: receipt.tx_id.clone().unwrap_or_default(), committed_at: receipt.committed_at.clone().unwrap_or_default() },
        }
    }

    /// one member of a META answer, e.g. `version` of `DESCRIBE SCHEMA ENVIRONMENT AS OF SEQ 3`
    pub async fn ask_member(&self, command: &str, member: &str) -> String {
        match serde_json::from_str::<Value>(&self.ask(command).await) {
            Ok(v) => v[member].to_string(),
            Err(_) => self.ask(command).await,
        }
    }

    /// a KQL / META command's result as canonical JSON text (errors included)
    pub async fn ask(&self, command: &str) -> String {
        // (`:c1` = the first Concept: BELIEF SLOT needs a fixed subject)
        let params: BTreeMap<String, String> = if command.contains(":c1") { [("c1".to_string(), "C-1".to_string())].into_iter().collect() } else { BTreeMap::new() };
        match self.run(command, &params, false).await {
            Err(e) => format!("parse-error: {e}"),
            Ok(r) => {
                if r.status != TopLevelStatus::Succeeded {
                    let err = r.error.clone().or_else(|| r.results.iter().find_map(|x| x.error.clone()));
                    return format!("error: {}", err.map(|e| e.code.to_string()).unwrap_or_default());
                }
                let v = r.first_result().cloned().unwrap_or(Value::Null);
                serde_json::to_string(&v).unwrap_or_default()
            }
        }
    }

    /// Everything a query, a META command or a historical read can observe, as named text blocks.
    /// `space.seq` / `snapshot_seq` are reported separately (the one thing allowed to move).
    pub async fn query_dump(&self, raw: &RawDump) -> BTreeMap<String, String> {
        let mut out = BTreeMap::new();
        for (_, c, kw) in KINDS {
            if c == 'P' {
                // tuple patterns are the only Proposition patterns; they read `active` tuples
                out.insert("kql:P".into(), self.ask("FIND(?p) WHERE { ?p PROPOSITION (?s, ?pred, ?o) }").await);
                out.insert("kql:P:count".into(), self.ask("FIND(COUNT(?p)) WHERE { ?p PROPOSITION (?s, ?pred, ?o) }").await);
                continue;
            }
            // default recall (active), and every explicit state
            out.insert(format!("kql:{c}:default"), self.ask(&format!("FIND(?e) WHERE {{ ?e {kw} {{}} }}")).await);
            for st in ["active", "archived", "tombstoned", "quarantined", "purged"] {
                out.insert(format!("kql:{c}:{st}"), self.ask(&format!("FIND(?e) WHERE {{ ?e {kw} {{state: \"{st}\"}} }}")).await);
            }
            out.insert(format!("kql:{c}:count"), self.ask(&format!("FIND(COUNT(?e)) WHERE {{ ?e {kw} {{}} }}")).await);
            // the rows only a pattern naming the shell state (or binding `state`) reaches
            out.insert(format!("pending:{c}"), self.ask(&format!("FIND(?e.id) WHERE {{ ?e {kw} {{state: \"pending\"}} }}")).await);
            out.insert(format!("anystate:{c}"), self.ask(&format!("FIND(?e.id, ?e._system.version, ?e._system.state) WHERE {{ ?e {kw} {{state: ?s}} }}")).await);
        }
        out.insert("meta:history".into(), self.ask("HISTORY SPACE").await);
        out.insert("meta:changes".into(), self.ask("CHANGES AFTER SEQ 0 LIMIT 100000").await);
        // PRIMER carries the Space sequence; keep the contents only
        let primer = self.run("DESCRIBE PRIMER", &BTreeMap::new(), false).await.ok().and_then(|r| r.first_result().cloned()).unwrap_or(Value::Null);
        out.insert("meta:primer.contents".into(), primer["contents"].to_string());
        for id in raw.elems.keys() {
            out.insert(format!("meta:history:{id}"), self.ask(&format!("HISTORY ELEMENT \"{}\"", real_id(id))).await);
        }
        // historical reads at every coordinate that has a journal row
        for (seq, ..) in &raw.journal {
            for (_, c, kw) in KINDS {
                let q = if c == 'P' { format!("FIND(?p) WHERE {{ ?p PROPOSITION (?s, ?pred, ?o) }} AS OF SEQ {seq}") } else { format!("FIND(?e) WHERE {{ ?e {kw} {{state: ?s}} }} AS OF SEQ {seq}") };
                out.insert(format!("asof:{seq}:{c}"), self.ask(&q).await);
            }
        }
        out
    }

    pub async fn space_seq(&self) -> u64 {
        self.nexus.store.get_space(DEFAULT_SPACE).await.map(|s| s.seq).unwrap_or(u64::MAX)
    }

    /// the raw collections, read through the storage API
    pub async fn raw_dump(&self) -> RawDump {
        let store = &self.nexus.store;
        let mut d = RawDump { seq: self.space_seq().await, env: self.nexus.store.get_space(DEFAULT_SPACE).await.map(|s| s.schema_environment_version).unwrap_or(0), ..Default::default() };
        let space_filter = || anda_cognitive_nexus::store::eq_field("space", anda_db::schema::Fv::Text(DEFAULT_SPACE.to_string()));
        for (kind, c, _) in KINDS {
            let ids = store.elements(kind).query_all_ids(space_filter()).await.unwrap_or_default();
            for n in ids {
                let Ok(el) = store.get_element(ElementId::new(kind, n)).await else { continue };
                let id = format!("{c}{n}");
                let (full, mut e) = match &el {
                    Element::Concept(r) => (serde_json::to_value(r).unwrap_or(Value::Null), RawElem { version: r.version, state: r.state.clone(), ty: type_code(&r.schema_ref), key: code_of(&r.key), val: code_of(&r.name), att: code_of(r.attributes.get("note").and_then(|v| v.as_str()).unwrap_or("")), fac: r.facets.iter().find(|(k, _)| k.as_str() == "MnemonicState" || k.ends_with("/MnemonicState")).and_then(|(_, f)| f.get("salience")).and_then(|v| v.as_f64()).map(|x| (x * 10.0).round() as u32).unwrap_or(0), ret: ret_code(&r.retention), links: if r.merged_into.is_empty() { vec![] } else { vec![row_number(&r.merged_into)] }, pay: 0, tup: "-".into(), seq: r.seq, schema_ref: r.schema_ref.clone(), key_text: r.key.clone(), tuple_key: String::new(), full: String::new() }),
                    Element::Proposition(r) => {
                        let tup = if r.tuple_key.starts_with("pending:") || r.tuple_key.starts_with("purged:") { "-".to_string() } else {
                            format!("{}>{}>{}", compact_id(r.subject["id"].as_str().unwrap_or("?")), pred_code(&r.predicate_ref), compact_id(r.object["id"].as_str().unwrap_or("?")))
                        };
                        (serde_json::to_value(r).unwrap_or(Value::Null), RawElem { version: r.version, state: r.state.clone(), ty: pred_code(&r.predicate_ref), key: 0, val: 0, att: 0, fac: 0, ret: ret_code(&r.retention), links: vec![], pay: 0, tup, seq: r.seq, schema_ref: String::new(), key_text: String::new(), tuple_key: r.tuple_key.clone(), full: String::new() })
                    }
                    Element::Assertion(r) => (serde_json::to_value(r).unwrap_or(Value::Null), RawElem { version: r.version, state: r.state.clone(), ty: 0, key: 0, val: status_code(&r.status), att: 0, fac: 0, ret: ret_code(&r.retention), links: row_numbers(&r.supersedes), pay: if r.proposition_id.is_empty() { 0 } else { (r.confidence * 100.0).round() as u32 + 100 * row_number(&r.proposition_id) as u32 }, tup: "-".into(), seq: r.seq, schema_ref: String::new(), key_text: String::new(), tuple_key: String::new(), full: String::new() }),
                    Element::Evidence(r) => (serde_json::to_value(r).unwrap_or(Value::Null), RawElem { version: r.version, state: r.state.clone(), ty: 0, key: 0, val: status_code(&r.status), att: 0, fac: 0, ret: ret_code(&r.retention), links: row_numbers(&r.corrects), pay: code_of(r.payload_inline.as_str().unwrap_or("")), tup: "-".into(), seq: r.seq, schema_ref: String::new(), key_text: String::new(), tuple_key: String::new(), full: String::new() }),
                    Element::Activity(r) => (serde_json::to_value(r).unwrap_or(Value::Null), RawElem { version: r.version, state: r.state.clone(), ty: 0, key: 0, val: status_code(&r.status), att: 0, fac: 0, ret: ret_code(&r.retention), links: vec![], pay: code_of(&r.parameters_digest), tup: "-".into(), seq: r.seq, schema_ref: String::new(), key_text: String::new(), tuple_key: String::new(), full: String::new() }),
                };
                e.full = full.to_string();
                d.elems.insert(id, e);
            }
        }
        let tx = store.transactions();
        let mut rows: Vec<TransactionRow> = Vec::new();
        for id in tx.query_all_ids(space_filter()).await.unwrap_or_default() {
            if let Ok(r) = tx.get_as::<TransactionRow>(id).await {
                rows.push(r);
            }
        }
        rows.sort_by_key(|r| (r.seq, r._id));
        // activations (class `schema`) are journalled too; the model speaks about cognitive commits
        d.journal = rows.iter().filter(|r| r.transaction_class == "cognitive").map(|r| (r.seq, r.status.clone(), changes_text(&r.changes), r.tx_id.clone(), r.committed_at.clone())).collect();
        let ev = store.element_versions();
        let mut vs: Vec<ElementVersionRow> = Vec::new();
        for id in ev.query_all_ids(space_filter()).await.unwrap_or_default() {
            if let Ok(r) = ev.get_as::<ElementVersionRow>(id).await {
                vs.push(r);
            }
        }
        vs.sort_by_key(|r| r._id);
        d.vlog = vs.iter().map(|r| (compact_id(&r.element), r.version, r.seq, r.op.clone(), r.row.to_string())).collect();
        d
    }

    /// what the generator may refer to
    pub fn known(raw: &RawDump) -> Known {
        let mut k = Known::default();
        for (id, e) in &raw.elems {
            if e.state == "pending" {
                k.pending.push(id.clone());
                continue;
            }
            // "some other row refers to it": its id occurs, quoted, in another row (references are
            // stored as id strings; a row never spells its own id)
            let quoted = format!("\"{}\"", real_id(id));
            // (an `asserted_by` given as a plain id string is a literal actor name, not a reference)
            let literal_actor = format!("\"asserted_by\":{quoted}");
            // (`supersedes` / `superseded_by` of an Assertion are lineage, not references: `Element::references`
            // does not list them, so PURGE under deny_if_referenced ignores them; `corrects` / `corrected_by` count)
            let referenced = raw.elems.iter().any(|(j, o)| j != id && reference_text(&o.full).replace(&literal_actor, "").contains(&quoted));
            if e.state == "purged" {
                // an identity stub: nothing a later clause should pick as a target
                continue;
            }
            k.all.push((id.clone(), e.version, referenced));
            match id.chars().next() {
                Some('C') => {
                    // a merged-away Concept answers with the type of the identity that survived
                    let mut cur = id.clone();
                    let mut hops = 0;
                    while let Some(n) = raw.elems.get(&cur).and_then(|x| x.links.first().copied()) { let next = format!("C{n}"); if next == *id || hops > 64 { break; } cur = next; hops += 1; }
                    let ty = if cur != *id { k.merged.push((id.clone(), cur.clone())); raw.elems.get(&cur).map(|x| x.ty).unwrap_or(e.ty) } else { e.ty };
                    k.concepts.push((id.clone(), ty, e.version, e.state.clone(), e.key))
                }
                Some('P') => k.props.push((id.clone(), e.version)),
                _ => k.others.push((id.clone(), e.version)),
            }
        }
        k
    }
}
