//! Orchestration shared by vh-c17 and vh-c18: corpus, replay, generated cases on worker threads
//! (one current-thread tokio runtime, one Nexus per case and one Lean driver per worker), shrinking,
//! report.
use crate::oracle::Failure;
use crate::runner::*;
use std::sync::mpsc;
use vh_common::serde_json::json;
use vh_common::*;

pub struct Setup {
    pub property: &'static str,
    pub rule: &'static str,
    pub cfg: Cfg,
    /// (quick, thorough) number of generated cases and statements per case
    pub cases: (u64, u64),
    pub len: (usize, usize),
}

fn rt() -> tokio::runtime::Runtime {
    tokio::runtime::Builder::new_current_thread().enable_all().build().expect("runtime")
}

fn run_ops_blocking(rtm: &tokio::runtime::Runtime, name: &str, cfg: Cfg, model: Option<&mut ModelProc>, ops: &[String]) -> CaseResult {
    let r = std::panic::catch_unwind(std::panic::AssertUnwindSafe(|| rtm.block_on(run_case(name, cfg, model, Source::Ops(ops)))));
    match r {
        Ok(r) => r,
        Err(p) => {
            let msg = p.downcast_ref::<String>().cloned().or_else(|| p.downcast_ref::<&str>().map(|s| s.to_string())).unwrap_or_default();
            CaseResult { ops: ops.to_vec(), failures: vec![Failure { key: "panic".into(), what: "the code under test panicked".into(), expected: "no panic".into(), observed: msg }], ..Default::default() }
        }
    }
}

struct Done {
    res: CaseResult,
    label: String,
}

/// shrink a failing case to a locally minimal op list that still shows the same failure key /
/// still disagrees with the model
fn shrink_case(rtm: &tokio::runtime::Runtime, args: &Args, cfg: Cfg, res: &CaseResult) -> (Vec<String>, CaseResult) {
    let want_key: Option<String> = res.failures.first().map(|f| f.key.clone());
    let want_dis = res.disagreement.is_some();
    let mut model = if want_dis { ModelProc::from_args(args) } else { None };
    let mut n = 0u32;
    let ops = shrink(res.ops.clone(), |cand: &[String]| {
        n += 1;
        let r = run_ops_blocking(rtm, &format!("shrink{n}"), cfg, model.as_mut(), cand);
        match &want_key {
            Some(k) => r.failures.iter().any(|f| &f.key == k),
            None => r.disagreement.is_some(),
        }
    }, 60);
    let mut model2 = if want_dis { ModelProc::from_args(args) } else { None };
    let fin = run_ops_blocking(rtm, "shrunk", cfg, model2.as_mut(), &ops);
    (ops, fin)
}

pub fn main_with(setup: Setup) {
    let args = Args::parse();
    let mut report = Report::new(setup.property, &args, setup.rule);
    report.max_samples = 5;
    let cfg = setup.cfg;
    let rtm = rt();

    let absorb = |report: &mut Report, rtm: &tokio::runtime::Runtime, d: Done, do_shrink: bool| {
        let res = d.res;
        report.case(&res.canon, res.nontrivial);
        for h in &res.hits {
            report.hit(h);
        }
        report.model_compared += res.compared;
        report.hit_n("asof:replayed-answers", res.replays);
        report.hit_n("asof:time-checks-skipped(shared-millisecond)", res.time_checks_skipped);
        report.hit_n("leftover:raw-rows", res.leftover_rows);
        if res.failures.is_empty() && res.disagreement.is_none() {
            if res.nontrivial {
                report.sample(json!({"case": d.label, "ops": res.ops}));
            }
            return;
        }
        let (ops, fin) = if do_shrink { shrink_case(rtm, &args, cfg, &res) } else { (res.ops.clone(), CaseResult::default()) };
        let src = if !fin.failures.is_empty() || fin.disagreement.is_some() { &fin } else { &res };
        let ops = if std::ptr::eq(src, &fin) { ops } else { res.ops.clone() };
        for f in &res.failures {
            report.hit(&format!("oracle:{}", f.key));
        }
        // every root cause of the case is reported (the shrunk list is minimal for the first one)
        let first_key = src.failures.first().map(|f| f.key.clone());
        for f in &src.failures {
            let o = if Some(&f.key) == first_key.as_ref() { &ops } else { &res.ops };
            report.oracle_failure(&f.key, &format!("[{}] {}", d.label, f.what), o, &f.expected, &f.observed);
        }
        if let Some((what, m, i)) = &src.disagreement {
            report.disagreement(&format!("[{}] {what}", d.label), &ops, m, i);
        }
    };

    // ---- replay
    if let Some(path) = &args.replay {
        let ops = read_replay(path);
        let mut model = ModelProc::from_args(&args);
        let res = run_ops_blocking(&rtm, "replay", cfg, model.as_mut(), &ops);
        absorb(&mut report, &rtm, Done { res, label: "replay".into() }, false);
        report.write(&args);
        return;
    }

    // ---- corpus first
    if let Some(dir) = &args.corpus {
        for (name, ops) in read_corpus(dir) {
            let mut model = ModelProc::from_args(&args);
            let res = run_ops_blocking(&rtm, &format!("corpus-{name}"), cfg, model.as_mut(), &ops);
            report.hit("corpus:case");
            absorb(&mut report, &rtm, Done { res, label: format!("corpus/{name}") }, false);
        }
    }

    // ---- generated cases on worker threads
    let total = args.budget(setup.cases.0, setup.cases.1);
    let workers = std::thread::available_parallelism().map(|n| n.get()).unwrap_or(4).min(16) as u64;
    let (txc, rxc) = mpsc::channel::<Done>();
    let mut handles = Vec::new();
    for wi in 0..workers {
        let txc = txc.clone();
        let args = args.clone();
        let len = setup.len;
        handles.push(std::thread::spawn(move || {
            let rtm = rt();
            let mut model = ModelProc::from_args(&args);
            let mut i = wi;
            while i < total {
                let mut rng = Rng::for_case(args.seed, i);
                let n = if args.thorough() || args.focus.is_some() { 2 + rng.usize(len.1) } else { 2 + rng.usize(len.0) };
                let name = format!("case{i}");
                let r = std::panic::catch_unwind(std::panic::AssertUnwindSafe(|| rtm.block_on(run_case(&name, cfg, model.as_mut(), Source::Gen { rng: &mut rng, len: n }))));
                let res = match r {
                    Ok(r) => r,
                    Err(p) => {
                        let msg = p.downcast_ref::<String>().cloned().or_else(|| p.downcast_ref::<&str>().map(|s| s.to_string())).unwrap_or_default();
                        // the driver may be out of step after a panic: restart it
                        model = ModelProc::from_args(&args);
                        CaseResult { failures: vec![Failure { key: "panic".into(), what: "the code under test panicked".into(), expected: "no panic".into(), observed: msg }], ..Default::default() }
                    }
                };
                if res.disagreement.is_some() {
                    model = ModelProc::from_args(&args);
                }
                if txc.send(Done { res, label: format!("seed {} case {i}", args.seed) }).is_err() {
                    break;
                }
                i += workers;
            }
        }));
    }
    drop(txc);
    let mut shrunk = 0;
    for d in rxc {
        let bad = !d.res.failures.is_empty() || d.res.disagreement.is_some();
        // shrinking is expensive: do it for the first few failing cases only
        let do_shrink = bad && shrunk < 6 && !args.extra.contains_key("noshrink");
        if do_shrink { shrunk += 1; }
        absorb(&mut report, &rtm, d, do_shrink);
    }
    for h in handles {
        let _ = h.join();
    }
    report.measured.insert("workers".into(), json!(workers));
    if cfg.atomicity {
        // measured: real threads, real lock
        let n = args.budget(80, 600) as usize;
        let (reads, torn, committed) = concurrent_readers(n);
        report.measured.insert("concurrent_readers".into(), json!({"statements": n, "committed": committed, "reads": reads, "torn_reads": torn,
            "what": "3 reader tasks on other threads count active Concepts while a writer creates / archives them two per statement; an odd count = a partly visible statement"}));
        if torn > 0 || committed as usize != n {
            report.oracle_failure("reader-saw-partial-statement", "a concurrent reader saw an odd number of Concepts although every statement changes two (or a writer statement failed)",
                &[format!("concurrent_readers {n}")], "even counts only; every statement commits", &format!("{torn} torn of {reads} reads, {committed}/{n} committed"));
        }
    }
    report.write(&args);
}
