//! The property oracle of C17, independent of the Lean model: it looks only at what the real
//! engine returned (receipts, query / META / AS OF answers, raw rows) before and after a statement.
use crate::world::{Outcome, RawDump};
use std::collections::{BTreeMap, BTreeSet};

#[derive(Clone, Debug)]
pub struct Failure {
    pub key: String,
    pub what: String,
    pub expected: String,
    pub observed: String,
}

fn clip(s: &str) -> String {
    if s.len() > 600 { format!("{}…", &s[..s.char_indices().take_while(|(i, _)| *i < 600).last().map(|(i, c)| i + c.len_utf8()).unwrap_or(0)]) } else { s.to_string() }
}

pub const KEY_SHELLS: &str = "commit-refusal-leaves-pending-shells-visible";
pub const KEY_PARTIAL: &str = "write-loop-failure-leaves-partial-commit";
pub const KEY_REFUSED: &str = "refused-statement-changed-observable-state";
pub const KEY_ERASED: &str = "refused-statement-destroyed-version-rows";

/// keys of the query dump that differ between two dumps (an element-history block that exists on
/// one side only counts when it is not the empty history)
pub fn diff_keys(pre: &BTreeMap<String, String>, post: &BTreeMap<String, String>) -> Vec<String> {
    let mut out = Vec::new();
    let keys: BTreeSet<&String> = pre.keys().chain(post.keys()).collect();
    for k in keys {
        match (pre.get(k), post.get(k)) {
            (Some(a), Some(b)) if a == b => {}
            (None, Some(b)) | (Some(b), None) if b == "[]" => {}
            _ => out.push(k.clone()),
        }
    }
    out
}

/// "nothing observable changed" for a refused / dry / unparsable statement
pub fn check_noop(out: &Outcome, pre_q: &BTreeMap<String, String>, post_q: &BTreeMap<String, String>, pre: &RawDump, post: &RawDump) -> Vec<Failure> {
    let mut fs = Vec::new();
    let d = diff_keys(pre_q, post_q);
    if !d.is_empty() {
        let only_shell_views = d.iter().all(|k| k.starts_with("pending:") || k.starts_with("anystate:"));
        let write_loop = matches!(out, Outcome::Refused { message, .. } if message.contains("already exists"));
        let key = if write_loop { KEY_PARTIAL } else if only_shell_views { KEY_SHELLS } else { KEY_REFUSED };
        let k0 = &d[0];
        fs.push(Failure {
            key: key.into(),
            what: format!("a statement that was {} changed what reads return ({} block(s): {})", match out { Outcome::Dry { .. } => "a dry run", Outcome::Parse(_) => "rejected by the parser", _ => "refused" }, d.len(), clip(&d.join(","))),
            expected: format!("{k0} = {}", clip(pre_q.get(k0).map(|s| s.as_str()).unwrap_or("<absent>"))),
            observed: format!("{k0} = {} ; outcome {}", clip(post_q.get(k0).map(|s| s.as_str()).unwrap_or("<absent>")), clip(&format!("{out:?}"))),
        });
    }
    if post.journal != pre.journal {
        fs.push(Failure { key: KEY_REFUSED.into(), what: "journal rows changed by a refused / dry statement".into(), expected: format!("{:?}", pre.journal.len()), observed: format!("{:?}", post.journal.len()) });
    }
    if post.vlog != pre.vlog {
        let gone: Vec<String> = pre.vlog.iter().filter(|v| !post.vlog.contains(v)).map(|v| format!("{}/v{}/seq{}", v.0, v.1, v.2)).collect();
        let key = if gone.is_empty() { KEY_REFUSED } else { KEY_ERASED };
        fs.push(Failure { key: key.into(), what: format!("a statement that was {} changed the version log ({} row(s) destroyed: {})", match out { Outcome::Dry { .. } => "a dry run", Outcome::Parse(_) => "rejected by the parser", _ => "refused" }, gone.len(), clip(&gone.join(","))),
            expected: format!("{} version rows, unchanged", pre.vlog.len()), observed: format!("{} version rows; outcome {}", post.vlog.len(), clip(&format!("{out:?}"))) });
    }
    if post.seq < pre.seq || (matches!(out, Outcome::Parse(_)) && post.seq != pre.seq) {
        fs.push(Failure { key: "sequence-not-monotone".into(), what: "Space sequence moved backwards (or moved for an unparsable command)".into(), expected: format!(">= {}", pre.seq), observed: post.seq.to_string() });
    }
    fs
}

/// a committed statement: one fresh sequence, one journal row, each changed element +1 exactly once
/// `purge_targets`: the literal targets of the statement's PURGE clauses (a committed purge destroys
/// the version rows its target had)
pub fn check_commit(out: &Outcome, pre: &RawDump, post: &RawDump, purge_targets: &BTreeSet<String>) -> Vec<Failure> {
    let mut fs = Vec::new();
    let Outcome::Done { seq, status, changes, .. } = out else { return fs };
    let mut fail = |key: &str, what: String, expected: String, observed: String| fs.push(Failure { key: key.into(), what, expected: clip(&expected), observed: clip(&observed) });
    let max_before = pre.journal.iter().map(|j| j.0).max().unwrap_or(0).max(pre.seq);
    if *seq <= max_before || *seq != post.seq {
        fail("sequence-not-fresh", "a commit must take one fresh sequence greater than all earlier ones".into(), format!("> {max_before} and = Space seq"), format!("{seq} (Space seq {})", post.seq));
    }
    if (status == "no_effect") != changes.is_empty() || !(status == "no_effect" || status == "committed") {
        fail("status-changes-mismatch", "`no_effect` iff no element changed".into(), "no_effect <-> changes = []".into(), format!("{status} with {} change(s)", changes.len()));
    }
    let ids: BTreeSet<&String> = changes.iter().map(|c| &c.0).collect();
    if ids.len() != changes.len() {
        fail("element-versioned-twice", "an element appears twice in one statement's changes".into(), "each id once".into(), format!("{changes:?}"));
    }
    // journal: exactly one more row, carrying the receipt
    let ch_text = if changes.is_empty() { "-".to_string() } else { changes.iter().map(|(i, o, v)| format!("{i}.{o}.{v}")).collect::<Vec<_>>().join("+") };
    let mut want = pre.journal.iter().map(|j| (j.0, j.1.clone(), j.2.clone())).collect::<Vec<_>>();
    want.push((*seq, status.clone(), ch_text));
    let got = post.journal.iter().map(|j| (j.0, j.1.clone(), j.2.clone())).collect::<Vec<_>>();
    if want != got {
        fail("journal-not-one-row-per-commit", "the journal must gain exactly one row, equal to the receipt".into(), format!("{want:?}"), format!("{got:?}"));
    }
    // version arithmetic
    for (id, op, v) in changes {
        let before = pre.elems.get(id);
        let after = post.elems.get(id);
        let want_v = before.map(|b| b.version + 1).unwrap_or(1);
        if *v != want_v || after.map(|a| a.version) != Some(*v) || (before.is_none() != (op == "create")) {
            fail("version-not-plus-one", format!("{id}: version must rise by exactly one (new elements start at 1)"), format!("version {want_v}, op create iff new"), format!("receipt ({op}, {v}), stored {:?}, before {:?}", after.map(|a| a.version), before.map(|b| b.version)));
        }
        if after.map(|a| a.seq) != Some(*seq) || after.map(|a| a.state.as_str()) == Some("pending") {
            fail("changed-element-not-stamped", format!("{id}: a changed element carries the commit's sequence and leaves the shell state"), format!("space_seq {seq}, not pending"), format!("{:?}", after.map(|a| (a.seq, a.state.clone()))));
        }
    }
    // everything else untouched; no shell survives a commit
    for (id, b) in &pre.elems {
        if ids.contains(id) {
            continue;
        }
        match post.elems.get(id) {
            Some(a) if a.full == b.full => {}
            other => fail("unchanged-element-written", format!("{id} is not in the statement's changes but its row changed"), b.full.clone(), other.map(|a| a.full.clone()).unwrap_or_else(|| "<gone>".into())),
        }
    }
    for (id, a) in &post.elems {
        if !pre.elems.contains_key(id) && !ids.contains(id) {
            fail("commit-left-a-shell", format!("{id} appeared without being in the statement's changes"), "<absent>".into(), a.full.clone());
        }
    }
    // version log: one row per change
    let erased: BTreeSet<&String> = purge_targets.iter().filter(|t| ids.contains(t)).collect();
    let mut want_v: Vec<(String, u64, u64)> = pre.vlog.iter().filter(|v| !erased.contains(&v.0)).map(|v| (v.0.clone(), v.1, v.2)).collect();
    // every row of a purged element must be gone: nothing of it may stay readable AS OF
    for t in &erased {
        if post.vlog.iter().any(|v| &&v.0 == t && v.2 != *seq) {
            fail("purge-left-version-rows", format!("{t} was purged but old version rows survive"), "only the stub row".into(), format!("{:?}", post.vlog.iter().filter(|v| &&v.0 == t).map(|v| (v.1, v.2)).collect::<Vec<_>>()));
        }
    }
    let mut added: Vec<(String, u64, u64)> = changes.iter().map(|(i, _, v)| (i.clone(), *v, *seq)).collect();
    let mut got_v: Vec<(String, u64, u64)> = post.vlog.iter().map(|v| (v.0.clone(), v.1, v.2)).collect();
    let tail: Vec<(String, u64, u64)> = got_v.split_off(want_v.len().min(got_v.len()));
    let mut tail_sorted = tail.clone();
    tail_sorted.sort();
    added.sort();
    if got_v != want_v || tail_sorted != added {
        want_v.extend(added);
        fail("version-log-not-one-row-per-change", "the version log must gain exactly one row per changed element (and lose only the rows of purged ones)".into(), format!("{want_v:?}"), format!("{:?}", post.vlog.iter().map(|v| (v.0.clone(), v.1, v.2)).collect::<Vec<_>>()));
    }
    fs
}

/// the same tuple resolves to one Proposition; a logical key identifies one Concept of a type
pub fn check_unique(d: &RawDump) -> Vec<Failure> {
    let mut fs = Vec::new();
    let mut tuples: BTreeMap<&str, &String> = BTreeMap::new();
    let mut keys: BTreeMap<(&str, &str), &String> = BTreeMap::new();
    for (id, e) in &d.elems {
        if e.state == "pending" {
            continue;
        }
        if id.starts_with('P') {
            if let Some(other) = tuples.insert(e.tuple_key.as_str(), id) {
                fs.push(Failure { key: "tuple-not-unique".into(), what: "two Propositions carry one tuple".into(), expected: "one".into(), observed: format!("{other} and {id}") });
            }
        }
        if id.starts_with('C') && !e.key_text.is_empty() {
            if let Some(other) = keys.insert((e.schema_ref.as_str(), e.key_text.as_str()), id) {
                fs.push(Failure { key: "key-not-unique".into(), what: "two Concepts of one type carry one logical key".into(), expected: "one".into(), observed: format!("{other} and {id} ({}, {})", e.schema_ref, e.key_text) });
            }
        }
    }
    fs
}

/// `element_versions` counted per element before / after one statement.
pub fn check_log_counts(out: &Outcome, pre: &RawDump, post: &RawDump, purge_targets: &BTreeSet<String>) -> Vec<Failure> {
    let count = |d: &RawDump| -> BTreeMap<String, usize> {
        let mut m: BTreeMap<String, usize> = BTreeMap::new();
        for v in &d.vlog { *m.entry(v.0.clone()).or_default() += 1; }
        m
    };
    let (a, b) = (count(pre), count(post));
    let changed: BTreeSet<String> = match out { Outcome::Done { changes, .. } => changes.iter().map(|c| c.0.clone()).collect(), _ => BTreeSet::new() };
    let mut fs = Vec::new();
    let ids: BTreeSet<&String> = a.keys().chain(b.keys()).collect();
    for id in ids {
        let before = a.get(id).copied().unwrap_or(0);
        let after = b.get(id).copied().unwrap_or(0);
        let want = if changed.contains(id) { if purge_targets.contains(id) { 1 } else { before + 1 } } else { before };
        if after != want {
            // every older row must also still be there, unchanged
            fs.push(Failure { key: if after < want { "version-log-row-lost".into() } else { "version-log-row-count".into() },
                what: format!("{id}: {before} version row(s) before the statement, {after} after it (changed by it: {})", changed.contains(id)),
                expected: format!("{want} row(s): one more per commit that changes the element, never fewer outside a committed purge"),
                observed: format!("{after}; rows now: {:?}", post.vlog.iter().filter(|v| &v.0 == id).map(|v| (v.1, v.2)).collect::<Vec<_>>()) });
        } else if !purge_targets.contains(id) || !changed.contains(id) {
            let old: Vec<(u64, u64, &String)> = pre.vlog.iter().filter(|v| &v.0 == id).map(|v| (v.1, v.2, &v.4)).collect();
            let now: Vec<(u64, u64, &String)> = post.vlog.iter().filter(|v| &v.0 == id).map(|v| (v.1, v.2, &v.4)).collect();
            if now.len() < old.len() || now[..old.len()] != old[..] {
                fs.push(Failure { key: "version-log-row-rewritten".into(), what: format!("{id}: an existing version row changed (version, sequence or content)"),
                    expected: format!("{:?}", old.iter().map(|r| (r.0, r.1)).collect::<Vec<_>>()), observed: format!("{:?}", now.iter().map(|r| (r.0, r.1)).collect::<Vec<_>>()) });
            }
        }
    }
    fs
}
