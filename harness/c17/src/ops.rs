//! The line protocol of C17/C18 (one KML statement per line, in the abstract clause encoding the
//! Lean driver reads), its rendering to real KML text + parameters, and the statement generator.
use std::collections::BTreeMap;
use vh_common::Rng;

#[derive(Clone, Debug, PartialEq, Eq)]
pub enum Ref {
    H(u32),
    /// literal element id in the compact form `C3`
    Id(String),
}

impl Ref {
    pub fn tok(&self) -> String {
        match self {
            Ref::H(h) => format!("h{h}"),
            Ref::Id(i) => i.clone(),
        }
    }
    pub fn parse(s: &str) -> Option<Ref> {
        if let Some(r) = s.strip_prefix('h') {
            return r.parse().ok().map(Ref::H);
        }
        let mut cs = s.chars();
        let k = cs.next()?;
        if !"ACEPX".contains(k) {
            return None;
        }
        cs.as_str().parse::<u64>().ok()?;
        Some(Ref::Id(s.to_string()))
    }
}

/// one action of an UPDATE
#[derive(Clone, Debug, PartialEq, Eq)]
pub enum Act { Name(u32), Attr(u32), UnsetAttr, Facet(u32), UnsetFacet }

impl Act {
    pub fn tok(&self) -> String {
        match self { Act::Name(v) => format!("n{v}"), Act::Attr(v) => format!("a{v}"), Act::UnsetAttr => "ua".into(), Act::Facet(v) => format!("f{v}"), Act::UnsetFacet => "uf".into() }
    }
    pub fn parse(s: &str) -> Option<Act> {
        Some(match s {
            "ua" => Act::UnsetAttr,
            "uf" => Act::UnsetFacet,
            _ => match s.chars().next()? {
                'n' => Act::Name(s[1..].parse().ok()?),
                'a' => Act::Attr(s[1..].parse().ok()?),
                'f' => Act::Facet(s[1..].parse().ok()?),
                _ => Act::Name(s.parse().ok()?),
            },
        })
    }
    pub fn family(&self) -> &'static str {
        match self { Act::Name(_) => "set_fields", Act::Attr(_) => "set_attributes", Act::UnsetAttr => "unset_attributes", Act::Facet(_) => "set_facet", Act::UnsetFacet => "unset_facet" }
    }
    fn kml(&self) -> String {
        match self {
            Act::Name(v) => format!("SET FIELDS {{name: \"n{v}\"}}"),
            Act::Attr(v) => format!("SET ATTRIBUTES {{note: \"a{v}\"}}"),
            Act::UnsetAttr => "UNSET ATTRIBUTES {note}".into(),
            Act::Facet(v) => format!("SET FACET \"MnemonicState\" {{salience: 0.{}}}", (*v).clamp(1, 9)),
            Act::UnsetFacet => "UNSET FACET \"MnemonicState\" {salience}".into(),
        }
    }
}

#[derive(Clone, Debug, PartialEq, Eq)]
pub enum Clause {
    Cc { h: u32, ty: u32, key: u32, val: u32, bad: bool },
    Up { h: u32, ty: Option<u32>, key: u32, val: Option<u32>, expect: Option<u64> },
    En { h: Option<u32>, s: Ref, p: u32, o: Ref, expect: Option<u64>, bad: bool },
    Cr { kind: char, h: u32, pay: u32, refs: Vec<Ref>, bad: bool },
    Ud { t: Ref, acts: Vec<Act>, expect: Option<u64>, bad: bool },
    Ss { t: Ref, to: char, expect: Option<char> },
    /// PURGE target CONFIRM "PURGE" (`bad`: refused while staged — the target is still referenced)
    Pg { t: Ref, bad: bool },
    /// RETRACT ASSERTION target [EXPECT STATE active(0)/retracted(1)]
    Rt { t: Ref, expect: Option<u8> },
    /// SUPERSEDE ASSERTION old BY new [EXPECT STATE status code]
    Su { t: Ref, by: Ref, expect: Option<u8> },
    /// CORRECT EVIDENCE old BY new [EXPECT STATE …: parsed, never evaluated by the engine — `guard` only renders it]
    Co { t: Ref, by: Ref },
    /// TRANSITION ACTIVITY target TO status [EXPECT STATE status]
    Tr { t: Ref, to: u8, expect: Option<u8> },
    /// SET RETENTION target {retention_class: "r<v>"} [EXPECT VERSION n]
    Sr { t: Ref, v: u32, expect: Option<u64> },
    /// MERGE CONCEPT source INTO target [EXPECT VERSION n]
    Mg { src: Ref, into: Ref, expect: Option<u64> },
}

/// lifecycle status codes shared with the model (`Model/Tx.lean`): 0 as created, 1 retracted, 2 empty
/// (identity stub / shell), 3 superseded, 4 corrected, 5 running, 6 completed, 7 failed
pub fn status_name(kind: char, code: u8) -> &'static str {
    match code {
        0 => if kind == 'X' { "pending" } else { "active" },
        1 => "retracted", 3 => "superseded", 4 => "corrected", 5 => "running", 6 => "completed", 7 => "failed",
        _ => "",
    }
}
pub fn status_code(status: &str) -> u32 {
    match status {
        "active" | "pending" => 0, "retracted" => 1, "" => 2, "superseded" => 3, "corrected" => 4,
        "running" => 5, "completed" => 6, "failed" => 7,
        _ => 9,
    }
}

#[derive(Clone, Debug, PartialEq, Eq)]
pub struct Stmt {
    pub dry: bool,
    pub clauses: Vec<Clause>,
}

fn opt<T: std::fmt::Display>(x: &Option<T>) -> String {
    x.as_ref().map(|v| v.to_string()).unwrap_or_else(|| "-".into())
}
fn popt<T: std::str::FromStr>(s: &str) -> Option<Option<T>> {
    if s == "-" { Some(None) } else { s.parse().ok().map(Some) }
}
fn pbool(s: &str) -> Option<bool> {
    match s { "1" => Some(true), "0" => Some(false), _ => None }
}

impl Clause {
    pub fn tok(&self) -> String {
        match self {
            Clause::Cc { h, ty, key, val, bad } => format!("cc:{h}:{ty}:{key}:{val}:{}", *bad as u8),
            Clause::Up { h, ty, key, val, expect } => format!("up:{h}:{}:{key}:{}:{}", opt(ty), opt(val), opt(expect)),
            Clause::En { h, s, p, o, expect, bad } => format!("en:{}:{}:{p}:{}:{}:{}", opt(h), s.tok(), o.tok(), opt(expect), *bad as u8),
            Clause::Cr { kind, h, pay, refs, bad } => {
                let r = if refs.is_empty() { "-".to_string() } else { refs.iter().map(|r| r.tok()).collect::<Vec<_>>().join(",") };
                format!("cr:{kind}:{h}:{pay}:{r}:{}", *bad as u8)
            }
            Clause::Ud { t, acts, expect, bad } => format!("ud:{}:{}:{}:{}", t.tok(), acts.iter().map(|a| a.tok()).collect::<Vec<_>>().join(","), opt(expect), *bad as u8),
            Clause::Ss { t, to, expect } => format!("ss:{}:{to}:{}", t.tok(), opt(expect)),
            Clause::Rt { t, expect } => format!("rt:{}:{}", t.tok(), opt(expect)),
            Clause::Pg { t, bad } => format!("pg:{}:{}", t.tok(), *bad as u8),
            Clause::Su { t, by, expect } => format!("su:{}:{}:{}", t.tok(), by.tok(), opt(expect)),
            Clause::Co { t, by } => format!("co:{}:{}", t.tok(), by.tok()),
            Clause::Tr { t, to, expect } => format!("tr:{}:{to}:{}", t.tok(), opt(expect)),
            Clause::Sr { t, v, expect } => format!("sr:{}:{v}:{}", t.tok(), opt(expect)),
            Clause::Mg { src, into, expect } => format!("mg:{}:{}:{}", src.tok(), into.tok(), opt(expect)),
        }
    }
    pub fn parse(tok: &str) -> Option<Clause> {
        let f: Vec<&str> = tok.split(':').collect();
        Some(match f.as_slice() {
            ["cc", h, ty, key, val, bad] => Clause::Cc { h: h.parse().ok()?, ty: ty.parse().ok()?, key: key.parse().ok()?, val: val.parse().ok()?, bad: pbool(bad)? },
            ["up", h, ty, key, val, ex] => Clause::Up { h: h.parse().ok()?, ty: popt(ty)?, key: key.parse().ok()?, val: popt(val)?, expect: popt(ex)? },
            ["en", h, s, p, o, ex, bad] => Clause::En { h: popt(h)?, s: Ref::parse(s)?, p: p.parse().ok()?, o: Ref::parse(o)?, expect: popt(ex)?, bad: pbool(bad)? },
            ["cr", k, h, pay, refs, bad] => {
                let kind = k.chars().next()?;
                if !"AEX".contains(kind) { return None; }
                let refs = if *refs == "-" { vec![] } else { refs.split(',').map(Ref::parse).collect::<Option<Vec<_>>>()? };
                Clause::Cr { kind, h: h.parse().ok()?, pay: pay.parse().ok()?, refs, bad: pbool(bad)? }
            }
            ["ud", t, acts, ex, bad] => Clause::Ud { t: Ref::parse(t)?, acts: acts.split(',').map(Act::parse).collect::<Option<Vec<_>>>()?, expect: popt(ex)?, bad: pbool(bad)? },
            ["pg", t, bad] => Clause::Pg { t: Ref::parse(t)?, bad: pbool(bad)? },
            ["su", t, by, ex] => Clause::Su { t: Ref::parse(t)?, by: Ref::parse(by)?, expect: popt(ex)? },
            ["co", t, by] => Clause::Co { t: Ref::parse(t)?, by: Ref::parse(by)? },
            ["tr", t, to, ex] => Clause::Tr { t: Ref::parse(t)?, to: to.parse().ok()?, expect: popt(ex)? },
            ["sr", t, v, ex] => Clause::Sr { t: Ref::parse(t)?, v: v.parse().ok()?, expect: popt(ex)? },
            ["mg", a, b, ex] => Clause::Mg { src: Ref::parse(a)?, into: Ref::parse(b)?, expect: popt(ex)? },
            ["rt", t, ex] => {
                let expect: Option<u8> = popt(ex)?;
                if expect.is_some_and(|v| v > 1) { return None; }
                Clause::Rt { t: Ref::parse(t)?, expect }
            }
            ["ss", t, to, ex] => {
                let to = to.chars().next()?;
                if !"rt".contains(to) { return None; }
                let expect = if *ex == "-" { None } else { Some(ex.chars().next().filter(|c| "artm".contains(*c))?) };
                Clause::Ss { t: Ref::parse(t)?, to, expect }
            }
            _ => return None,
        })
    }
    pub fn shape(&self) -> &'static str {
        match self {
            Clause::Cc { .. } => "create_concept", Clause::Up { .. } => "upsert", Clause::En { .. } => "ensure",
            Clause::Cr { kind: 'A', .. } => "create_assertion", Clause::Cr { kind: 'E', .. } => "create_evidence",
            Clause::Cr { .. } => "create_activity", Clause::Ud { .. } => "update",
            Clause::Ss { to: 'r', .. } => "archive", Clause::Ss { .. } => "tombstone", Clause::Rt { .. } => "retract", Clause::Pg { .. } => "purge",
            Clause::Su { .. } => "supersede", Clause::Co { .. } => "correct", Clause::Tr { .. } => "transition", Clause::Sr { .. } => "set_retention", Clause::Mg { .. } => "merge",
        }
    }
}

impl Stmt {
    /// `stmt <dry> <time> <clause>…`; the clock reading is filled in by the runner (`time`)
    pub fn line(&self, time: u64) -> String {
        let mut s = format!("stmt {} {time}", self.dry as u8);
        for c in &self.clauses {
            s.push(' ');
            s.push_str(&c.tok());
        }
        s
    }
    /// parses `stmt <dry> <time|_> <clause>…`
    pub fn parse(line: &str) -> Option<Stmt> {
        let mut it = line.split_whitespace();
        if it.next()? != "stmt" { return None; }
        let dry = pbool(it.next()?)?;
        let _time = it.next()?;
        let clauses = it.map(Clause::parse).collect::<Option<Vec<_>>>()?;
        Some(Stmt { dry, clauses })
    }
}

// ------------------------------------------------------------------------------------------
// code tables (abstract code <-> real text)
// ------------------------------------------------------------------------------------------


pub fn type_name(ty: u32) -> &'static str {
    match ty { 1 => "Person", 2 => "Preference", 3 => "Gadget", _ => "Spaceship" }
}
pub fn type_code(schema_ref: &str) -> u32 {
    match schema_ref.rsplit('/').next().unwrap_or("") { "Person" => 1, "Preference" => 2, "Gadget" => 3, "" => 0, _ => 99 }
}
pub fn pred_name(p: u32) -> &'static str {
    match p { 5 => "prefers", 7 => "same_as", _ => "no_such_predicate" }
}
pub fn pred_code(predicate_ref: &str) -> u32 {
    match predicate_ref.rsplit('/').next().unwrap_or("") { "prefers" => 5, "same_as" => 7, "" => 0, _ => 99 }
}
/// `"n12"` / `"k12"` / `"p12"` -> 12; empty -> 0
pub fn code_of(text: &str) -> u32 {
    if text.is_empty() { 0 } else { text[1..].parse().unwrap_or(999_999) }
}
/// compact id `C3` -> real `C-3`
pub fn real_id(compact: &str) -> String {
    format!("{}-{}", &compact[..1], &compact[1..])
}
pub fn compact_id(real: &str) -> String {
    real.replace('-', "")
}

/// The real command text of a statement and its request parameters (literal ids travel as
/// parameters: `ENSURE PROPOSITION` does not accept a literal endpoint).
pub fn render(st: &Stmt) -> (String, BTreeMap<String, String>) {
    let mut params: BTreeMap<String, String> = BTreeMap::new();
    let r = |x: &Ref, params: &mut BTreeMap<String, String>| -> String {
        match x {
            Ref::H(h) => format!("?h{h}"),
            Ref::Id(i) => {
                let name = format!("r{}", i.to_lowercase());
                params.insert(name.clone(), real_id(i));
                format!(":{name}")
            }
        }
    };
    let mut parts = Vec::new();
    for c in &st.clauses {
        parts.push(match c {
            Clause::Cc { h, ty, key, val, bad } => {
                let t = if *bad { "Spaceship" } else { type_name(*ty) };
                // (`canonical_id` is a plain text column: given a value so that matcher queries on it have data)
                let k = if *key == 0 { format!(" SET FIELDS {{canonical_id: \"cid{val}\"}}") } else { format!(" SET FIELDS {{key: \"k{key}\", canonical_id: \"cid{val}\"}}") };
                format!("CREATE CONCEPT ?h{h} {{ TYPE \"{t}\" NAME \"n{val}\"{k} }}")
            }
            Clause::Up { h, ty, key, val, expect } => {
                let t = ty.map(|t| format!("type: \"{}\", ", type_name(t))).unwrap_or_default();
                let e = expect.map(|v| format!(" EXPECT VERSION {v}")).unwrap_or_default();
                let s = val.map(|v| format!(" SET FIELDS {{name: \"n{v}\"}}")).unwrap_or_default();
                format!("UPSERT CONCEPT ?h{h} {{ MATCH {{{t}key: \"k{key}\"}}{e}{s} }}")
            }
            Clause::En { h, s, p, o, expect, bad: _ } => {
                let hh = h.map(|h| format!(" ?h{h}")).unwrap_or_default();
                let e = expect.map(|v| format!(" EXPECT VERSION {v}")).unwrap_or_default();
                format!("ENSURE PROPOSITION{hh} ({}, \"{}\", {}){e}", r(s, &mut params), pred_name(*p), r(o, &mut params))
            }
            Clause::Cr { kind: 'E', h, pay, refs, bad } => {
                let class = if *bad { String::new() } else { "evidence_class: \"message\", ".to_string() };
                let st = refs.first().map(|a| format!(" SET STRUCTURAL {{ (\"generated_by\", {}) }}", r(a, &mut params))).unwrap_or_default();
                format!("CREATE EVIDENCE ?h{h} {{ SET FIELDS {{{class}payload: \"p{pay}\", content_digest: \"d{pay}\"}}{st} }}")
            }
            Clause::Cr { kind: 'A', h, pay, refs, bad } => {
                let p = refs.first().map(|a| r(a, &mut params)).unwrap_or_else(|| "\"P-999\"".into());
                let by = refs.get(1).map(|a| r(a, &mut params)).unwrap_or_else(|| "\"C-999\"".into());
                let stance = if *bad { String::new() } else { "stance: \"support\", ".to_string() };
                let ev = refs.get(2).map(|a| format!(" SET STRUCTURAL {{ (\"evidence\", {}) {{role: \"support\"}} }}", r(a, &mut params))).unwrap_or_default();
                format!("CREATE ASSERTION ?h{h} {{ SET FIELDS {{proposition: {p}, asserted_by: {by}, {stance}mode: \"stated\", confidence: {}}}{ev} }}",
                    format_conf(*pay))
            }
            Clause::Cr { kind: _, h, pay, refs, bad } => {
                let class = if *bad { String::new() } else { "activity_class: \"reflection\", ".to_string() };
                let outs: String = refs.iter().map(|a| format!(" (\"outputs\", {})", r(a, &mut params))).collect();
                let st = if outs.is_empty() { String::new() } else { format!(" SET STRUCTURAL {{{outs} }}") };
                format!("CREATE ACTIVITY ?h{h} {{ SET FIELDS {{{class}parameters_digest: \"p{pay}\"}}{st} }}")
            }
            Clause::Ud { t, acts, expect, bad } => {
                let e = expect.map(|v| format!(" EXPECT VERSION {v}")).unwrap_or_default();
                let mut set: Vec<String> = acts.iter().map(|a| a.kml()).collect();
                if *bad { set.insert(0, "SET FIELDS {key: \"moved\"}".to_string()); }
                format!("UPDATE {}{e} {}", r(t, &mut params), set.join(" "))
            }
            Clause::Pg { t, bad: _ } => format!("PURGE {} CONFIRM \"PURGE\"", r(t, &mut params)),
            Clause::Rt { t, expect } => {
                let e = expect.map(|v| format!(" EXPECT STATE \"{}\"", if v == 0 { "active" } else { "retracted" })).unwrap_or_default();
                format!("RETRACT ASSERTION {}{e}", r(t, &mut params))
            }
            Clause::Ss { t, to, expect } => {
                let e = expect.map(|c| format!(" EXPECT STATE \"{}\"", state_name(c))).unwrap_or_default();
                format!("{} {}{e}", if *to == 'r' { "ARCHIVE" } else { "TOMBSTONE" }, r(t, &mut params))
            }
            Clause::Su { t, by, expect } => {
                let e = expect.map(|v| format!(" EXPECT STATE \"{}\"", status_name('A', v))).unwrap_or_default();
                format!("SUPERSEDE ASSERTION {} BY {}{e}", r(t, &mut params), r(by, &mut params))
            }
            Clause::Co { t, by } => format!("CORRECT EVIDENCE {} BY {}", r(t, &mut params), r(by, &mut params)),
            Clause::Tr { t, to, expect } => {
                let e = expect.map(|v| format!(" EXPECT STATE \"{}\"", status_name('X', v))).unwrap_or_default();
                format!("TRANSITION ACTIVITY {} TO \"{}\"{e}", r(t, &mut params), status_name('X', *to))
            }
            Clause::Sr { t, v, expect } => {
                let e = expect.map(|v| format!(" EXPECT VERSION {v}")).unwrap_or_default();
                format!("SET RETENTION {} {{retention_class: \"r{v}\"}}{e}", r(t, &mut params))
            }
            Clause::Mg { src, into, expect } => {
                let e = expect.map(|v| format!(" EXPECT VERSION {v}")).unwrap_or_default();
                format!("MERGE CONCEPT {} INTO {}{e}", r(src, &mut params), r(into, &mut params))
            }
        });
    }
    let text = if parts.len() == 1 && !st.dry { parts.remove(0) } else { format!("MUTATE {{\n  {}\n}}", parts.join("\n  ")) };
    (text, params)
}

pub fn format_conf(pay: u32) -> String {
    format!("0.{:02}", pay.clamp(1, 99))
}
pub fn state_name(c: char) -> &'static str {
    match c { 'a' => "active", 'r' => "archived", 't' => "tombstoned", 'm' => "merged", _ => "pending" }
}

// ------------------------------------------------------------------------------------------
// generation (online: looks at the elements that exist right now)
// ------------------------------------------------------------------------------------------

/// what the generator knows about the current space: compact id -> (type code, version, state)
#[derive(Default, Clone, Debug)]
pub struct Known {
    pub concepts: Vec<(String, u32, u64, String, u32)>, // id, ty, version, state, key
    pub props: Vec<(String, u64)>,
    pub others: Vec<(String, u64)>, // assertions / evidence / activities
    pub pending: Vec<String>,
    /// every non-shell element: (id, version, some other row refers to it)
    pub all: Vec<(String, u64, bool)>,
    /// the second Schema Environment (with the extra package: type `Gadget`, predicate `likes`) is in force
    pub env_b: bool,
    /// merged-away Concepts: (alias id, the id its `merged_into` chain ends at). The type recorded for an
    /// alias in `concepts` is the survivor's: ENSURE validates the canonicalised endpoint.
    pub merged: Vec<(String, String)>,
}

/// the actions of one UPDATE: one family alone (often Facet-only: the decay sweep), or a mix
fn gen_acts(r: &mut Rng) -> Vec<Act> {
    let one = |r: &mut Rng| match r.below(9) {
        0 | 1 => Act::Name(1 + r.below(6) as u32),
        2 | 3 => Act::Attr(1 + r.below(5) as u32),
        4 => Act::UnsetAttr,
        5 | 6 | 7 => Act::Facet(1 + r.below(9) as u32),
        _ => Act::UnsetFacet,
    };
    match r.below(10) {
        0..=3 => vec![if r.chance(4, 5) { Act::Facet(1 + r.below(9) as u32) } else { Act::UnsetFacet }],
        4..=6 => vec![one(r)],
        7..=8 => vec![one(r), one(r)],
        _ => vec![one(r), one(r), one(r)],
    }
}

pub fn gen_stmt(r: &mut Rng, known: &Known) -> Stmt {
    let dry = r.chance(1, 9);
    let n = match r.below(10) { 0..=2 => 1, 3..=5 => 2, 6..=7 => 3, 8 => 4, _ => 6 } as usize;
    let mut clauses: Vec<Clause> = Vec::new();
    // handles declared in this statement: (handle, kind char, type code)
    let mut hs: Vec<(u32, char, u32)> = Vec::new();
    let mut next_h = 1u32;
    let keys = 5u32;
    // where a deliberately failing clause goes (first / middle / last / none)
    let fail_at: Option<usize> = if r.chance(1, 4) { Some(r.usize(n)) } else { None };
    for ix in 0..n {
        let want_bad = fail_at == Some(ix);
        let concept_ref = |r: &mut Rng, hs: &Vec<(u32, char, u32)>, want_ty: Option<u32>| -> Option<(Ref, u32)> {
            let mut c: Vec<(Ref, u32)> = hs.iter().filter(|h| h.1 == 'C').map(|h| (Ref::H(h.0), h.2)).collect();
            c.extend(known.concepts.iter().map(|k| (Ref::Id(k.0.clone()), k.1)));
            if let Some(t) = want_ty {
                let f: Vec<(Ref, u32)> = c.iter().filter(|x| x.1 == t).cloned().collect();
                if !f.is_empty() { return Some(r.pick(&f).clone()); }
                return None;
            }
            if c.is_empty() { None } else { Some(r.pick(&c).clone()) }
        };
        // a chain of 3-5 `same_as` links over existing Concepts (and Concepts of this block): what the
        // hop-quantified path patterns of the C18 battery walk; later statements archive / tombstone a
        // middle link or an endpoint (the generic ARCHIVE / TOMBSTONE arm picks Propositions and Concepts)
        if known.concepts.len() + hs.iter().filter(|h| h.1 == 'C').count() >= 3 && r.chance(1, 9) {
            let len = 3 + r.usize(3);
            let mut nodes: Vec<Ref> = Vec::new();
            for _ in 0..=len { if let Some((c, _)) = concept_ref(r, &hs, None) { if nodes.last() != Some(&c) { nodes.push(c); } } }
            for w2 in nodes.windows(2) {
                let h = if r.chance(1, 3) { let h = next_h; next_h += 1; hs.push((h, 'P', 0)); Some(h) } else { None };
                clauses.push(Clause::En { h, s: w2[0].clone(), p: 7, o: w2[1].clone(), expect: None, bad: false });
            }
            if nodes.len() >= 2 { continue; }
        }
        // MERGE CONCEPT: mostly two existing unmerged Concepts; sometimes itself, a merged one (refused:
        // already merged elsewhere / no-op: same target / cycle), a non-Concept, a handle of this block
        if known.concepts.len() >= 2 && r.chance(1, 14) {
            let cs: Vec<&(String, u32, u64, String, u32)> = known.concepts.iter().collect();
            let a = *r.pick(&cs);
            let b = if r.chance(1, 12) { a } else { *r.pick(&cs) };
            let src = Ref::Id(a.0.clone());
            let into = if r.chance(1, 15) && !known.props.is_empty() { Ref::Id(r.pick(&known.props).0.clone()) }
                       else if r.chance(1, 10) { concept_ref(r, &hs, None).map(|x| x.0).unwrap_or_else(|| Ref::Id(b.0.clone())) }
                       else { Ref::Id(b.0.clone()) };
            let expect = if want_bad { Some(9) } else if r.chance(1, 5) { Some(a.2) } else { None };
            clauses.push(Clause::Mg { src, into, expect });
            continue;
        }
        // one tuple named twice in one statement through a survivor and its merged-away alias (both orders),
        // in subject or object position; the tuple often does not exist yet
        if !known.merged.is_empty() && r.chance(1, 5) {
            let (alias, survivor) = r.pick(&known.merged).clone();
            let sty = known.concepts.iter().find(|k| k.0 == survivor).map(|k| k.1).unwrap_or(0);
            let other = concept_ref(r, &hs, None);
            if let Some((other, _)) = other {
                let in_subject = r.chance(1, 2);
                let p = if in_subject && sty != 1 { 7 } else if r.chance(1, 2) { 5 } else { 7 };
                let (first, second) = if r.chance(1, 2) { (alias.clone(), survivor.clone()) } else { (survivor.clone(), alias.clone()) };
                // `prefers` needs a Person subject: the subject's (canonical) type decides
                let other_ty = match &other { Ref::Id(i) => known.concepts.iter().find(|k| &k.0 == i).map(|k| k.1).unwrap_or(0), Ref::H(h) => hs.iter().find(|x| x.0 == *h).map(|x| x.2).unwrap_or(0) };
                let subj_ty = if in_subject { sty } else { other_ty };
                let other2 = other.clone();
                let mk = move |who: String, h: Option<u32>| -> Clause {
                    let (s, o) = if in_subject { (Ref::Id(who), other2.clone()) } else { (other2.clone(), Ref::Id(who)) };
                    Clause::En { h, s, p, o, expect: None, bad: p == 5 && subj_ty != 1 }
                };
                let h1 = if r.chance(1, 2) { let h = next_h; next_h += 1; hs.push((h, 'P', 0)); Some(h) } else { None };
                let h2 = if r.chance(1, 2) { let h = next_h; next_h += 1; hs.push((h, 'P', 0)); Some(h) } else { None };
                clauses.push(mk(first, h1));
                clauses.push(mk(second, h2));
                continue;
            }
        }
        // the record-lifecycle clauses (SUPERSEDE / CORRECT / TRANSITION / SET RETENTION): targets are
        // existing records or records this block creates; sometimes the wrong kind, itself, a stale guard
        if r.chance(1, 6) {
            let of = |k: char, hs: &Vec<(u32, char, u32)>| -> Vec<Ref> {
                let mut v: Vec<Ref> = known.others.iter().filter(|o| o.0.starts_with(k)).map(|o| Ref::Id(o.0.clone())).collect();
                v.extend(hs.iter().filter(|h| h.1 == k).map(|h| Ref::H(h.0)));
                v
            };
            let wrong = |r: &mut Rng| -> Option<Ref> { if known.concepts.is_empty() { None } else { Some(Ref::Id(r.pick(&known.concepts).0.clone())) } };
            let other = |r: &mut Rng, v: &Vec<Ref>, t: &Ref| -> Ref {
                let rest: Vec<Ref> = v.iter().filter(|x| *x != t).cloned().collect();
                if rest.is_empty() || r.chance(1, 12) { t.clone() } else { r.pick(&rest).clone() }
            };
            let (a, e, x) = (of('A', &hs), of('E', &hs), of('X', &hs));
            let mut menu: Vec<u8> = vec![];
            if a.len() >= 2 { menu.extend([0, 0, 0]); } else if !a.is_empty() { menu.push(0); }
            if e.len() >= 2 { menu.extend([1, 1]); } else if !e.is_empty() { menu.push(1); }
            if !x.is_empty() { menu.extend([2, 2]); }
            if !known.all.is_empty() { menu.push(3); }
            let made: Option<Clause> = if menu.is_empty() { None } else { match *r.pick(&menu) {
                0 => {
                    let t = r.pick(&a).clone();
                    let by = if r.chance(1, 12) { wrong(r).unwrap_or_else(|| t.clone()) } else { other(r, &a, &t) };
                    let expect = if want_bad { Some(1) } else if r.chance(1, 3) { Some(if r.chance(2, 3) { 0 } else { 3 }) } else { None };
                    Some(Clause::Su { t, by, expect })
                }
                1 => {
                    let t = r.pick(&e).clone();
                    let by = if r.chance(1, 12) { wrong(r).unwrap_or_else(|| t.clone()) } else { other(r, &e, &t) };
                    Some(Clause::Co { t, by })
                }
                2 => {
                    let t = if r.chance(1, 12) { wrong(r).unwrap_or_else(|| r.pick(&x).clone()) } else { r.pick(&x).clone() };
                    let expect = if want_bad { Some(7) } else if r.chance(1, 3) { Some(if r.chance(1, 2) { 0 } else { 5 }) } else { None };
                    Some(Clause::Tr { t, to: 5 + r.below(3) as u8, expect })
                }
                _ => {
                    let pick = r.pick(&known.all).clone();
                    let expect = if want_bad { Some(9) } else if r.chance(1, 4) { Some(pick.1) } else { None };
                    Some(Clause::Sr { t: Ref::Id(pick.0.clone()), v: 1 + r.below(3) as u32, expect })
                }
            } };
            if let Some(c) = made { clauses.push(c); continue; }
        }
        let choice = r.below(100);
        let c = match choice {
            0..=21 => {
                let h = next_h; next_h += 1;
                let ty = if known.env_b && r.chance(1, 4) { 3 } else { 1 + r.below(2) as u32 };
                hs.push((h, 'C', ty));
                Clause::Cc { h, ty, key: if r.chance(3, 5) { 1 + r.below(keys as u64) as u32 } else { 0 }, val: 1 + r.below(6) as u32, bad: want_bad }
            }
            22..=37 => {
                let h = next_h; next_h += 1;
                let ty = if r.chance(5, 6) { Some(1 + r.below(2) as u32) } else { None };
                // the handle's type is only known for sure when the MATCH declares one
                hs.push((h, if ty.is_some() { 'C' } else { 'U' }, ty.unwrap_or(0)));
                let expect = if want_bad { Some(7 + r.below(3)) } else if r.chance(1, 6) { Some(r.below(3)) } else { None };
                Clause::Up { h, ty, key: 1 + r.below(keys as u64) as u32, val: if r.chance(4, 5) { Some(1 + r.below(6) as u32) } else { None }, expect }
            }
            38..=55 => {
                // ENSURE: `prefers` needs a Person subject; `same_as` takes any two Concepts
                let p = if r.chance(2, 3) { 5 } else { 7 };
                let s = if want_bad { concept_ref(r, &hs, Some(2)) } else if p == 5 { concept_ref(r, &hs, Some(1)) } else { concept_ref(r, &hs, None) };
                let o = concept_ref(r, &hs, None);
                match (s, o) {
                    (Some((s, sty)), Some((o, _))) => {
                        let h = if r.chance(4, 5) { let h = next_h; next_h += 1; hs.push((h, 'P', 0)); Some(h) } else { None };
                        let bad = p == 5 && sty != 1;
                        let expect = if r.chance(1, 8) { Some(r.below(3)) } else { None };
                        Clause::En { h, s, p: if want_bad && !bad { 5 } else { p }, o, expect, bad: bad || (want_bad && sty != 1) }
                    }
                    _ => { let h = next_h; next_h += 1; hs.push((h, 'C', 1)); Clause::Cc { h, ty: 1, key: 0, val: 1 + r.below(6) as u32, bad: want_bad } }
                }
            }
            56..=63 => {
                let h = next_h; next_h += 1;
                hs.push((h, 'E', 0));
                // forward reference: generated_by an Activity declared by a *later* clause
                Clause::Cr { kind: 'E', h, pay: 1 + r.below(5) as u32, refs: vec![], bad: want_bad }
            }
            64..=71 => {
                let h = next_h; next_h += 1;
                let props: Vec<Ref> = hs.iter().filter(|h| h.1 == 'P').map(|h| Ref::H(h.0)).chain(known.props.iter().map(|p| Ref::Id(p.0.clone()))).collect();
                let by = concept_ref(r, &hs, None);
                if props.is_empty() || by.is_none() {
                    hs.push((h, 'E', 0));
                    Clause::Cr { kind: 'E', h, pay: 1 + r.below(5) as u32, refs: vec![], bad: want_bad }
                } else {
                    let mut refs = vec![r.pick(&props).clone(), by.unwrap().0];
                    let evs: Vec<Ref> = hs.iter().filter(|h| h.1 == 'E').map(|h| Ref::H(h.0)).collect();
                    if !evs.is_empty() && r.chance(1, 2) { refs.push(r.pick(&evs).clone()); }
                    hs.push((h, 'A', 0));
                    Clause::Cr { kind: 'A', h, pay: 1 + r.below(98) as u32, refs, bad: want_bad }
                }
            }
            72..=75 => {
                let h = next_h; next_h += 1;
                let evs: Vec<Ref> = hs.iter().filter(|h| h.1 == 'E').map(|h| Ref::H(h.0)).collect();
                hs.push((h, 'X', 0));
                Clause::Cr { kind: 'X', h, pay: 1 + r.below(5) as u32, refs: evs.into_iter().take(2).collect(), bad: want_bad }
            }
            76..=79 if known.others.iter().any(|o| o.0.starts_with('A')) => {
                // RETRACT an existing Assertion (rarely something that is not one)
                let asserts: Vec<&(String, u64)> = known.others.iter().filter(|o| o.0.starts_with('A')).collect();
                let t = if r.chance(1, 12) && !known.concepts.is_empty() { Ref::Id(r.pick(&known.concepts).0.clone()) } else { Ref::Id(r.pick(&asserts).0.clone()) };
                let expect = if want_bad { Some(1) } else if r.chance(1, 4) { Some(0) } else { None };
                Clause::Rt { t, expect }
            }
            76..=89 => {
                // UPDATE a Concept (a handle of this block, an existing one, rarely a leaked shell / a missing id)
                let t = if r.chance(1, 25) && !known.pending.is_empty() { Some((Ref::Id(r.pick(&known.pending).clone()), 0)) }
                        else if r.chance(1, 30) { Some((Ref::Id(format!("C{}", 40 + r.below(3))), 0)) }
                        else { concept_ref(r, &hs, None) };
                match t {
                    Some((t, _)) => {
                        let cur = if let Ref::Id(i) = &t { known.concepts.iter().find(|k| &k.0 == i).map(|k| k.2) } else { None };
                        let expect = if want_bad && r.chance(1, 2) { Some(9) } else if r.chance(1, 4) { Some(cur.unwrap_or(1)) } else { None };
                        Clause::Ud { t, acts: gen_acts(r), expect, bad: want_bad && expect != Some(9) }
                    }
                    None => { let h = next_h; next_h += 1; hs.push((h, 'C', 2)); Clause::Cc { h, ty: 2, key: 0, val: 1 + r.below(6) as u32, bad: want_bad } }
                }
            }
            96..=99 if !known.all.is_empty() => {
                // PURGE: prefer elements with a history (version > 1) and unreferenced ones; sometimes a referenced one (refused)
                let mut cands: Vec<&(String, u64, bool)> = known.all.iter().filter(|a| !a.2).collect();
                if cands.is_empty() || r.chance(1, 5) { cands = known.all.iter().collect(); }
                let hist: Vec<&(String, u64, bool)> = cands.iter().copied().filter(|a| a.1 > 1).collect();
                let pick = if !hist.is_empty() && r.chance(2, 3) { *r.pick(&hist) } else { *r.pick(&cands) };
                Clause::Pg { t: Ref::Id(pick.0.clone()), bad: pick.2 }
            }
            _ => {
                let mut all: Vec<Ref> = known.concepts.iter().map(|k| Ref::Id(k.0.clone())).collect();
                all.extend(known.props.iter().map(|k| Ref::Id(k.0.clone())));
                all.extend(known.others.iter().map(|k| Ref::Id(k.0.clone())));
                all.extend(hs.iter().filter(|h| h.1 == 'C').map(|h| Ref::H(h.0)));
                if all.is_empty() {
                    let h = next_h; next_h += 1; hs.push((h, 'C', 1)); Clause::Cc { h, ty: 1, key: 0, val: 1 + r.below(6) as u32, bad: want_bad }
                } else {
                    let t = r.pick(&all).clone();
                    let expect = if want_bad { Some('t') } else if r.chance(1, 5) { Some('a') } else { None };
                    Clause::Ss { t, to: if r.chance(2, 3) { 'r' } else { 't' }, expect }
                }
            }
        };
        clauses.push(c);
    }
    // a PURGE next to a conflict that only the commit can see: a CREATE claiming a (type, key) an
    // existing Concept holds — the statement is refused after planning succeeded
    if clauses.iter().any(|c| matches!(c, Clause::Pg { bad: false, .. })) && r.chance(2, 5) {
        let keyed: Vec<&(String, u32, u64, String, u32)> = known.concepts.iter().filter(|k| k.4 != 0 && (k.1 == 1 || k.1 == 2)).collect();
        if !keyed.is_empty() {
            let k = *r.pick(&keyed);
            let h = next_h; next_h += 1;
            let at = r.usize(clauses.len() + 1);
            clauses.insert(at, Clause::Cc { h, ty: k.1, key: k.4, val: 1 + r.below(6) as u32, bad: false });
        }
    }
    let _ = next_h;
    // forward references: let an Evidence clause cite an Activity declared after it
    let acts: Vec<(usize, u32)> = clauses.iter().enumerate().filter_map(|(i, c)| if let Clause::Cr { kind: 'X', h, .. } = c { Some((i, *h)) } else { None }).collect();
    if let Some((ai, ah)) = acts.first().copied() {
        for (i, c) in clauses.iter_mut().enumerate() {
            if let Clause::Cr { kind: 'E', refs, .. } = c && i < ai && refs.is_empty() {
                refs.push(Ref::H(ah));
            }
        }
    }
    // clause order carries no semantics: shuffle sometimes, so that a CREATE follows its users
    if r.chance(1, 3) {
        r.shuffle(&mut clauses);
    }
    Stmt { dry, clauses }
}
