//! probe (temporary)
use anda_cognitive_nexus::{
    CognitiveNexus,
    nexus::DEFAULT_SPACE,
    profiles::COGNITIVE_MEMORY,
    schema::{PackageState, SchemaLock, SchemaPackage},
};
use anda_db::database::{AndaDB, DBConfig};
use anda_kip::{Executor, Request};
use object_store::memory::InMemory;
use std::sync::Arc;

const PROFILE_ID: &str = "kip://profiles/cognitive-memory";

async fn nexus(name: &str) -> CognitiveNexus {
    let db = AndaDB::connect(Arc::new(InMemory::new()), DBConfig { name: name.to_string(), description: "x".into(), ..Default::default() }).await.unwrap();
    let nexus = CognitiveNexus::connect(Arc::new(db)).await.unwrap();
    nexus.install_package(&SchemaPackage::parse(COGNITIVE_MEMORY).unwrap(), "test").await.unwrap();
    let mut lock = SchemaLock::default();
    lock.packages.insert(PROFILE_ID.to_string(), "2.0.0".to_string());
    lock.states.insert(PROFILE_ID.to_string(), PackageState::Active);
    nexus.activate_schema(DEFAULT_SPACE, lock).await.unwrap();
    nexus
}

async fn run(nexus: &CognitiveNexus, command: &str) -> anda_kip::Response {
    let request = Request::single(command);
    let parsed = match anda_kip::parse_kip(command) {
        Ok(p) => p,
        Err(e) => {
            println!("PARSE ERROR {command}: {e:?}");
            return anda_kip::Response::default();
        }
    };
    nexus.execute(parsed, &request, &request.operations[0]).await
}

async fn show(nexus: &CognitiveNexus, command: &str) {
    let r = run(nexus, command).await;
    println!("--- {command}\n{}", serde_json::to_string(&r).unwrap());
}


async fn showp(nexus: &CognitiveNexus, command: &str, params: &[(&str, &str)], dry: bool) {
    let mut request = Request::single(command);
    let mut m = serde_json::Map::new();
    for (k, v) in params { m.insert(k.to_string(), serde_json::Value::String(v.to_string())); }
    request.parameters = Some(m);
    if dry { request.options = Some(anda_kip::RequestOptions { dry_run: Some(true), ..Default::default() }); }
    let parsed = match anda_kip::parse_kip(command) { Ok(p) => p, Err(e) => { println!("PARSE ERROR {command}: {}", e.message); return; } };
    let r = nexus.execute(parsed, &request, &request.operations[0]).await;
    let txt = serde_json::to_string(&r).unwrap();
    println!("--- {command} {params:?}\n{}", &txt[..txt.len().min(1200)]);
}

#[tokio::main]
async fn main() {
    let n = nexus("probe").await;
    showp(&n, r#"MUTATE {
        CREATE CONCEPT ?a { TYPE "Person" NAME "Alice" SET FIELDS {key: "a"} }
        CREATE CONCEPT ?d { TYPE "Preference" NAME "Dark" SET FIELDS {key: "d"} }
        ENSURE PROPOSITION ?p1 (?a, "prefers", ?d)
        ENSURE PROPOSITION ?p2 (?a, "prefers", ?d)
    }"#, &[], false).await;
    showp(&n, r#"FIND(?p.id, ?p._system.state, ?p._system.version) WHERE { ?p PROPOSITION (?s, ?pred, ?o) }"#, &[], false).await;
    showp(&n, r#"FIND(?c.id, ?c._system.state, ?c._system.version) WHERE { ?c CONCEPT {state: ?s} }"#, &[], false).await;
    showp(&n, "HISTORY SPACE", &[], false).await;
    showp(&n, r#"FIND(?c.id, ?c._system.version) WHERE { ?c CONCEPT {state: ?s} } AS OF SEQ 1"#, &[], false).await;
    showp(&n, r#"FIND(?p.id) WHERE { ?p PROPOSITION (?s, ?pred, ?o) } AS OF SEQ 1"#, &[], false).await;
    // second try with params on fresh elements
    showp(&n, r#"MUTATE {
        CREATE CONCEPT ?a { TYPE "Person" NAME "Bob" SET FIELDS {key: "b"} }
        CREATE CONCEPT ?d { TYPE "Preference" NAME "Light" SET FIELDS {key: "l"} }
    }"#, &[], false).await;
    showp(&n, r#"FIND(?c.id, ?c.name, ?c._system.state, ?c._system.version) WHERE { ?c CONCEPT {state: ?s} }"#, &[], false).await;
    showp(&n, r#"MUTATE {
        UPDATE :x SET FIELDS {name: "Bob B."}
        UPDATE :x SET ATTRIBUTES {display_name: "BB"}
        ARCHIVE :x
    }"#, &[("x", "C-3")], false).await;
    showp(&n, r#"UPDATE :x EXPECT VERSION 7 SET FIELDS {name: "Q"}"#, &[("x", "C-4")], false).await;
    showp(&n, r#"UPDATE :x EXPECT VERSION 1 SET FIELDS {name: "Q"}"#, &[("x", "C-4")], true).await;
    showp(&n, r#"UPDATE :x SET FIELDS {name: "Light"}"#, &[("x", "C-4")], false).await;
    showp(&n, r#"ARCHIVE :x EXPECT STATE "archived""#, &[("x", "C-4")], false).await;
    showp(&n, r#"TOMBSTONE :x"#, &[("x", "C-3")], false).await;
    showp(&n, r#"MUTATE { CREATE CONCEPT ?z { TYPE "Person" NAME "Z" } UPDATE ?z SET FIELDS {name: "Zed"} UPDATE ?nope SET FIELDS {name: "n"} }"#, &[], false).await;
    showp(&n, r#"MUTATE { CREATE CONCEPT ?z { TYPE "Person" NAME "Z" } UPDATE ?z SET FIELDS {name: "Zed"} }"#, &[], false).await;
    showp(&n, r#"FIND(?c.id, ?c.name, ?c._system.state, ?c._system.version) WHERE { ?c CONCEPT {state: ?s} }"#, &[], false).await;
    showp(&n, r#"ENSURE PROPOSITION ?p (:s, "prefers", :o)"#, &[("s","C-3"),("o","C-4")], false).await;
    showp(&n, r#"ENSURE PROPOSITION ?p (:s, "prefers", :o) EXPECT VERSION 3"#, &[("s","C-3"),("o","C-4")], false).await;
    showp(&n, r#"ENSURE PROPOSITION ?p (:s, "prefers", :o)"#, &[("s","C-4"),("o","C-3")], false).await;
    showp(&n, r#"FIND(?c.id, ?c._system.state) WHERE { ?c CONCEPT {id: :i, state: ?s} }"#, &[("i","C-3")], false).await;
    showp(&n, r#"SNAPSHOT"#, &[], false).await;
}
