//! Harness for property C17 (stub: not built yet).
fn main() {
    let a = vh_common::Args::parse();
    let r = vh_common::Report::new("C17", &a, "stub");
    r.write(&a);
}
