//! C17 — a KML statement is all-or-nothing and versions each element once.
//!
//! Case = a sequence of generated KML statements (multi-clause blocks with forward references,
//! UPSERT / ENSURE hits and misses, failing EXPECT guards, clauses failing first / middle / last,
//! conflicts only detectable at commit, dry runs) executed through `parse_kip` +
//! `Executor::execute` on a fresh in-memory Nexus.
//!
//! * correspondence: every statement is also sent to the Lean model (`drv_c17`), which predicts
//!   the receipt (status, sequence, changes with versions) and the whole store afterwards (every
//!   row of the five element collections incl. `pending` shells and their ids, journal, version log);
//! * oracle (independent of the model): before/after dumps of everything a query, a META command or
//!   an `AS OF` read returns must be equal for refused / dry / unparsable statements; a commit takes
//!   one fresh sequence, adds one journal row, raises each changed element's version by exactly one
//!   and writes nothing else; tuples and logical keys stay unique.
mod drive;
mod ops;
mod oracle;
mod runner;
mod world;

fn main() {
    drive::main_with(drive::Setup {
        property: "C17",
        rule: "a case is non-trivial when at least one statement committed with a non-empty change list; distinct by the sequence of receipts",
        cfg: runner::Cfg { history: false, atomicity: true },
        cases: (700, 30000),
        len: (9, 16),
    });
}
