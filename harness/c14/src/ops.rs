//! The line protocol shared by the harness, the Lean driver, the corpus and the replay files.
//!
//!   cfg <admin:-|S> <primary:S> <maxDbs>
//!   req <VERB> <target> <auth:-|S> <ct:cbor|json|-> <accept:cbor|json|-> malformed
//!   req <VERB> <target> <auth> <ct> <accept> rpc <method:S> <name:-|S> <apikey:-|S> <fresh:S> <pvar>
//!        target: / | db:S | dbp:S (same, every byte percent-encoded on the wire) | badutf8:S (raw path) | unrouted:S (raw path)
//!        pvar  : d (default parameters) | x (default parameters plus fields naming other databases) | n (null parameters)
//!                | ro (like d, but `*.set_read_only` switch read-only ON) | fixture (collection.ensure creates `c1`)
//!        target may also be raw:S - the raw request target (path and query) - which the model routes itself
//!   restart                (clean stop, new AppState over the same store)
//!   begin <id> <VERB> <target> … (as req)   send the request head, withhold the body
//!   finish <id>            deliver the body of request <id>, collect the answer (decided NOW)
//!   fault <k>              (the PUT of <primary>/db_meta.cbor - registry and key map - fails once, after k more such PUTs)
//!   crash                  (the process dies without flushing; new AppState over what the store holds; the model treats it as restart)
//!   fixture <S>            (harness only: populate database S through the admin; not sent to the model)
//!
//! A string token S is `x<hex of the UTF-8 bytes>` or `=<literal>` (only `A-Za-z0-9_.$:/%-`, `~` for a space).

#[derive(Clone, Copy, Debug, PartialEq, Eq)]
pub enum Enc {
    Cbor,
    Json,
}

#[derive(Clone, Debug, PartialEq, Eq)]
pub struct CfgLine {
    pub admin: Option<String>,
    pub primary: String,
    pub max: usize,
}

#[derive(Clone, Debug, PartialEq, Eq)]
pub enum Target {
    Root,
    Db { name: String, pct: bool },
    BadUtf8(String),
    Unrouted(String),
}

#[derive(Clone, Debug, PartialEq, Eq)]
pub enum Body {
    Malformed,
    Rpc { method: String, name: Option<String>, key: Option<String>, fresh: String, pvar: String },
}

#[derive(Clone, Debug, PartialEq, Eq)]
pub struct Req {
    pub verb: String,
    /// what the request addresses, as the *harness* resolves it (for a raw target: by its own
    /// reading of the path, independent of the model and of the router)
    pub target: Target,
    /// the raw request target (path and query) when the line gives one (`raw:S`): sent as is to the
    /// router, and routed by the model's `routePath`
    pub raw: Option<String>,
    pub auth: Option<Vec<u8>>,
    pub ct: Option<Enc>,
    pub accept: Option<Enc>,
    pub body: Body,
}

#[derive(Clone, Debug, PartialEq, Eq)]
pub enum Op {
    Cfg(CfgLine),
    Req(Req),
    Restart,
    /// the process dies (nothing is flushed or closed) and a new one starts over what the store holds
    Crash,
    /// arm a single-shot storage fault: the PUT of the primary's metadata object fails after `k` more
    /// such PUTs succeeded (disarmed by restart / crash)
    Fault(usize),
    /// the same for the PUT of `<primary>/storage_meta.cbor`, which `flush_metadata` writes AFTER the
    /// metadata object: the key map / registry did land, the request is answered 5xx all the same
    Fault2(usize),
    /// disarm the fault
    NoFault,
    /// send the head of a request and withhold its body (the service authorises from the headers and
    /// then waits for the body)
    Begin(String, Req),
    /// deliver the withheld body of request `id` and collect the answer
    Finish(String),
    Fixture(String),
}

pub fn enc_bytes(b: &[u8]) -> String {
    let literal_ok = !b.is_empty() && b.iter().all(|c| c.is_ascii_alphanumeric() || b"_.$:/%- ".contains(c));
    if literal_ok {
        format!("={}", String::from_utf8_lossy(b).replace(' ', "~"))
    } else {
        format!("x{}", vh_common::hex(b))
    }
}

pub fn enc_str(s: &str) -> String {
    enc_bytes(s.as_bytes())
}

pub fn hex_str(s: &str) -> String {
    format!("x{}", vh_common::hex(s.as_bytes()))
}

pub fn dec_bytes(t: &str) -> Option<Vec<u8>> {
    if let Some(lit) = t.strip_prefix('=') {
        return Some(lit.replace('~', " ").into_bytes());
    }
    let h = t.strip_prefix('x')?;
    if h.len() % 2 != 0 {
        return None;
    }
    (0..h.len()).step_by(2).map(|i| u8::from_str_radix(h.get(i..i + 2)?, 16).ok()).collect()
}

pub fn dec_str(t: &str) -> Option<String> {
    String::from_utf8(dec_bytes(t)?).ok()
}

fn opt_enc(s: &Option<String>) -> String {
    s.as_deref().map(enc_str).unwrap_or_else(|| "-".into())
}

fn opt_dec(t: &str) -> Option<Option<String>> {
    if t == "-" { Some(None) } else { dec_str(t).map(Some) }
}

fn enc_name(e: Option<Enc>) -> &'static str {
    match e {
        None => "-",
        Some(Enc::Cbor) => "cbor",
        Some(Enc::Json) => "json",
    }
}

fn enc_parse(t: &str) -> Option<Option<Enc>> {
    match t {
        "-" => Some(None),
        "cbor" => Some(Some(Enc::Cbor)),
        "json" => Some(Some(Enc::Json)),
        _ => None,
    }
}

pub fn show_names(names: &[String]) -> String {
    if names.is_empty() {
        return "-".into();
    }
    let mut v: Vec<&String> = names.iter().collect();
    v.sort();
    v.iter().map(|n| hex_str(n)).collect::<Vec<_>>().join(",")
}

/// The harness's own reading of a raw request target (independent of the Lean model and of the
/// router): the query is cut off, `/` is the root, one non-empty segment is a database name after
/// percent-decoding (malformed `%` sequences stay literal) if that is UTF-8.
pub fn resolve_raw(t: &str) -> Target {
    let path = t.split('?').next().unwrap_or("");
    let Some(seg) = path.strip_prefix('/') else { return Target::Unrouted(t.to_string()) };
    if seg.is_empty() {
        return Target::Root;
    }
    if seg.contains('/') {
        return Target::Unrouted(t.to_string());
    }
    let b = seg.as_bytes();
    let hex = |c: u8| (c as char).to_digit(16).map(|d| d as u8);
    let (mut out, mut i) = (Vec::new(), 0);
    while i < b.len() {
        if b[i] == b'%' && i + 2 < b.len() {
            if let (Some(h), Some(l)) = (hex(b[i + 1]), hex(b[i + 2])) {
                out.push(h * 16 + l);
                i += 3;
                continue;
            }
        }
        out.push(b[i]);
        i += 1;
    }
    match String::from_utf8(out) {
        Ok(name) => Target::Db { name, pct: false },
        Err(_) => Target::BadUtf8(t.to_string()),
    }
}

impl Req {
    pub fn route_class(&self) -> String {
        let t = match &self.target {
            Target::Root => "/",
            Target::Db { pct: false, .. } => "/{db}",
            Target::Db { pct: true, .. } => "/{db%}",
            Target::BadUtf8(_) => "/{bad-utf8}",
            Target::Unrouted(_) => "unrouted",
        };
        format!("{} {t}", self.verb)
    }
    /// the other encoding of the same matrix cell
    pub fn twin_of(&self, other: &Req) -> bool {
        self.ct != other.ct && Req { ct: None, ..self.clone() } == Req { ct: None, ..other.clone() } && self.accept.is_none()
    }
    pub fn method(&self) -> Option<&str> {
        match &self.body {
            Body::Rpc { method, .. } => Some(method),
            Body::Malformed => None,
        }
    }
}

impl Op {
    pub fn to_line(&self) -> String {
        match self {
            Op::Cfg(c) => format!("cfg {} {} {}", opt_enc(&c.admin), enc_str(&c.primary), c.max),
            Op::Restart => "restart".into(),
            Op::Crash => "crash".into(),
            Op::Fault(k) => format!("fault {k}"),
            Op::Fault2(k) => format!("fault2 {k}"),
            Op::NoFault => "nofault".into(),
            Op::Begin(id, r) => format!("begin {id} {}", Op::Req(r.clone()).to_line().strip_prefix("req ").unwrap_or("")),
            Op::Finish(id) => format!("finish {id}"),
            Op::Fixture(n) => format!("fixture {}", enc_str(n)),
            Op::Req(r) => {
                let target = match &r.target {
                    _ if r.raw.is_some() => format!("raw:{}", enc_str(r.raw.as_deref().unwrap())),
                    Target::Root => "/".to_string(),
                    Target::Db { name, pct: false } => format!("db:{}", enc_str(name)),
                    Target::Db { name, pct: true } => format!("dbp:{}", enc_str(name)),
                    Target::BadUtf8(raw) => format!("badutf8:{}", enc_str(raw)),
                    Target::Unrouted(raw) => format!("unrouted:{}", enc_str(raw)),
                };
                let auth = r.auth.as_deref().map(enc_bytes).unwrap_or_else(|| "-".into());
                let body = match &r.body {
                    Body::Malformed => "malformed".to_string(),
                    Body::Rpc { method, name, key, fresh, pvar } => {
                        format!("rpc {} {} {} {} {pvar}", if method.is_empty() { "x".to_string() } else { enc_str(method) }, opt_enc(name), opt_enc(key), enc_str(fresh))
                    }
                };
                format!("req {} {target} {auth} {} {} {body}", r.verb, enc_name(r.ct), enc_name(r.accept))
            }
        }
    }

    pub fn parse(line: &str) -> Option<Op> {
        let w: Vec<&str> = line.split(' ').filter(|t| !t.is_empty()).collect();
        match w.as_slice() {
            ["cfg", a, p, m] => Some(Op::Cfg(CfgLine { admin: opt_dec(a)?, primary: dec_str(p)?, max: m.parse().ok()? })),
            ["restart"] => Some(Op::Restart),
            ["crash"] => Some(Op::Crash),
            ["fault", k] => Some(Op::Fault(k.parse().ok()?)),
            ["fault2", k] => Some(Op::Fault2(k.parse().ok()?)),
            ["nofault"] => Some(Op::NoFault),
            ["finish", id] => Some(Op::Finish(id.to_string())),
            ["begin", id, rest @ ..] => match Op::parse(&format!("req {}", rest.join(" ")))? {
                Op::Req(r) => Some(Op::Begin(id.to_string(), r)),
                _ => None,
            },
            ["fixture", n] => Some(Op::Fixture(dec_str(n)?)),
            ["req", verb, target, auth, ct, accept, body @ ..] => {
                let mut raw = None;
                let target = if let Some(t) = target.strip_prefix("raw:") {
                    let t = dec_str(t)?;
                    let resolved = resolve_raw(&t);
                    raw = Some(t);
                    resolved
                } else if *target == "/" {
                    Target::Root
                } else if let Some(n) = target.strip_prefix("db:") {
                    Target::Db { name: dec_str(n)?, pct: false }
                } else if let Some(n) = target.strip_prefix("dbp:") {
                    Target::Db { name: dec_str(n)?, pct: true }
                } else if let Some(n) = target.strip_prefix("badutf8:") {
                    Target::BadUtf8(dec_str(n)?)
                } else if let Some(n) = target.strip_prefix("unrouted:") {
                    Target::Unrouted(dec_str(n)?)
                } else {
                    return None;
                };
                let auth = if *auth == "-" { None } else { Some(dec_bytes(auth)?) };
                let body = match body {
                    ["malformed"] => Body::Malformed,
                    ["rpc", m, n, k, f, pvar] => {
                        Body::Rpc { method: dec_str(m)?, name: opt_dec(n)?, key: opt_dec(k)?, fresh: dec_str(f)?, pvar: pvar.to_string() }
                    }
                    _ => return None,
                };
                Some(Op::Req(Req { verb: verb.to_string(), target, raw, auth, ct: enc_parse(ct)?, accept: enc_parse(accept)?, body }))
            }
            _ => None,
        }
    }
}
