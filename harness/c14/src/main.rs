//! Harness for property C14 — "Service keys confine callers to their database; reads never write".
//!
//! * drives the real axum router (`anda_db_server::build_router`) in-process with
//!   `tower::ServiceExt::oneshot`, over a [`store::RecordingStore`] (every backend access logged);
//! * a case is a list of op lines (`cfg`, `req`, `restart`, `fixture`): a generated history of
//!   key/database management followed by the complete request matrix
//!   (route × method name incl. unknown × principal × encoding × addressed database);
//! * **correspondence**: every line is also sent to the Lean driver `drv_c14`
//!   (`Model/ServerAuth.handle`), canonical response lines are compared;
//! * **oracle** (independent of the model, see `oracle.rs`): uniform byte-identical rejections that
//!   touch no storage, confinement of per-database principals (storage paths, response contents,
//!   `info` view), no storage mutation for any method the source labels `Read`.

mod ops;
mod oracle;
mod store;
mod wire;

use ops::*;
use std::collections::{BTreeMap, BTreeSet};
use vh_common::serde_json::json;
use vh_common::{Args, ModelProc, Report, Rng};

pub const FROZEN_READ_ROOT: &[&str] = &["info", "db.list"];
pub const FROZEN_READ_DB: &[&str] = &[
    "info", "db.metadata", "db.stats", "db.get_extension", "collection.list", "collection.metadata", "collection.stats",
    "collection.get_extension", "doc.get", "doc.get_many", "doc.exists", "doc.count", "doc.search", "doc.search_ids", "doc.query_ids",
    "doc.query_last_ids",
];

/// The method tables as the source has them now (parsed from the generated Lean file, which the
/// translator rewrote from /repo at the start of this check).
#[derive(Clone, Debug, Default)]
pub struct Tables {
    /// method name -> (variant, is_read)
    pub root: BTreeMap<String, (String, bool)>,
    pub db: BTreeMap<String, (String, bool)>,
}

fn gen_file() -> std::path::PathBuf {
    std::path::Path::new(env!("CARGO_MANIFEST_DIR")).join("../../lean/AndaVerif/Gen/ServerMethods.lean")
}

fn read_tables() -> Tables {
    let text = std::fs::read_to_string(gen_file()).expect("Gen/ServerMethods.lean (run bin/translate/c14_server_methods.py)");
    let mut t = Tables::default();
    let mut cur: Option<&str> = None;
    for line in text.lines() {
        let l = line.trim();
        if l.starts_with("def rootParse") {
            cur = Some("root");
        } else if l.starts_with("def dbParse") {
            cur = Some("db");
        } else if l.starts_with(']') {
            cur = None;
        } else if let Some(which) = cur
            && l.starts_with('⟨')
        {
            let parts: Vec<&str> = l.trim_matches(|c| c == '⟨' || c == '⟩' || c == ',').split(',').map(|s| s.trim().trim_matches('⟩')).collect();
            if parts.len() == 3 {
                let name = parts[0].trim_matches('"').to_string();
                let variant = parts[1].trim_matches('"').to_string();
                let read = parts[2] == ".read";
                if which == "root" { t.root.insert(name, (variant, read)) } else { t.db.insert(name, (variant, read)) };
            }
        }
    }
    assert!(!t.root.is_empty() && !t.db.is_empty(), "could not read the generated method tables");
    t
}

// ---------------------------------------------------------------------------------------------
// generator
// ---------------------------------------------------------------------------------------------

pub const NAME_A: &str = "tenant_qa7";
pub const NAME_B: &str = "tenant_zb9";
pub const NAME_C: &str = "tenant_mc3";
pub const NAME_MISSING: &str = "nodb_yy4";
pub const NAME_BAD: &str = "Bad-Name";
pub const PRIMARY: &str = "prim_x5db";
pub const ADMIN_KEY: &str = "adm_K3y9Zq";
pub const TIMING_DUMMY_KEY: &str = "anda-db-server-timing-equalization-dummy";

fn long_name() -> String {
    "n".repeat(65)
}

fn admin_req(cfg: &CfgLine, method: &str, name: Option<&str>, key: Option<&str>, fresh: &str) -> Op {
    Op::Req(Req {
        verb: "POST".into(),
        target: Target::Root,
        raw: None,
        auth: Some(format!("Bearer {}", cfg.admin.clone().unwrap_or_else(|| "whoever".into())).into_bytes()),
        ct: Some(Enc::Cbor),
        accept: None,
        body: Body::Rpc { method: method.into(), name: name.map(String::from), key: key.map(String::from), fresh: fresh.into(), pvar: "d".into() },
    })
}

struct Gen<'a> {
    rng: &'a mut Rng,
    cfg: CfgLine,
    fresh_n: u32,
    key_n: BTreeMap<String, u32>,
    keys: BTreeSet<String>,
}

impl Gen<'_> {
    fn fresh(&mut self) -> String {
        self.fresh_n += 1;
        format!("$g{}", self.fresh_n)
    }
    fn new_key(&mut self, db: &str) -> String {
        let n = self.key_n.entry(db.to_string()).or_insert(0);
        *n += 1;
        let tag = match db {
            NAME_A => "ka",
            NAME_B => "kb",
            NAME_C => "kc",
            _ => "kx",
        };
        let k = format!("{tag}{n}_S3c");
        self.keys.insert(k.clone());
        k
    }
    fn pick_name(&mut self) -> String {
        let pool = [NAME_A, NAME_A, NAME_A, NAME_B, NAME_B, NAME_B, NAME_C, NAME_C, PRIMARY, NAME_MISSING, NAME_BAD];
        self.rng.pick(&pool).to_string()
    }
    fn history_op(&mut self, out: &mut Vec<Op>) {
        let n = self.pick_name();
        let fresh = self.fresh();
        let cfg = self.cfg.clone();
        match self.rng.below(20) {
            0..=3 => {
                let key = if self.rng.chance(2, 3) { Some(self.new_key(&n)) } else { None };
                out.push(admin_req(&cfg, "db.create", Some(&n), key.as_deref(), &fresh));
                if self.rng.chance(3, 4) {
                    out.push(Op::Fixture(n));
                }
            }
            4..=5 => out.push(admin_req(&cfg, "db.close", Some(&n), None, &fresh)),
            6..=7 => out.push(admin_req(&cfg, "db.open", Some(&n), None, &fresh)),
            8 => out.push(admin_req(&cfg, "db.connect", Some(&n), None, &fresh)),
            9..=12 => {
                // bind / rotate
                let key = match self.rng.below(10) {
                    0..=4 => Some(self.new_key(&n)),
                    5..=6 => {
                        self.keys.insert(fresh.clone());
                        None // server-generated
                    }
                    7 => self.keys.iter().next().cloned(), // a key that may already be bound elsewhere
                    // blank keys: `trim()` is Unicode-aware (tab, VT, NBSP, EM SPACE …); and one that only looks blank
                    8 => Some(self.rng.pick(&[" ", "", "\t", " \n\r", "\u{b}\u{c}", "\u{a0}", "\u{2003}\u{3000} ", "\u{85}", "\u{200b}", " k "]).to_string()),
                    _ => cfg.admin.clone(), // the admin key itself
                };
                out.push(admin_req(&cfg, "db.set_api_key", Some(&n), key.as_deref(), &fresh));
            }
            13..=15 => out.push(admin_req(&cfg, "db.remove_api_key", Some(&n), None, &fresh)),
            16 => out.push(if self.rng.chance(1, 2) { Op::Restart } else { Op::Crash }),
            19 => {
                // the admin switches the PRIMARY read-only (persistence of registry / key map then fails) or back
                let pvar = if self.rng.chance(2, 3) { "ro" } else { "d" };
                if let Op::Req(mut r) = admin_req(&cfg, "db.set_read_only", None, None, &fresh) {
                    r.target = Target::Db { name: PRIMARY.into(), pct: false };
                    if let Body::Rpc { pvar: p, .. } = &mut r.body {
                        *p = pvar.into();
                    }
                    out.push(Op::Req(r));
                }
            }
            17 => {
                // work inside a database (as the admin): make it dirty, flush it, switch read-only on/off
                let (m, pvar) = *self.rng.pick(&[("doc.add", "d"), ("doc.add", "d"), ("db.flush", "d"), ("db.set_read_only", "ro"), ("db.set_read_only", "d"), ("collection.set_read_only", "ro"), ("doc.update", "d")]);
                if let Op::Req(mut r) = admin_req(&cfg, m, None, None, &fresh) {
                    r.target = Target::Db { name: n, pct: false };
                    if let Body::Rpc { pvar: p, .. } = &mut r.body {
                        *p = pvar.into();
                    }
                    out.push(Op::Req(r));
                }
            }
            _ => {
                // a per-database key holder tries a root-scope management call (18)
                if let Some(k) = self.keys.iter().next().cloned() {
                    let m = *self.rng.pick(&["db.set_api_key", "db.remove_api_key", "db.close", "db.create"]);
                    if let Op::Req(mut r) = admin_req(&cfg, m, Some(&n), Some("stolen_K"), &fresh) {
                        r.auth = Some(format!("Bearer {k}").into_bytes());
                        out.push(Op::Req(r));
                    }
                }
            }
        }
    }
}

/// The complete request matrix for the current key universe.
fn matrix(rng: &mut Rng, cfg: &CfgLine, keys: &BTreeSet<String>, tables: &Tables, fresh_base: &mut u32, full: bool) -> Vec<Op> {
    let mut methods: BTreeSet<String> = tables.root.keys().chain(tables.db.keys()).cloned().collect();
    for m in FROZEN_READ_ROOT.iter().chain(FROZEN_READ_DB.iter()) {
        methods.insert(m.to_string());
    }
    for m in ["nope.method", "", "INFO", "db.delete", "doc.add "] {
        methods.insert(m.to_string());
    }
    let admin = cfg.admin.clone().unwrap_or_else(|| "no_admin_cfg".into());
    let mut principals: Vec<Option<Vec<u8>>> = vec![
        None,
        Some(format!("Bearer {admin}").into_bytes()),
        Some(b"Bearer k_never_V4lid".to_vec()),
        Some(format!("Bearer {TIMING_DUMMY_KEY}").into_bytes()),
        // garbage: wrong scheme / case / spacing / raw key / non-ASCII byte / trailing blank / empty token
        Some(format!("Basic {admin}").into_bytes()),
        Some(format!("bearer {admin}").into_bytes()),
        Some(format!("Bearer  {admin}").into_bytes()),
        Some(admin.clone().into_bytes()),
        Some([format!("Bearer {admin}").as_bytes(), &[0xff]].concat()),
        Some(format!("Bearer {admin} ").into_bytes()),
        Some(b"Bearer ".to_vec()),
        Some(b"Bearer".to_vec()),
        Some(format!("Bearer\t{admin}").into_bytes()),
        Some(format!("Bearer {admin}\t").into_bytes()),
    ];
    for k in keys {
        principals.push(Some(format!("Bearer {k}").into_bytes()));
    }
    let named: Vec<Target> = vec![
        Target::Db { name: NAME_A.into(), pct: false },
        Target::Db { name: NAME_B.into(), pct: false },
        Target::Db { name: NAME_C.into(), pct: false },
        Target::Db { name: PRIMARY.into(), pct: false },
        Target::Db { name: NAME_MISSING.into(), pct: false },
        Target::Db { name: NAME_BAD.into(), pct: false },
        Target::Db { name: long_name(), pct: false },
        Target::Db { name: NAME_A.into(), pct: true },
        Target::BadUtf8("/%ff".into()),
        Target::Unrouted(format!("/{NAME_A}/x")),
    ];
    let mut db_targets: Vec<(Target, Option<String>)> = named.into_iter().map(|t| (t, None)).collect();
    // raw request targets: the model routes them itself (`routePath`), the harness resolves them with
    // its own reading for the oracle. A database name in the QUERY, an encoded slash, partial and
    // lower-case escapes, malformed escapes, non-ASCII names, truncated / surrogate / overlong UTF-8,
    // empty and dot segments.
    for raw in [
        format!("/{NAME_A}?db_name={NAME_B}&name={NAME_B}&db={NAME_B}&database={PRIMARY}"),
        format!("/{NAME_B}?{NAME_A}"),
        format!("/{NAME_A}%2F{NAME_B}"),
        format!("/%74enant%5fqa7"),
        format!("/{NAME_A}%"),
        format!("/{NAME_A}%2"),
        "/%zz".to_string(),
        "/%C3%A9t%C3%A9".to_string(),
        "/%C3".to_string(),
        "/%ED%A0%80".to_string(),
        "/%C0%AF".to_string(),
        "/%F4%90%80%80".to_string(),
        "//".to_string(),
        format!("/{NAME_A}/"),
        "/..".to_string(),
        format!("/{NAME_A}/../{NAME_B}"),
    ] {
        db_targets.push((resolve_raw(&raw), Some(raw)));
    }
    let root_names: Vec<Option<String>> =
        vec![Some(NAME_A.into()), Some(NAME_B.into()), Some(NAME_C.into()), Some(PRIMARY.into()), Some(NAME_MISSING.into()), Some(NAME_BAD.into()), Some(String::new()), Some(long_name()), Some("z".repeat(64)), Some("\u{e9}t\u{e9}".into()), Some("Tenant_QA7".into()), None];
    let mut cells: Vec<[Op; 2]> = Vec::new();
    let mut push = |(target, raw): (Target, Option<String>), auth: &Option<Vec<u8>>, method: &str, name: Option<String>, key: Option<String>, pvar: &str, fb: &mut u32| {
        *fb += 1;
        let fresh = format!("$g{}", *fb);
        let mk = |ct| {
            Op::Req(Req {
                verb: "POST".into(),
                target: target.clone(),
                raw: raw.clone(),
                auth: auth.clone(),
                ct: Some(ct),
                accept: None,
                body: Body::Rpc { method: method.into(), name: name.clone(), key: key.clone(), fresh: fresh.clone(), pvar: pvar.into() },
            })
        };
        cells.push([mk(Enc::Cbor), mk(Enc::Json)]);
    };
    for auth in &principals {
        for m in &methods {
            for t in &db_targets {
                // the complete matrix uses the default parameters; two more parameter shapes are
                // added for a rotating subset (parameters naming *another* database, null parameters)
                push(t.clone(), auth, m, None, None, "d", fresh_base);
                if full || rng.chance(1, 8) {
                    push(t.clone(), auth, m, None, None, "x", fresh_base);
                }
                if full || rng.chance(1, 16) {
                    push(t.clone(), auth, m, None, None, "n", fresh_base);
                }
            }
            let root_method = tables.root.contains_key(m.as_str());
            let takes_name = root_method && m != "info" && m != "db.list";
            for n in &root_names {
                if !takes_name && n.as_deref() != Some(NAME_A) {
                    continue;
                }
                let key = if (m == "db.create" || m == "db.set_api_key") && rng.chance(1, 2) { Some(format!("km{}_S3c", rng.below(3))) } else { None };
                push((Target::Root, None), auth, m, n.clone(), key.clone(), "d", fresh_base);
                if n.as_deref() == Some(NAME_A) && (full || rng.chance(1, 4)) {
                    // a database name in the query of the ROOT route must not turn it into a database scope
                    let raw = format!("/?db_name={NAME_A}&name={NAME_B}");
                    push((Target::Root, Some(raw)), auth, m, n.clone(), key, "d", fresh_base);
                }
            }
        }
    }
    rng.shuffle(&mut cells);
    let mut out: Vec<Op> = cells.into_iter().flatten().collect();
    // a few cells outside the RPC routes and outside the two encodings
    for auth in principals.iter().take(4) {
        for (verb, target) in [
            ("GET", Target::Root),
            ("GET", Target::Db { name: NAME_A.into(), pct: false }),
            ("PUT", Target::Root),
            ("DELETE", Target::Db { name: NAME_A.into(), pct: false }),
            ("GET", Target::Unrouted(format!("/{NAME_A}/{NAME_B}"))),
        ] {
            for accept in [None, Some(Enc::Cbor), Some(Enc::Json)] {
                out.push(Op::Req(Req { verb: verb.into(), target: target.clone(), raw: None, auth: auth.clone(), ct: None, accept, body: Body::Malformed }));
            }
        }
        for t in [Target::Root, Target::Db { name: NAME_A.into(), pct: false }, Target::Db { name: NAME_MISSING.into(), pct: false }] {
            // no / unknown content type, malformed body, Accept overriding the request encoding
            for (ct, accept, malformed) in [(None, None, false), (None, Some(Enc::Json), false), (Some(Enc::Cbor), Some(Enc::Json), true), (Some(Enc::Json), Some(Enc::Cbor), false)] {
                *fresh_base += 1;
                let body = if malformed {
                    Body::Malformed
                } else {
                    Body::Rpc { method: "info".into(), name: None, key: None, fresh: format!("$g{}", *fresh_base), pvar: "d".into() }
                };
                out.push(Op::Req(Req { verb: "POST".into(), target: t.clone(), raw: None, auth: auth.clone(), ct, accept, body }));
            }
        }
    }
    out
}

/// Key-management requests whose persistence step fails once (an injected fault on the PUT of the
/// primary's metadata object), the identical retry, then a crash or a clean restart — after which the
/// complete matrix is replayed against the acknowledged bindings. Also: a failure that is NOT retried,
/// followed by other management requests (the shape of the former finding
/// `ack-not-durable:failed-set-resurfaces`, repaired in /repo 5c65d83; corpus 12 is its regression).
/// One fault in three is a `fault2`: the PUT landed and is reported failed (former counterexample,
/// repaired in /repo 39a09a9; corpus 13 is its regression).
fn fault_scenarios(g: &mut Gen, out: &mut Vec<Op>) {
    let cfg = g.cfg.clone();
    let rounds = 1 + g.rng.below(3);
    for _ in 0..rounds {
        let n = *g.rng.pick(&[NAME_A, NAME_A, NAME_B, NAME_C]);
        let kind = g.rng.below(6);
        // which PUT of the primary's metadata fails: the first one, rarely the second (a request that does
        // only one such PUT then passes and the fault hits the retry instead); db.create with a key does up to three
        let k = if kind == 5 { g.rng.below(3) as usize } else if g.rng.chance(1, 6) { 1 } else { 0 };
        // make sure the database exists (and sometimes carries a key to revoke / rotate away)
        let f0 = g.fresh();
        let key0 = if g.rng.chance(2, 3) { Some(g.new_key(n)) } else { None };
        out.push(admin_req(&cfg, "db.connect", Some(n), None, &f0));
        if let Some(k0) = &key0 {
            let f = g.fresh();
            out.push(admin_req(&cfg, "db.set_api_key", Some(n), Some(k0), &f));
        }
        let mk = |g: &mut Gen| -> Op {
            let f = g.fresh();
            match kind {
                0 | 1 => {
                    let nk = g.new_key(n);
                    admin_req(&cfg, "db.set_api_key", Some(n), Some(&nk), &f)
                }
                2 => {
                    g.keys.insert(f.clone());
                    admin_req(&cfg, "db.set_api_key", Some(n), None, &f)
                }
                3 | 4 => admin_req(&cfg, "db.remove_api_key", Some(n), None, &f),
                _ => {
                    let nk = g.new_key(NAME_MISSING);
                    admin_req(&cfg, "db.create", Some(NAME_MISSING), Some(&nk), &f)
                }
            }
        };
        let first = mk(g);
        // one fault in three is of the kind "the PUT landed, the failure is reported afterwards" (the write of
        // storage_meta.cbor that follows db_meta.cbor fails); not for db.create, whose several flushes within
        // one millisecond make it uncertain which of them writes storage_meta at all
        // … and not for a server-generated key: if that PUT lands nobody (not even the harness) knows the key
        if kind != 5 && kind != 2 && g.rng.chance(1, 3) {
            out.push(Op::Fault2(0));
        } else {
            out.push(Op::Fault(k));
        }
        out.push(first.clone());
        let retried = g.rng.chance(3, 4);
        if retried {
            // identical retry (same parameters; a generated key is a fresh one by nature)
            let again = match (&first, kind) {
                (Op::Req(r), 2) => {
                    let mut r = r.clone();
                    let f = g.fresh();
                    g.keys.insert(f.clone());
                    if let Body::Rpc { fresh, .. } = &mut r.body {
                        *fresh = f;
                    }
                    Op::Req(r)
                }
                _ => first.clone(),
            };
            out.push(again);
        }
        out.push(Op::NoFault);
        if !retried && g.rng.chance(1, 2) {
            // the failure is NOT retried and the admin goes on with other management requests (each of
            // which writes the whole metadata object): the rejected change must not become durable
            for _ in 0..1 + g.rng.below(3) {
                let f = g.fresh();
                let other = *g.rng.pick(&[NAME_A, NAME_B, NAME_C]);
                let op = match g.rng.below(5) {
                    0 => admin_req(&cfg, "db.connect", Some(NAME_C), None, &f),
                    1 => admin_req(&cfg, "db.close", Some(other), None, &f),
                    2 => admin_req(&cfg, "db.remove_api_key", Some(n), None, &f),
                    3 => admin_req(&cfg, "db.remove_api_key", Some(other), None, &f),
                    _ => {
                        let nk = g.new_key(other);
                        admin_req(&cfg, "db.set_api_key", Some(other), Some(&nk), &f)
                    }
                };
                out.push(op);
            }
        }
        match (retried, g.rng.below(4)) {
            (false, 0 | 1) | (true, 0 | 1) => out.push(Op::Crash),
            (false, _) | (true, 2) => out.push(Op::Restart),
            _ => {}
        }
    }
}

/// Every Read-labelled method (both encodings), as the admin, on database A in each lifecycle state:
/// warm, cold after close/open, cold after a clean restart, database read-only, collection
/// read-only, dirty after a crash (first touch runs the recovery), closed.
fn read_sweep(cfg: &CfgLine, tables: &Tables, fresh_base: &mut u32) -> Vec<Op> {
    let mut out = Vec::new();
    let mut fresh = |fb: &mut u32| {
        *fb += 1;
        format!("$g{}", *fb)
    };
    let db_req = |method: &str, pvar: &str, ct: Enc, f: String| {
        let Op::Req(mut r) = admin_req(cfg, method, None, None, &f) else { unreachable!() };
        r.target = Target::Db { name: NAME_A.into(), pct: false };
        r.ct = Some(ct);
        if let Body::Rpc { pvar: p, .. } = &mut r.body {
            *p = pvar.into();
        }
        Op::Req(r)
    };
    let sweep = |out: &mut Vec<Op>, fb: &mut u32| {
        for (m, (_, read)) in &tables.db {
            if *read {
                for ct in [Enc::Cbor, Enc::Json] {
                    *fb += 1;
                    out.push(db_req(m, "d", ct, format!("$g{}", *fb)));
                }
            }
        }
    };
    out.push(admin_req(cfg, "db.connect", Some(NAME_A), None, &fresh(fresh_base)));
    out.push(Op::Fixture(NAME_A.into()));
    sweep(&mut out, fresh_base); // warm
    out.push(admin_req(cfg, "db.close", Some(NAME_A), None, &fresh(fresh_base)));
    out.push(admin_req(cfg, "db.open", Some(NAME_A), None, &fresh(fresh_base)));
    sweep(&mut out, fresh_base); // cold, cleanly closed
    out.push(Op::Restart);
    sweep(&mut out, fresh_base); // cold, clean restart
    out.push(db_req("db.set_read_only", "ro", Enc::Cbor, fresh(fresh_base)));
    sweep(&mut out, fresh_base); // database read-only
    out.push(db_req("db.set_read_only", "d", Enc::Cbor, fresh(fresh_base)));
    out.push(db_req("collection.set_read_only", "ro", Enc::Cbor, fresh(fresh_base)));
    sweep(&mut out, fresh_base); // collection read-only
    out.push(db_req("collection.set_read_only", "d", Enc::Cbor, fresh(fresh_base)));
    out.push(Op::Restart);
    out.push(db_req("db.set_read_only", "ro", Enc::Cbor, fresh(fresh_base)));
    sweep(&mut out, fresh_base); // cold open inside a read-only database
    out.push(db_req("db.set_read_only", "d", Enc::Cbor, fresh(fresh_base)));
    out.push(db_req("doc.add", "d", Enc::Cbor, fresh(fresh_base)));
    out.push(db_req("doc.update", "d", Enc::Json, fresh(fresh_base)));
    out.push(Op::Crash);
    sweep(&mut out, fresh_base); // dirty after a crash: the first touch of the collection recovers it
    out.push(admin_req(cfg, "db.close", Some(NAME_A), None, &fresh(fresh_base)));
    sweep(&mut out, fresh_base); // closed
    out.push(admin_req(cfg, "db.open", Some(NAME_A), None, &fresh(fresh_base)));
    out
}

/// Time of check = time of use: heads of requests arrive with a (then) valid key, their bodies are
/// withheld; complete requests in between revoke / rotate the key, close or reopen the database, bind the
/// key a rejected head carried; then the bodies arrive. Reads and writes, both encodings, per-database and
/// admin principals.
fn inflight_scenario(g: &mut Gen, out: &mut Vec<Op>) {
    let cfg = g.cfg.clone();
    for round in 0..1 + g.rng.below(3) {
        let n = *g.rng.pick(&[NAME_A, NAME_B]);
        let k0 = g.new_key(n);
        let f = g.fresh();
        out.push(admin_req(&cfg, "db.connect", Some(n), None, &f));
        if round == 0 {
            out.push(Op::Fixture(n.to_string()));
        }
        let f = g.fresh();
        out.push(admin_req(&cfg, "db.set_api_key", Some(n), Some(&k0), &f));
        let k_other = g.new_key(n);
        let mut ids = Vec::new();
        let count = 2 + g.rng.below(5);
        for j in 0..count {
            let method = *g.rng.pick(&["doc.get", "doc.add", "doc.update", "doc.count", "info", "collection.list", "db.save_extension", "doc.remove", "nope.method"]);
            let (token, target) = match g.rng.below(8) {
                0 => (cfg.admin.clone().unwrap_or_default(), Target::Db { name: n.into(), pct: false }),
                1 => (cfg.admin.clone().unwrap_or_default(), Target::Root),
                2 => (k_other.clone(), Target::Db { name: n.into(), pct: false }), // a head that is rejected
                _ => (k0.clone(), Target::Db { name: n.into(), pct: false }),
            };
            let f = g.fresh();
            let id = format!("q{round}x{j}");
            let method = if matches!(target, Target::Root) { "db.list" } else { method };
            out.push(Op::Begin(
                id.clone(),
                Req {
                    verb: "POST".into(),
                    target,
                    raw: None,
                    auth: Some(format!("Bearer {token}").into_bytes()),
                    ct: Some(if g.rng.chance(1, 2) { Enc::Cbor } else { Enc::Json }),
                    accept: None,
                    body: Body::Rpc { method: method.into(), name: None, key: None, fresh: f, pvar: "d".into() },
                },
            ));
            ids.push(id);
        }
        // what happens while the bodies are withheld
        for _ in 0..1 + g.rng.below(2) {
            let f = g.fresh();
            let op = match g.rng.below(6) {
                0 | 1 => admin_req(&cfg, "db.remove_api_key", Some(n), None, &f),
                2 => admin_req(&cfg, "db.set_api_key", Some(n), Some(&k_other), &f),
                3 => admin_req(&cfg, "db.close", Some(n), None, &f),
                4 => {
                    let nk = g.new_key(n);
                    admin_req(&cfg, "db.set_api_key", Some(n), Some(&nk), &f)
                }
                _ => admin_req(&cfg, "db.list", None, None, &f),
            };
            out.push(op);
        }
        // a fresh request with the old key, then the withheld bodies in a shuffled order
        let f = g.fresh();
        out.push(Op::Req(Req {
            verb: "POST".into(),
            target: Target::Db { name: n.into(), pct: false },
            raw: None,
            auth: Some(format!("Bearer {k0}").into_bytes()),
            ct: Some(Enc::Cbor),
            accept: None,
            body: Body::Rpc { method: "doc.get".into(), name: None, key: None, fresh: f, pvar: "d".into() },
        }));
        g.rng.shuffle(&mut ids);
        for id in ids {
            out.push(Op::Finish(id));
        }
        let f = g.fresh();
        out.push(admin_req(&cfg, "db.connect", Some(n), None, &f));
    }
}

/// Key equality must depend on the WHOLE key. `master` is a long random secret; for every power-of-two
/// length N the tenant keys `master[..N]:qa` / `master[..N]:zb` (and, in a long-admin case, the admin key
/// `master:admin`) share their first N bytes. Bound to different databases, rotated among each other, and
/// presented together with their look-alikes (the bare prefix, one more byte, another last byte, upper
/// case, a trailing / leading blank) on both databases and on the root route.
fn key_family_scenario(g: &mut Gen, master: &str, out: &mut Vec<Op>) -> Vec<String> {
    let cfg = g.cfg.clone();
    let mut last = Vec::new();
    for n in [NAME_A, NAME_B] {
        let f = g.fresh();
        out.push(admin_req(&cfg, "db.connect", Some(n), None, &f));
    }
    for len in [16usize, 32, 64, 128, 256, 512] {
        let p = &master[..len];
        let (ka, kb, ka2) = (format!("{p}:qa"), format!("{p}:zb"), format!("{p}:qa2"));
        let family = vec![
            ka.clone(),
            kb.clone(),
            ka2.clone(),
            p.to_string(),
            format!("{ka}x"),
            format!("{p}:qb"),
            ka.to_uppercase(),
            format!("{ka} "),
            format!(" {ka}"),
            format!("{p}:admin"),
        ];
        let sweep = |g: &mut Gen, out: &mut Vec<Op>| {
            for (i, k) in family.iter().enumerate() {
                for (j, target) in [Target::Db { name: NAME_A.into(), pct: false }, Target::Db { name: NAME_B.into(), pct: false }, Target::Root].into_iter().enumerate() {
                    let f = g.fresh();
                    out.push(Op::Req(Req {
                        verb: "POST".into(),
                        target,
                        raw: None,
                        auth: Some(format!("Bearer {k}").into_bytes()),
                        ct: Some(if (i + j) % 2 == 0 { Enc::Cbor } else { Enc::Json }),
                        accept: None,
                        body: Body::Rpc { method: "info".into(), name: None, key: None, fresh: f, pvar: "d".into() },
                    }));
                }
            }
        };
        let f = g.fresh();
        out.push(admin_req(&cfg, "db.set_api_key", Some(NAME_A), Some(&ka), &f));
        let f = g.fresh();
        out.push(admin_req(&cfg, "db.set_api_key", Some(NAME_B), Some(&kb), &f));
        sweep(g, out);
        // rotate A to a key that shares the whole old key as a prefix: the old one must stop working
        let f = g.fresh();
        out.push(admin_req(&cfg, "db.set_api_key", Some(NAME_A), Some(&ka2), &f));
        sweep(g, out);
        if g.rng.chance(1, 4) {
            out.push(if g.rng.chance(1, 2) { Op::Crash } else { Op::Restart });
            sweep(g, out);
        }
        last = vec![ka, kb, ka2];
    }
    last
}

fn gen_case(rng: &mut Rng, tables: &Tables, thorough: bool) -> Vec<String> {
    // a long random deployment secret (hex): tenant keys and, in one case out of four, the admin key derive from it
    let master: String = (0..600).map(|_| char::from_digit(rng.below(16) as u32, 16).unwrap()).collect();
    let long_admin = rng.chance(1, 4);
    let cfg = CfgLine {
        admin: if long_admin { Some(format!("{master}:admin")) } else if rng.chance(7, 8) { Some(ADMIN_KEY.to_string()) } else { None },
        primary: PRIMARY.to_string(),
        max: *rng.pick(&[64usize, 64, 64, 64, 3, 2, 1]),
    };
    let mut g = Gen { rng, cfg: cfg.clone(), fresh_n: 0, key_n: BTreeMap::new(), keys: BTreeSet::new() };
    let mut ops = vec![Op::Cfg(cfg.clone())];
    if g.rng.chance(3, 4) {
        // the standard two-tenant prelude, so that most matrices run against bound, populated databases
        for n in [NAME_A, NAME_B] {
            let k = g.new_key(n);
            let f = g.fresh();
            ops.push(admin_req(&cfg, "db.create", Some(n), Some(&k), &f));
            ops.push(Op::Fixture(n.to_string()));
        }
    }
    let len = g.rng.below(if thorough { 24 } else { 12 });
    for _ in 0..len {
        g.history_op(&mut ops);
    }
    if g.cfg.admin.is_some() && g.rng.chance(1, 2) {
        fault_scenarios(&mut g, &mut ops);
    }
    if g.cfg.admin.is_some() && g.rng.chance(1, 2) {
        inflight_scenario(&mut g, &mut ops);
    }
    if g.cfg.admin.is_some() && (long_admin || g.rng.chance(1, 3)) {
        for k in key_family_scenario(&mut g, &master, &mut ops) {
            g.keys.insert(k);
        }
    }
    let keys = g.keys.clone();
    let mut fb = 500;
    if g.rng.chance(1, 2) {
        ops.extend(read_sweep(&cfg, tables, &mut fb));
    }
    let mut fb = 1000;
    let full = thorough && g.rng.chance(1, 4);
    let mut m = matrix(g.rng, &cfg, &keys, tables, &mut fb, full);
    if long_admin {
        // every line of this case carries a 600-byte key: a sixth of the matrix (cells stay CBOR/JSON twins)
        let mut kept = Vec::with_capacity(m.len() / 5);
        for pair in m.chunks(2) {
            if g.rng.chance(1, 6) {
                kept.extend_from_slice(pair);
            }
        }
        m = kept;
    }
    ops.extend(m);
    ops.iter().map(|o| o.to_line()).collect()
}

// ---------------------------------------------------------------------------------------------
// running one case
// ---------------------------------------------------------------------------------------------

#[derive(Default)]
pub struct CaseResult {
    /// canonical strings of the non-trivial evaluations only (the trivial ones are just counted:
    /// a thorough run evaluates tens of millions of requests)
    pub nontrivial: Vec<String>,
    pub trivial: u64,
    pub hits: BTreeMap<String, u64>,
    pub model_compared: u64,
    /// (what, index of the op, model, impl)
    pub disagreements: Vec<(String, usize, String, String)>,
    /// (key, what, index of the op, expected, observed)
    pub oracle_failures: Vec<(String, String, usize, String, String)>,
    pub panicked: Option<String>,
    /// (sum of ns, count) of rejected `POST /{db}` requests that presented a token, by whether the
    /// addressed database carries a binding (timing is measured, never proved)
    pub reject_ns: [(u128, u64); 2],
    /// "scope:method:label" -> (requests past authorisation, of which with storage writes, total writes, answered 200)
    pub method_writes: BTreeMap<String, (u64, u64, u64, u64)>,
}

impl CaseResult {
    fn hit(&mut self, k: &str) {
        *self.hits.entry(k.to_string()).or_insert(0) += 1;
    }
}

fn strip_note(s: &str) -> &str {
    s.split(" # ").next().unwrap_or(s).trim()
}

/// Runs `lines` on the implementation (and on the model when a driver is given).
pub fn run_case(lines: &[String], driver: Option<&std::path::Path>, tables: &Tables, stop_at_first: bool) -> CaseResult {
    let mut res = CaseResult::default();
    let mut model = driver.map(|p| ModelProc::spawn(p).expect("start model driver"));
    let mut world: Option<wire::World> = None;
    let mut orc = oracle::Oracle::new(tables.clone());
    let mut prev: Option<(Req, wire::ImplResp, String)> = None;
    let mut wire401_done = [false; 2];
    let mut begun: BTreeMap<String, (Req, Option<bool>)> = BTreeMap::new();
    for (i, line) in lines.iter().enumerate() {
        let Some(op) = Op::parse(line) else {
            res.disagreements.push(("unparsable op line".into(), i, String::new(), line.clone()));
            break;
        };
        let failures_before = res.disagreements.len() + res.oracle_failures.len();
        match &op {
            Op::Cfg(c) => {
                world = Some(wire::World::new(c.clone()));
                orc.reset(c.clone());
                if let Some(m) = model.as_mut() {
                    let out = m.ask(line);
                    if out != "ok" {
                        res.disagreements.push(("cfg rejected by the model".into(), i, out, "ok".into()));
                    }
                }
                res.hit("op:cfg");
            }
            Op::Fixture(n) => {
                if let Some(w) = world.as_mut() {
                    let ok = w.install_fixture(n);
                    res.hit(if ok { "op:fixture" } else { "op:fixture-skipped" });
                }
            }
            Op::NoFault => {
                if let Some(w) = world.as_mut() {
                    w.disarm_fault();
                    if let Some(m) = model.as_mut() {
                        m.ask(line);
                    }
                }
            }
            Op::Fault(k) | Op::Fault2(k) => {
                if let Some(w) = world.as_mut() {
                    if matches!(op, Op::Fault2(_)) { w.arm_fault2(*k) } else { w.arm_fault(*k) }
                    res.hit("op:fault");
                    if let Some(m) = model.as_mut() {
                        let out = m.ask(line);
                        if out != "ok" {
                            res.disagreements.push(("fault op rejected by the model".into(), i, out, "ok".into()));
                        }
                    }
                }
            }
            Op::Restart | Op::Crash => {
                let Some(w) = world.as_mut() else { continue };
                let crash = matches!(op, Op::Crash);
                begun.clear();
                let dbs = if crash { w.crash() } else { w.restart() };
                if crash {
                    orc.on_crash();
                }
                res.hit(if crash { "op:crash" } else { "op:restart" });
                let imp = format!("ok dbs={}", show_names(&dbs));
                if let Some(m) = model.as_mut() {
                    let out = m.ask(line);
                    res.model_compared += 1;
                    if out != imp {
                        res.disagreements.push(("restart/crash: open databases differ".into(), i, out, imp.clone()));
                    }
                }
                res.nontrivial.push(format!("{}|restart|{imp}", orc.fingerprint()));
            }
            Op::Begin(id, r) => {
                let Some(w) = world.as_mut() else { continue };
                let allowed_at_begin = orc.allowed(r, w);
                w.begin(id, r);
                begun.insert(id.clone(), (r.clone(), allowed_at_begin));
                res.hit("op:begin");
                if let Some(m) = model.as_mut() {
                    let out = m.ask(line);
                    if out != "ok" {
                        res.disagreements.push(("begin rejected by the model".into(), i, out, "ok".into()));
                    }
                }
            }
            Op::Req(_) | Op::Finish(_) => {
                let Some(w) = world.as_mut() else { continue };
                let t0 = std::time::Instant::now();
                // a complete request, or the delivery of a withheld body: either way the answer is judged
                // against the state of the service NOW
                let mut head_rejected = false;
                let (r_owned, resp) = match &op {
                    Op::Req(r) => (r.clone(), w.exec(r)),
                    Op::Finish(id) => {
                        let Some((r, allowed_at_begin)) = begun.remove(id) else { continue };
                        head_rejected = allowed_at_begin == Some(false);
                        let Some(resp) = w.finish(id) else { continue };
                        res.hit("op:finish");
                        res.hit(&format!("finish:status:{}", resp.status));
                        (r, resp)
                    }
                    _ => unreachable!(),
                };
                let r = &r_owned;
                let dt = t0.elapsed().as_nanos();
                if resp.status == 401
                    && r.auth.is_some()
                    && let Target::Db { name, .. } = &r.target
                {
                    let k = orc.has_binding(name) as usize;
                    res.reject_ns[k].0 += dt;
                    res.reject_ns[k].1 += 1;
                }
                let canon = wire::canon_impl(r, &resp);
                res.hit(&format!("status:{}", resp.status));
                res.hit(&format!("route:{}", r.route_class()));
                if let Body::Rpc { method, .. } = &r.body {
                    if tables.root.contains_key(method) || tables.db.contains_key(method) {
                        res.hit(&format!("method:{method}"));
                    } else {
                        res.hit("method:<unknown>");
                    }
                }
                let fp = orc.fingerprint();
                // --- oracle ---
                let before = res.oracle_failures.len();
                // a withheld body: the answer must be the one a FRESH request gets now (revoked in between = the
                // uniform 401, nothing touched) - unless the head itself had been rejected, which is final
                let verdicts = if head_rejected { orc.check_rejected_head(&resp) } else { orc.check(r, &resp, w) };
                for (key, what, expected, observed) in verdicts {
                    res.oracle_failures.push((key, what, i, expected, observed));
                }
                // encoding independence for the CBOR/JSON twin of a cell
                if let Some((pr, presp, pcanon)) = &prev
                    && pr.twin_of(r)
                    && (resp.status == 401 || presp.status == 401 || orc.is_read(r))
                {
                    let a = pcanon.splitn(2, ' ').nth(1).unwrap_or("");
                    let b = canon.splitn(2, ' ').nth(1).unwrap_or("");
                    // error *messages* of parameter decoding legitimately differ between the two
                    // decoders; status, code and class must not, and successful results must be equal
                    let same_value = resp.status >= 400 && resp.status != 401 || wire::decoded(presp) == wire::decoded(&resp);
                    if a != b || !same_value {
                        res.oracle_failures.push((
                            "encoding:differs".into(),
                            "the CBOR and the JSON form of the same request are answered differently".into(),
                            i,
                            format!("{a} {:?}", wire::decoded(presp)),
                            format!("{b} {:?}", wire::decoded(&resp)),
                        ));
                    }
                }
                orc.observe(r, &resp, w);
                let nontrivial = resp.status != 401 && matches!(r.target, Target::Root | Target::Db { .. }) && r.verb == "POST" && resp.status < 400;
                if nontrivial {
                    res.nontrivial.push(format!("{fp}|{line}|{canon}"));
                } else {
                    res.trivial += 1;
                }
                if res.oracle_failures.len() > before {
                    res.hit("oracle:failed");
                }
                // --- correspondence ---
                let trace = std::env::var_os("VH_C14_TRACE").is_some();
                if trace {
                    eprintln!("{line}\n      impl : {canon}   [writes {} reads {}]", resp.writes.len(), resp.reads.len());
                }
                if let Some(m) = model.as_mut() {
                    let out = m.ask(line);
                    if trace {
                        eprintln!("      model: {out}");
                    }
                    res.model_compared += 1;
                    let mo = strip_note(&out);
                    if let Some(why) = wire::compare(mo, &canon, r, &resp) {
                        res.disagreements.push((why, i, out.clone(), canon.clone()));
                    }
                    // ---- which branch of the model answered (coverage of the model under the run)
                    let mw: Vec<&str> = mo.split(' ').collect();
                    let class = if mw.get(1) == Some(&"dispatch") {
                        format!("model:dispatch:{}:{}:{}", mw.get(3).unwrap_or(&"?"), mw.get(5).unwrap_or(&"?"), mw.get(6).unwrap_or(&"?"))
                    } else {
                        let detail = mw.get(3).map(|d| d.split(':').next().unwrap_or("")).unwrap_or("");
                        let detail = if mw.get(2) == Some(&"ok") { mw.get(3).copied().unwrap_or("") } else { detail };
                        format!("model:{}:{}:{}", mw.get(1).unwrap_or(&"?"), mw.get(2).unwrap_or(&"?"), detail)
                    };
                    res.hit(&class);
                    res.hit(&format!("model:as:{}", out.rsplit("as=").next().unwrap_or("?")));
                    // ---- storage addressing on the database route: the model names the one database a
                    // handler was reached for (`touchedDb`); every backend access of the request must lie
                    // under that prefix, and a request that reached no handler must not touch storage.
                    if r.verb == "POST" && matches!(r.target, Target::Db { .. } | Target::BadUtf8(_) | Target::Unrouted(_)) {
                        let touched: Option<String> = if mw.get(1) == Some(&"dispatch") { mw.get(2).and_then(|t| dec_str(t)) } else { None };
                        let bad = match &touched {
                            Some(n) => resp.writes.iter().chain(resp.reads.iter()).find(|a| !a.path.starts_with(&format!("{n}/"))).map(|a| format!("{} {}", a.op, a.path)),
                            None => resp.writes.iter().chain(resp.reads.iter()).next().map(|a| format!("{} {}", a.op, a.path)),
                        };
                        if let Some(b) = bad {
                            res.disagreements.push((
                                "storage addressing differs from the model's touchedDb".into(),
                                i,
                                format!("{out} => may touch only {:?}", touched.map(|n| format!("{n}/"))),
                                format!("{canon} touched {b}"),
                            ));
                        }
                    }
                    // ---- the rejection on the wire: status, complete header set, body bytes
                    if resp.status == 401
                        && let Some(e) = wire::resp_enc(&resp)
                        && !wire401_done[e as usize]
                    {
                        wire401_done[e as usize] = true;
                        let want = m.ask(&format!("wire401 {}", if e == Enc::Cbor { "cbor" } else { "json" }));
                        let hs: Vec<String> = resp.headers.iter().map(|(k, v)| format!("{k}={v}")).collect();
                        let got = format!("{} {} {}", resp.status, hs.join(";"), vh_common::hex(&resp.body));
                        res.hit("model:wire401-compared");
                        if want != got {
                            res.disagreements.push(("the rejection on the wire differs from the model's rejectionWire".into(), i, want, got));
                        }
                    }
                }
                // ---- measured: storage writes per method, for every request that got past authorisation
                if r.verb == "POST"
                    && resp.status != 401
                    && let Some(m) = r.method()
                    && let Some(scope) = match &r.target {
                        Target::Root => Some("root"),
                        Target::Db { .. } => Some("db"),
                        _ => None,
                    }
                {
                    let known = if scope == "root" { tables.root.get(m) } else { tables.db.get(m) };
                    let label = match known {
                        Some((_, true)) => "R",
                        Some((_, false)) => "M",
                        None => "-",
                    };
                    let e = res.method_writes.entry(format!("{scope}:{}:{label}", if known.is_some() { m } else { "<unknown>" })).or_insert((0, 0, 0, 0));
                    e.0 += 1;
                    e.1 += (!resp.writes.is_empty()) as u64;
                    e.2 += resp.writes.len() as u64;
                    e.3 += (resp.status == 200) as u64;
                }
                prev = Some((r.clone(), resp, canon));
            }
        }
        if stop_at_first && res.disagreements.len() + res.oracle_failures.len() > failures_before {
            break;
        }
        if res.disagreements.len() + res.oracle_failures.len() > 40 {
            break;
        }
    }
    res
}

fn run_case_caught(lines: &[String], driver: Option<&std::path::Path>, tables: &Tables, stop: bool) -> CaseResult {
    let l = lines.to_vec();
    let d = driver.map(|p| p.to_path_buf());
    let t = tables.clone();
    match std::panic::catch_unwind(move || run_case(&l, d.as_deref(), &t, stop)) {
        Ok(r) => r,
        Err(e) => {
            let msg = e.downcast_ref::<String>().cloned().or_else(|| e.downcast_ref::<&str>().map(|s| s.to_string())).unwrap_or_else(|| "panic".into());
            CaseResult { panicked: Some(msg), ..Default::default() }
        }
    }
}

/// Shrinks a failing case: keeps `cfg`, cuts after the failing op, then delta-debugs the middle.
fn shrink_failure(lines: &[String], idx: usize, same: impl Fn(&CaseResult) -> bool, driver: Option<&std::path::Path>, tables: &Tables) -> Vec<String> {
    let head = lines[0].clone();
    let last = lines[idx].clone();
    // the matrix cells before the failing one are almost always irrelevant: try without them first
    let hist_end = lines.iter().position(|l| l.contains("$g1001")).unwrap_or(idx).min(idx);
    let mut mid: Vec<String> = lines[1..hist_end.max(1)].to_vec();
    let build = |mid: &[String]| {
        let mut v = vec![head.clone()];
        v.extend_from_slice(mid);
        v.push(last.clone());
        v
    };
    if !same(&run_case_caught(&build(&mid), driver, tables, false)) {
        mid = lines[1..idx].to_vec();
    }
    let mid = vh_common::shrink(mid, |cand| same(&run_case_caught(&build(cand), driver, tables, false)), 120);
    build(&mid)
}

fn main() {
    let args = Args::parse();
    let tables = read_tables();
    let mut report = Report::new(
        "C14",
        &args,
        "an evaluation is one HTTP request sent through build_router; it is non-trivial when it is a POST to an RPC route that was \
         authorised and answered 2xx/3xx (a handler ran or server state changed); distinct = distinct (bindings/open set, request line, canonical response)",
    );
    report.max_samples = 8;
    // label drift against the frozen lists (the Lean obligation `read_methods_frozen` is the gate;
    // this only makes the drift visible in the evidence)
    for (scope, table, frozen) in [("root", &tables.root, FROZEN_READ_ROOT), ("db", &tables.db, FROZEN_READ_DB)] {
        for (name, (_, read)) in table {
            if *read != frozen.contains(&name.as_str()) {
                report.notes.push(format!("label of {scope} method {name} differs from the frozen list (now {})", if *read { "Read" } else { "Mutating" }));
            }
        }
    }
    let driver = args.driver.clone();
    if let Some(d) = &driver {
        // the driver must have been built from the same generated tables
        let mut m = ModelProc::spawn(d).expect("start model driver");
        let t = m.ask("tables");
        for (scope, table) in [("root", &tables.root), ("db", &tables.db)] {
            for (name, (variant, read)) in table {
                let needle = format!("{name}={}:{variant}", if *read { "R" } else { "M" });
                if !t.contains(&needle) {
                    report.disagreement("driver tables differ from Gen/ServerMethods.lean", &["tables".to_string()], &t, &format!("{scope}: {needle}"));
                }
            }
        }
    }

    let mut cases: Vec<(String, Vec<String>)> = Vec::new();
    if let Some(p) = &args.replay {
        cases.push(("replay".into(), vh_common::read_replay(p)));
    } else {
        if let Some(c) = &args.corpus {
            for (name, lines) in vh_common::read_corpus(c) {
                cases.push((format!("corpus:{name}"), lines));
            }
        }
        let n = args.extra.get("cases").and_then(|c| c.parse().ok()).unwrap_or_else(|| args.budget(64, 500));
        for i in 0..n {
            let mut rng = Rng::for_case(args.seed, i);
            cases.push((format!("gen:{i}"), gen_case(&mut rng, &tables, args.thorough() || args.focus.is_some())));
        }
    }

    // evaluate in parallel, merge in order
    let threads = std::thread::available_parallelism().map(|n| n.get()).unwrap_or(4).min(16).min(cases.len().max(1));
    let next = std::sync::atomic::AtomicUsize::new(0);
    let results: std::sync::Mutex<BTreeMap<usize, CaseResult>> = std::sync::Mutex::new(BTreeMap::new());
    std::thread::scope(|s| {
        for _ in 0..threads {
            s.spawn(|| {
                loop {
                    let i = next.fetch_add(1, std::sync::atomic::Ordering::SeqCst);
                    if i >= cases.len() {
                        break;
                    }
                    let r = run_case_caught(&cases[i].1, driver.as_deref(), &tables, false);
                    results.lock().unwrap().insert(i, r);
                }
            });
        }
    });
    let results = results.into_inner().unwrap();
    let mut shrunk_keys: BTreeSet<String> = BTreeSet::new();
    let mut reject_ns = [(0u128, 0u64); 2];
    let mut method_writes: BTreeMap<String, (u64, u64, u64, u64)> = BTreeMap::new();
    for (i, r) in &results {
        let (name, lines) = &cases[*i];
        for canon in &r.nontrivial {
            report.case(canon, true);
        }
        for _ in 0..r.trivial {
            report.case("", false);
        }
        for (k, v) in &r.hits {
            report.hit_n(k, *v);
        }
        report.model_compared += r.model_compared;
        for (k, v) in &r.method_writes {
            let e = method_writes.entry(k.clone()).or_insert((0, 0, 0, 0));
            e.0 += v.0;
            e.1 += v.1;
            e.2 += v.2;
            e.3 += v.3;
        }
        for k in 0..2 {
            reject_ns[k].0 += r.reject_ns[k].0;
            reject_ns[k].1 += r.reject_ns[k].1;
        }
        if let Some(p) = &r.panicked {
            report.oracle_failure("panic", &format!("the harness or the code under test panicked in {name}: {p}"), lines, "no panic", p);
        }
        if report.samples.len() < report.max_samples && lines.len() > 3 {
            let k = (lines.len() / 3).min(lines.len() - 1);
            report.sample(json!({"case": name, "ops": lines.len(), "first": &lines[..lines.len().min(4)], "some_cell": &lines[k]}));
        }
        for (what, idx, mo, im) in &r.disagreements {
            let key = format!("dis:{what}");
            if !shrunk_keys.insert(key.clone()) {
                report.hit("disagreements_same_kind_not_shrunk");
                continue;
            }
            let w = what.clone();
            let small = shrink_failure(lines, *idx, |cr| cr.disagreements.iter().any(|d| d.0 == w), driver.as_deref(), &tables);
            report.disagreement(&format!("{what} ({name}, op {idx})"), &small, mo, im);
        }
        for (key, what, idx, exp, obs) in &r.oracle_failures {
            if !shrunk_keys.insert(format!("orc:{key}")) {
                report.hit(&format!("oracle_failures_same_key_not_shrunk:{key}"));
                continue;
            }
            let k = key.clone();
            let small = shrink_failure(lines, *idx, |cr| cr.oracle_failures.iter().any(|f| f.0 == k), None, &tables);
            report.oracle_failure(key, &format!("{what} ({name}, op {idx})"), &small, exp, obs);
        }
    }
    for (k, label) in [(0, "mean_ns_401_database_without_binding"), (1, "mean_ns_401_database_with_binding")] {
        if reject_ns[k].1 > 0 {
            report.measured.insert(label.into(), json!({"mean_ns": (reject_ns[k].0 / reject_ns[k].1 as u128) as u64, "n": reject_ns[k].1,
                "note": "in-process wall time incl. harness overhead; timing equalisation is only measured, not modelled or proved"}));
        }
    }
    // measured store-write counter per method (label R/M from the regenerated table): Read-labelled
    // rows must show 0 writes except the known cold-recovery shape, which the oracle keys separately
    let table: BTreeMap<String, vh_common::serde_json::Value> = method_writes
        .iter()
        .map(|(k, v)| (k.clone(), json!({"requests_past_auth": v.0, "answered_200": v.3, "requests_with_writes": v.1, "backend_mutations": v.2})))
        .collect();
    report.measured.insert("store_writes_per_method".into(), json!(table));
    for (k, v) in &method_writes {
        if k.ends_with(":R") {
            report.hit_n(&format!("read-labelled-requests-measured:{k}"), v.0);
        }
    }
    report.exhaustive = false;
    report.notes.push(format!(
        "per case: a generated key/database-management history, then the complete matrix \
         (methods {} x db-route targets 10 x principals >= 12 x encodings 2, plus the root route per addressed name); {} cases",
        tables.root.len() + tables.db.len() + 4,
        cases.len()
    ));
    report.write(&args);
}
