//! Harness for property C14 (stub: not built yet).
fn main() {
    let a = vh_common::Args::parse();
    let r = vh_common::Report::new("C14", &a, "stub");
    r.write(&a);
}
