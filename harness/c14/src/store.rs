//! `RecordingStore`: an `ObjectStore` wrapper over `InMemory` that logs every backend access
//! (mutations and reads separately) so that one request's storage footprint can be inspected.

use async_trait::async_trait;
use futures::StreamExt;
use futures::stream::BoxStream;
use object_store::{
    CopyOptions, GetOptions, GetResult, ListResult, MultipartUpload, ObjectMeta, ObjectStore, PutMultipartOptions, PutOptions, PutPayload,
    PutResult, Result as OsResult, memory::InMemory, path::Path,
};
use std::fmt;
use std::sync::{Arc, Mutex};

#[derive(Clone, Debug, PartialEq, Eq)]
pub struct Access {
    pub op: &'static str,
    pub path: String,
}

#[derive(Debug, Default)]
pub struct Log {
    pub writes: Mutex<Vec<Access>>,
    pub reads: Mutex<Vec<Access>>,
}

impl Log {
    fn w(&self, op: &'static str, path: &Path) {
        self.writes.lock().unwrap().push(Access { op, path: path.to_string() });
    }
    fn r(&self, op: &'static str, path: String) {
        self.reads.lock().unwrap().push(Access { op, path });
    }
    pub fn take(&self) -> (Vec<Access>, Vec<Access>) {
        (std::mem::take(&mut *self.writes.lock().unwrap()), std::mem::take(&mut *self.reads.lock().unwrap()))
    }
}

#[derive(Debug)]
pub struct RecordingStore {
    inner: Arc<InMemory>,
    pub log: Arc<Log>,
    /// armed single-shot fault: (exact path, how many more puts of it succeed first)
    pub fault: Arc<Mutex<Option<(String, usize)>>>,
}

impl RecordingStore {
    pub fn new() -> Self {
        RecordingStore { inner: Arc::new(InMemory::new()), log: Arc::new(Log::default()), fault: Arc::new(Mutex::new(None)) }
    }
}

impl RecordingStore {
    /// A new store holding a copy of everything durable right now (what a new process would find
    /// after this one died), with its own log.
    pub fn fork(&self) -> Self {
        RecordingStore { inner: Arc::new(self.inner.fork()), log: Arc::new(Log::default()), fault: Arc::new(Mutex::new(None)) }
    }
}

impl fmt::Display for RecordingStore {
    fn fmt(&self, f: &mut fmt::Formatter<'_>) -> fmt::Result {
        f.write_str("RecordingStore")
    }
}

#[async_trait]
impl ObjectStore for RecordingStore {
    async fn put_opts(&self, location: &Path, payload: PutPayload, opts: PutOptions) -> OsResult<PutResult> {
        self.log.w("put", location);
        {
            let mut f = self.fault.lock().unwrap();
            if let Some((path, left)) = f.as_mut()
                && *path == location.to_string()
            {
                if *left == 0 {
                    *f = None;
                    return Err(object_store::Error::Generic { store: "c14-fault", source: "injected single-shot put failure".into() });
                }
                *left -= 1;
            }
        }
        self.inner.put_opts(location, payload, opts).await
    }

    async fn put_multipart_opts(&self, location: &Path, opts: PutMultipartOptions) -> OsResult<Box<dyn MultipartUpload>> {
        self.log.w("put_multipart", location);
        self.inner.put_multipart_opts(location, opts).await
    }

    async fn get_opts(&self, location: &Path, options: GetOptions) -> OsResult<GetResult> {
        self.log.r("get", location.to_string());
        self.inner.get_opts(location, options).await
    }

    fn delete_stream(&self, locations: BoxStream<'static, OsResult<Path>>) -> BoxStream<'static, OsResult<Path>> {
        let log = self.log.clone();
        let locations = locations
            .inspect(move |r| {
                if let Ok(p) = r {
                    log.w("delete", p);
                }
            })
            .boxed();
        self.inner.delete_stream(locations)
    }

    fn list(&self, prefix: Option<&Path>) -> BoxStream<'static, OsResult<ObjectMeta>> {
        self.log.r("list", prefix.map(|p| p.to_string()).unwrap_or_default());
        self.inner.list(prefix)
    }

    fn list_with_offset(&self, prefix: Option<&Path>, offset: &Path) -> BoxStream<'static, OsResult<ObjectMeta>> {
        self.log.r("list", prefix.map(|p| p.to_string()).unwrap_or_default());
        self.inner.list_with_offset(prefix, offset)
    }

    async fn list_with_delimiter(&self, prefix: Option<&Path>) -> OsResult<ListResult> {
        self.log.r("list", prefix.map(|p| p.to_string()).unwrap_or_default());
        self.inner.list_with_delimiter(prefix).await
    }

    async fn copy_opts(&self, from: &Path, to: &Path, options: CopyOptions) -> OsResult<()> {
        self.log.r("copy_from", from.to_string());
        self.log.w("copy", to);
        self.inner.copy_opts(from, to, options).await
    }
}
