//! The property oracle. Independent of the Lean model: it keeps its own record of the bindings
//! (learned from the *observed* successful management responses), its own reading of the
//! `Authorization` header, and judges every response and its storage footprint directly against the
//! property statement.

use crate::Tables;
use crate::ops::*;
use crate::wire::{ImplResp, World, decoded, resp_enc};
use std::collections::{BTreeMap, BTreeSet};
use vh_common::serde_json::Value;

pub struct Oracle {
    tables: Tables,
    cfg: CfgLine,
    /// database name -> the key currently bound (real key values, not placeholders)
    bound: BTreeMap<String, String>,
    /// every database name / key value that appeared in the case so far
    names: BTreeSet<String>,
    keys: BTreeSet<String>,
    /// after a crash: databases whose collection `c1` has not been opened by any request yet
    /// (`None` = no crash so far, `Some(set of databases already opened since)`)
    reopened_since_crash: Option<BTreeSet<String>>,
    /// databases whose binding is *undetermined* after a key-management request answered 5xx (not
    /// acknowledged: the change may or may not have been applied, in memory or durably): the values
    /// it may have. Cleared by the next acknowledged (200) key-management answer for that database.
    maybe: BTreeMap<String, BTreeSet<Option<String>>>,
    /// keys requested by `db.set_api_key` / `db.create` requests that were answered 5xx, per database
    failed_sets: BTreeMap<String, BTreeSet<String>>,
}

/// `validate_field_name`, and long enough for a substring match to mean something
fn could_be_db(n: &str) -> bool {
    n.len() >= 4 && n.len() <= 64 && n.bytes().all(|b| b.is_ascii_lowercase() || b.is_ascii_digit() || b == b'_')
}

/// methods whose default parameters address collection `c1` (their handler opens it)
fn opens_c1(method: &str) -> bool {
    (method.starts_with("doc.") || method.starts_with("collection.")) && !matches!(method, "collection.list" | "collection.create" | "collection.ensure" | "collection.delete")
}

const UNAUTHORIZED_JSON: &[u8] = br#"{"error":{"code":"unauthorized","message":"invalid or missing API key"}}"#;

fn unauthorized_cbor() -> Vec<u8> {
    // {"error": {"code": "unauthorized", "message": "invalid or missing API key"}} in definite-length CBOR
    let mut v = vec![0xa1, 0x65];
    v.extend_from_slice(b"error");
    v.extend_from_slice(&[0xa2, 0x64]);
    v.extend_from_slice(b"code");
    v.push(0x6c);
    v.extend_from_slice(b"unauthorized");
    v.push(0x67);
    v.extend_from_slice(b"message");
    v.extend_from_slice(&[0x78, 26]);
    v.extend_from_slice(b"invalid or missing API key");
    v
}

/// `Authorization: Bearer <key>` read independently of the implementation and of the model.
fn bearer(auth: &Option<Vec<u8>>) -> Option<String> {
    let a = auth.as_ref()?;
    if !a.iter().all(|&b| (32..127).contains(&b) || b == b'\t') {
        return None;
    }
    std::str::from_utf8(a).ok()?.strip_prefix("Bearer ").map(String::from)
}

fn contains(hay: &[u8], needle: &[u8]) -> bool {
    !needle.is_empty() && hay.windows(needle.len()).any(|w| w == needle)
}

impl Oracle {
    pub fn new(tables: Tables) -> Oracle {
        Oracle {
            tables,
            cfg: CfgLine { admin: None, primary: String::new(), max: 0 },
            bound: BTreeMap::new(),
            names: BTreeSet::new(),
            keys: BTreeSet::new(),
            reopened_since_crash: None,
            maybe: BTreeMap::new(),
            failed_sets: BTreeMap::new(),
        }
    }

    pub fn has_binding(&self, name: &str) -> bool {
        self.bound.contains_key(name)
    }

    pub fn on_crash(&mut self) {
        self.reopened_since_crash = Some(BTreeSet::new());
    }

    pub fn reset(&mut self, cfg: CfgLine) {
        self.names = [cfg.primary.clone()].into_iter().collect();
        self.keys = cfg.admin.iter().cloned().collect();
        self.cfg = cfg;
        self.bound.clear();
        self.maybe.clear();
        self.failed_sets.clear();
        self.reopened_since_crash = None;
    }

    pub fn on_restart(&mut self) {}

    pub fn fingerprint(&self) -> String {
        let b: Vec<String> = self.bound.iter().map(|(n, k)| format!("{n}={}", if k.len() > 24 { "<generated>" } else { k })).collect();
        format!("admin={} bound=[{}]", self.cfg.admin.is_some(), b.join(","))
    }

    fn real_token(&self, r: &Req, w: &World) -> Option<String> {
        let mut t = bearer(&r.auth)?;
        // placeholders of server-generated keys
        let mut gens: Vec<(&String, &String)> = w.generated.iter().collect();
        gens.sort_by_key(|(k, _)| std::cmp::Reverse(k.len()));
        for (k, v) in gens {
            if t == **k {
                t = v.clone();
            }
        }
        Some(t)
    }

    /// Is the method labelled `Read` by the source for the route this request addresses?
    pub fn is_read(&self, r: &Req) -> bool {
        let Some(m) = r.method() else { return false };
        match &r.target {
            Target::Root => self.tables.root.get(m).is_some_and(|x| x.1),
            Target::Db { .. } => self.tables.db.get(m).is_some_and(|x| x.1),
            _ => false,
        }
    }

    /// (key, what, expected, observed) for every way this response contradicts the property.
    /// Would the head of this request pass the authorisation right now? (`None`: undetermined.)
    pub fn allowed(&self, r: &Req, w: &World) -> Option<bool> {
        if r.verb != "POST" || !matches!(r.target, Target::Root | Target::Db { .. }) {
            return Some(true);
        }
        let token = self.real_token(r, w);
        let admin_ok = match &self.cfg.admin {
            None => true,
            Some(a) => token.as_deref() == Some(a.as_str()),
        };
        if admin_ok {
            return Some(true);
        }
        if let Target::Db { name, .. } = &r.target {
            if let Some(vals) = self.maybe.get(name)
                && (vals.contains(&token) || self.bound.get(name) == token.as_ref())
            {
                return None;
            }
            return Some(token.is_some() && self.bound.get(name) == token.as_ref());
        }
        Some(false)
    }

    /// A request whose head was rejected (the route layer answered before any body) stays rejected.
    pub fn check_rejected_head(&self, resp: &ImplResp) -> Vec<(String, String, String, String)> {
        let mut out = Vec::new();
        if resp.status != 401 || !resp.writes.is_empty() || !resp.reads.is_empty() {
            out.push((
                "inflight:rejected-head-served".to_string(),
                "a request whose head carried no valid key was served after its body arrived".to_string(),
                "401 and no storage access".to_string(),
                format!("status {} writes {} reads {}", resp.status, resp.writes.len(), resp.reads.len()),
            ));
        }
        out
    }

    pub fn check(&self, r: &Req, resp: &ImplResp, w: &World) -> Vec<(String, String, String, String)> {
        let mut out = Vec::new();
        let mut fail = |key: &str, what: &str, exp: String, obs: String| out.push((key.to_string(), what.to_string(), exp, obs));
        let footprint = |resp: &ImplResp| {
            let w: Vec<String> = resp.writes.iter().take(6).map(|a| format!("{} {}", a.op, a.path)).collect();
            let r: Vec<String> = resp.reads.iter().take(4).map(|a| format!("{} {}", a.op, a.path)).collect();
            format!("status {} writes[{}]={:?} reads[{}]={:?}", resp.status, resp.writes.len(), w, resp.reads.len(), r)
        };
        let rpc_route = r.verb == "POST" && matches!(r.target, Target::Root | Target::Db { .. });
        let method = r.method().unwrap_or("");

        // every secret / foreign name that must not show up where it does not belong
        let body_has = |s: &str| contains(&resp.body, s.as_bytes()) || decoded(resp).is_some_and(|v| contains(v.to_string().as_bytes(), s.as_bytes()));
        let sent_has = |s: &str| contains(&resp.sent, s.as_bytes());

        if !rpc_route {
            // health endpoint and router-level answers: no storage access, no names, no keys
            if !resp.writes.is_empty() || !resp.reads.is_empty() {
                fail("router:touches-store", "a request outside the RPC routes accessed storage", "no storage access".into(), footprint(resp));
            }
            for s in self.names.iter().chain(self.keys.iter()) {
                if body_has(s) && !WorldPath::request_mentions(r, s) {
                    fail("router:leak", "a request outside the RPC routes was answered with a database name or key", format!("no {s:?} in the body"), String::from_utf8_lossy(&resp.body).to_string());
                }
            }
            return out;
        }

        let token = self.real_token(r, w);
        let admin_ok = match &self.cfg.admin {
            None => true,
            Some(a) => token.as_deref() == Some(a.as_str()),
        };
        let db_ok = match &r.target {
            Target::Db { name, .. } => token.is_some() && self.bound.get(name) == token.as_ref(),
            _ => false,
        };

        // after an unacknowledged (5xx) key-management request the binding of that database is
        // undetermined between the old and the requested value: no expectation for those two tokens
        if !admin_ok
            && let Target::Db { name, .. } = &r.target
            && let Some(vals) = self.maybe.get(name)
            && (vals.contains(&token) || self.bound.get(name) == token.as_ref())
        {
            return out;
        }

        if !admin_ok && !db_ok {
            // ---- must be the uniform rejection, byte for byte, without touching storage ----
            let enc = r.accept.or(r.ct).unwrap_or(Enc::Cbor);
            let (body, ct) = match enc {
                Enc::Cbor => (unauthorized_cbor(), "application/cbor"),
                Enc::Json => (UNAUTHORIZED_JSON.to_vec(), "application/json"),
            };
            let mut headers = vec![("content-length".to_string(), body.len().to_string()), ("content-type".to_string(), ct.to_string())];
            headers.sort();
            if resp.status != 401 {
                // the key of a request that was answered 5xx, accepted after a later acknowledged answer said
                // otherwise: one call shape (stale engine copy of the extension made durable by another PUT)
                let resurfaced = matches!(&r.target, Target::Db { name, .. } if token.as_ref().is_some_and(|t| self.failed_sets.get(name).is_some_and(|f| f.contains(t))));
                fail(
                    if resurfaced { "ack-not-durable:failed-set-resurfaces" } else { "reject:not-401" },
                    "a caller without the admin key or the key bound to the addressed database was not rejected",
                    "401 unauthorized".into(),
                    format!("{} {}", resp.status, decoded(resp).map(|v| v.to_string()).unwrap_or_else(|| vh_common::hex(&resp.body))),
                );
            } else if resp.body != body || resp.headers != headers {
                fail(
                    "reject:not-uniform",
                    "the rejection is not byte-identical to the uniform 401",
                    format!("{:?} {}", headers, vh_common::hex(&body)),
                    format!("{:?} {}", resp.headers, vh_common::hex(&resp.body)),
                );
            }
            if resp.status == 401 && (!resp.writes.is_empty() || !resp.reads.is_empty()) {
                fail("reject:touches-store", "a rejected request accessed storage", "no storage access".into(), footprint(resp));
            }
            return out;
        }

        if resp.status == 401 {
            fail("allow:rejected", "the holder of a valid key was rejected", "not 401".into(), format!("401 for token {:?} bound={:?}", token, self.bound));
        }

        if !admin_ok && db_ok {
            // ---- a per-database principal: confined to its database ----
            let Target::Db { name, .. } = &r.target else { unreachable!() };
            let prefix = format!("{name}/");
            for a in resp.writes.iter().chain(resp.reads.iter()) {
                if !a.path.starts_with(&prefix) && a.path != *name {
                    fail(
                        "confine:store-path",
                        "a request authorised by a per-database key accessed storage outside that database",
                        format!("only paths under {prefix}"),
                        format!("{} {} (method {method})", a.op, a.path),
                    );
                    break;
                }
            }
            let own_key = token.clone().unwrap_or_default();
            for s in self.names.iter().filter(|n| *n != name).chain(self.keys.iter().filter(|k| **k != own_key)) {
                if body_has(s) && !sent_has(s) && !name.contains(s.as_str()) {
                    fail(
                        "confine:leak",
                        "the response to a per-database key holder contains another database's name, the primary's name or a key",
                        format!("no {s:?} in the response to method {method}"),
                        decoded(resp).map(|v| v.to_string()).unwrap_or_else(|| vh_common::hex(&resp.body)),
                    );
                    break;
                }
            }
            if method == "info" && resp.status == 200 {
                let v = decoded(resp).unwrap_or(Value::Null);
                let ok = v.pointer("/result/primary_db").is_some_and(|p| p.is_null())
                    && v.pointer("/result/databases").and_then(|d| d.as_array()).is_some_and(|d| d.len() == 1 && d[0].as_str() == Some(name.as_str()));
                if !ok {
                    fail("confine:info", "`info` shows a per-database key holder more than its own database", format!("primary_db null, databases [{name}]"), v.to_string());
                }
            }
            if matches!(r.target, Target::Root) {
                fail("confine:root", "a per-database key reached the root scope", "401".into(), format!("{}", resp.status));
            }
        }

        // ---- reads never write ----
        if self.is_read(r) && !resp.writes.is_empty() {
            let scope = if matches!(r.target, Target::Root) { "root" } else { "db" };
            // the first request that opens a collection after a crash runs the recovery of that
            // collection (intent replay + checkpoint): one call shape, whatever the method
            let recovering = match (&r.target, &self.reopened_since_crash) {
                (Target::Db { name, .. }, Some(done)) => opens_c1(method) && !done.contains(name),
                _ => false,
            };
            let key = if recovering { "read-writes:cold-recovery".to_string() } else { format!("read-writes:{scope}:{method}") };
            fail(
                &key,
                "a method the service labels Read (cancellable) wrote to storage",
                "empty mutation log".into(),
                footprint(resp),
            );
        }
        // a request that never reached a handler must not write either
        if !resp.writes.is_empty() {
            let known = match &r.target {
                Target::Root => self.tables.root.contains_key(method),
                _ => self.tables.db.contains_key(method),
            };
            if !known {
                fail("unknown-method:writes", "a request naming no method of the route wrote to storage", "empty mutation log".into(), footprint(resp));
            }
        }
        out
    }

    /// Learn bindings from what the implementation answered.
    pub fn observe(&mut self, r: &Req, resp: &ImplResp, w: &World) {
        if let Target::Db { name, .. } = &r.target {
            // only a well-formed name can be a database whose existence could leak (`..`, `%zz`, … cannot)
            if could_be_db(name) {
                self.names.insert(name.clone());
            }
            if let (Some(done), Some(m)) = (self.reopened_since_crash.as_mut(), r.method())
                && r.verb == "POST"
                && opens_c1(m)
                && resp.status == 200
            {
                done.insert(name.clone());
            }
        }
        if let Some(t) = self.real_token(r, w) {
            if t.len() >= 4 {
                self.keys.insert(t);
            }
        }
        let Body::Rpc { method, name: Some(name), key, fresh, .. } = &r.body else { return };
        if !matches!(r.target, Target::Root) || r.verb != "POST" {
            return;
        }
        if crate::ops::dec_str(&crate::ops::enc_str(name)).is_some() && !name.is_empty() {
            // only a well-formed name can be a database whose existence could leak (`..`, `%zz`, … cannot)
            if could_be_db(name) {
                self.names.insert(name.clone());
            }
        }
        let key_mgmt = matches!(method.as_str(), "db.set_api_key" | "db.remove_api_key") || (method == "db.create" && key.is_some());
        if resp.status >= 500 && key_mgmt {
            let e = self.maybe.entry(name.clone()).or_default();
            e.insert(self.bound.get(name).cloned());
            e.insert(if method == "db.remove_api_key" { None } else { key.as_deref().map(|k| w.real(k)) });
            if method != "db.remove_api_key"
                && let Some(k) = key
            {
                self.failed_sets.entry(name.clone()).or_default().insert(w.real(k));
            }
            return;
        }
        if resp.status != 200 || resp_enc(resp).is_none() {
            return;
        }
        if key_mgmt {
            // acknowledged: from now on exactly this, also after any crash or restart
            self.maybe.remove(name);
        }
        match method.as_str() {
            "db.create" => {
                if let Some(k) = key {
                    let k = w.real(k);
                    self.bound.insert(name.clone(), k.clone());
                    self.keys.insert(k);
                }
            }
            "db.set_api_key" => {
                let k = key.as_deref().map(|k| w.real(k)).or_else(|| w.generated.get(fresh).cloned());
                if let Some(k) = k {
                    self.bound.insert(name.clone(), k.clone());
                    self.keys.insert(k);
                }
            }
            "db.remove_api_key" => {
                self.bound.remove(name);
            }
            _ => {}
        }
    }
}

struct WorldPath;
impl WorldPath {
    fn request_mentions(r: &Req, s: &str) -> bool {
        World::raw_path(&r.target).contains(s)
    }
}

/// Shape of a handler's answer under the fixture, keyed by the *requested method name*: a request
/// dispatched to the wrong handler answers with the wrong shape. `None` = plausible.
pub fn signature_mismatch(method: &str, resp: &ImplResp) -> Option<String> {
    let v = decoded(resp)?;
    if resp.status != 200 {
        // handler-level errors: only the classes a handler can produce
        let code = v.pointer("/error/code").and_then(|c| c.as_str()).unwrap_or("?");
        // `internal`: e.g. `db.flush` while a collection is read-only answers 500 (engine error, sanitised)
        let ok = matches!(code, "not_found" | "invalid_input" | "invalid_query" | "conflict" | "already_exists" | "collection_unavailable" | "gone" | "internal");
        return if ok { None } else { Some(format!("unexpected handler error {} {code} for {method}", resp.status)) };
    }
    let x = v.get("result")?;
    let ok = match method {
        "db.metadata" => x.get("config").is_some() && x.get("collections").is_some(),
        "db.stats" => x.is_object(),
        "db.flush" | "db.set_read_only" | "db.save_extension" | "collection.delete" | "collection.set_read_only" | "collection.save_extension" => x.is_null(),
        "db.get_extension" | "db.remove_extension" | "collection.get_extension" | "collection.remove_extension" => true,
        "collection.list" => x.as_array().is_some_and(|a| a.iter().all(|n| n.is_string())),
        "collection.create" | "collection.ensure" | "collection.metadata" => x.get("config").is_some() && x.get("schema").is_some(),
        "collection.stats" => x.is_object() && x.get("config").is_none(),
        "collection.flush" | "doc.exists" => x.is_boolean(),
        "doc.add" => x.get("_id").is_some_and(|i| i.is_u64()),
        "doc.add_many" => x.as_array().is_some_and(|a| a.iter().all(|d| d.get("_id").is_some())),
        "doc.get" | "doc.update" => x.get("_id").is_some() && x.get("title").is_some(),
        "doc.get_many" | "doc.search" => x.is_array(),
        "doc.remove" => x.is_null() || x.get("_id").is_some(),
        "doc.count" => x.is_u64(),
        "doc.search_ids" | "doc.query_ids" | "doc.query_last_ids" => x.as_array().is_some_and(|a| a.iter().all(|i| i.is_u64())),
        _ => true,
    };
    if ok { None } else { Some(format!("result of {method} has the wrong shape: {x}")) }
}
