//! Real-code runner (axum router in-process) and canonicaliser.

use crate::ops::*;
use crate::store::{Access, RecordingStore};
use anda_db_server::{AppState, ServerOptions, build_router};
use axum::Router;
use axum::body::Body as AxBody;
use axum::http::{Request, header};
use http_body_util::BodyExt;
use std::collections::BTreeMap;
use std::sync::Arc;
use std::time::Duration;
use tower::ServiceExt;
use vh_common::serde_json::{self, Value, json};

pub const SERVER_NAME: &str = "srv_nm_c14";
pub const SERVER_VERSION: &str = "9.8.7";

pub struct ImplResp {
    pub status: u16,
    pub headers: Vec<(String, String)>,
    pub body: Vec<u8>,
    pub writes: Vec<Access>,
    pub reads: Vec<Access>,
    /// the bytes that were sent as the request body
    pub sent: Vec<u8>,
}

pub struct World {
    rt: tokio::runtime::Runtime,
    pub store: Arc<RecordingStore>,
    state: Option<AppState>,
    app: Option<Router>,
    pub cfg: CfgLine,
    /// `$gN` placeholder -> the key the server really generated
    pub generated: BTreeMap<String, String>,
    /// requests whose body is withheld: id -> (service task, body release, body bytes)
    inflight: BTreeMap<String, (tokio::task::JoinHandle<(u16, Vec<(String, String)>, Vec<u8>)>, futures::channel::oneshot::Sender<()>, Vec<u8>)>,
}

fn options(cfg: &CfgLine) -> ServerOptions {
    ServerOptions {
        name: SERVER_NAME.to_string(),
        version: SERVER_VERSION.to_string(),
        primary_db: cfg.primary.clone(),
        description: "c14".to_string(),
        api_key: cfg.admin.clone(),
        // no background flush during a case: every store access belongs to the request in flight
        flush_interval: Duration::from_secs(24 * 3600),
        request_timeout: Duration::from_secs(60),
        max_databases: cfg.max,
        ..Default::default()
    }
}

impl World {
    pub fn new(cfg: CfgLine) -> World {
        let rt = tokio::runtime::Builder::new_current_thread().enable_all().build().expect("runtime");
        let store = Arc::new(RecordingStore::new());
        let state = rt.block_on(AppState::connect(store.clone(), options(&cfg))).expect("AppState::connect");
        let app = build_router(state.clone());
        store.log.take();
        World { rt, store, state: Some(state), app: Some(app), cfg, generated: BTreeMap::new(), inflight: BTreeMap::new() }
    }

    /// clean stop, then a new `AppState` over the same store; returns the open databases
    pub fn restart(&mut self) -> Vec<String> {
        self.inflight.clear();
        *self.store.fault.lock().unwrap() = None;
        if let Some(state) = self.state.take() {
            self.app = None;
            self.rt.block_on(state.shutdown());
        }
        let state = self.rt.block_on(AppState::connect(self.store.clone(), options(&self.cfg))).expect("AppState::connect after restart");
        self.app = Some(build_router(state.clone()));
        let names = self.rt.block_on(state.db_names());
        self.state = Some(state);
        self.store.log.take();
        names
    }

    pub fn disarm_fault(&mut self) {
        *self.store.fault.lock().unwrap() = None;
    }

    /// fault on the second object `flush_metadata` writes; a short pause makes sure that write is not
    /// skipped (`store_metadata` skips it when nothing changed within the same millisecond)
    pub fn arm_fault2(&mut self, k: usize) {
        *self.store.fault.lock().unwrap() = Some((format!("{}/storage_meta.cbor", self.cfg.primary), k));
        std::thread::sleep(Duration::from_millis(3));
    }

    pub fn arm_fault(&mut self, k: usize) {
        *self.store.fault.lock().unwrap() = Some((format!("{}/db_meta.cbor", self.cfg.primary), k));
    }

    /// The process dies: nothing is flushed, nothing is closed. A new `AppState` starts over a copy
    /// of what the store held at that instant (the old instance is then stopped on the old copy,
    /// where it can no longer be observed).
    pub fn crash(&mut self) -> Vec<String> {
        self.inflight.clear();
        let forked = Arc::new(self.store.fork());
        if let Some(state) = self.state.take() {
            self.app = None;
            self.rt.block_on(state.shutdown());
        }
        self.store = forked;
        let state = self.rt.block_on(AppState::connect(self.store.clone(), options(&self.cfg))).expect("AppState::connect after crash");
        self.app = Some(build_router(state.clone()));
        let names = self.rt.block_on(state.db_names());
        self.state = Some(state);
        self.store.log.take();
        names
    }

    fn subst(&self, bytes: &[u8]) -> Vec<u8> {
        // replace `$gN` placeholders by the generated keys (longest placeholder first)
        let mut s = bytes.to_vec();
        let mut keys: Vec<(&String, &String)> = self.generated.iter().collect();
        keys.sort_by_key(|(k, _)| std::cmp::Reverse(k.len()));
        for (k, v) in keys {
            let kb = k.as_bytes();
            let mut i = 0;
            while i + kb.len() <= s.len() {
                let boundary = s.get(i + kb.len()).is_none_or(|c| !c.is_ascii_digit());
                if &s[i..i + kb.len()] == kb && boundary {
                    s.splice(i..i + kb.len(), v.bytes());
                    i += v.len();
                } else {
                    i += 1;
                }
            }
        }
        s
    }

    /// `s` with the `$gN` placeholders replaced by the generated keys
    pub fn real(&self, s: &str) -> String {
        String::from_utf8_lossy(&self.subst(s.as_bytes())).to_string()
    }

    pub fn raw_path(t: &Target) -> String {
        match t {
            Target::Root => "/".into(),
            Target::Db { name, pct: false } => format!("/{name}"),
            Target::Db { name, pct: true } => format!("/{}", name.bytes().map(|b| format!("%{b:02X}")).collect::<String>()),
            Target::BadUtf8(raw) | Target::Unrouted(raw) => raw.clone(),
        }
    }

    /// the request head and the bytes of its body
    fn build(&self, r: &Req) -> (axum::http::request::Builder, Vec<u8>) {
        let mut b = Request::builder().method(r.verb.as_str()).uri(r.raw.clone().unwrap_or_else(|| Self::raw_path(&r.target)));
        if let Some(ct) = r.ct {
            b = b.header(header::CONTENT_TYPE, if ct == Enc::Cbor { "application/cbor" } else { "application/json" });
        }
        if let Some(a) = r.accept {
            b = b.header(header::ACCEPT, if a == Enc::Cbor { "application/cbor" } else { "application/json" });
        }
        if let Some(a) = &r.auth {
            let v = axum::http::HeaderValue::from_bytes(&self.subst(a)).expect("header value");
            b = b.header(header::AUTHORIZATION, v);
        }
        let sent: Vec<u8> = match &r.body {
            Body::Malformed => vec![0xff, 0x00, b'{'],
            Body::Rpc { method, name, key, pvar, .. } => {
                let params = match r.target {
                    // a `$gN` placeholder used as a *given* key means "the key the server generated then"
                    Target::Root => root_params(name.as_deref(), key.as_deref().map(|k| self.real(k)).as_deref()),
                    _ => db_params(method, pvar),
                };
                let v = json!({"method": method, "params": params});
                match r.ct {
                    Some(Enc::Json) => serde_json::to_vec(&v).unwrap(),
                    _ => {
                        let mut buf = Vec::new();
                        cbor2::ser::to_writer(&v, &mut buf).unwrap();
                        buf
                    }
                }
            }
        };
        (b, sent)
    }

    /// A request whose BODY is withheld: the head is sent, the service is polled until it waits for
    /// the body (the route layer has authorised from the headers by then), and the body is delivered
    /// later by [`World::finish`] - after other, complete requests have run.
    pub fn begin(&mut self, id: &str, r: &Req) {
        let (b, sent) = self.build(r);
        let (tx, rx) = futures::channel::oneshot::channel::<()>();
        let payload = bytes::Bytes::from(sent.clone());
        let stream = futures::stream::once(async move {
            let _ = rx.await;
            Ok::<bytes::Bytes, std::convert::Infallible>(payload)
        });
        let req = b.body(AxBody::from_stream(stream)).expect("request");
        let app = self.app.as_ref().expect("router").clone();
        let handle = self.rt.spawn(async move {
            let resp = app.oneshot(req).await.expect("infallible");
            let status = resp.status().as_u16();
            let mut headers: Vec<(String, String)> =
                resp.headers().iter().map(|(k, v)| (k.as_str().to_string(), String::from_utf8_lossy(v.as_bytes()).to_string())).collect();
            headers.sort();
            let body = resp.into_body().collect().await.map(|b| b.to_bytes().to_vec()).unwrap_or_default();
            (status, headers, body)
        });
        // let it run up to the point where it waits for the body
        self.rt.block_on(async {
            for _ in 0..32 {
                tokio::task::yield_now().await;
            }
        });
        self.inflight.insert(id.to_string(), (handle, tx, sent));
    }

    /// delivers the withheld body and collects the answer; the storage footprint is what happened
    /// from the delivery on (nothing can have been touched before: the handler had not started)
    pub fn finish(&mut self, id: &str) -> Option<ImplResp> {
        let (handle, tx, sent) = self.inflight.remove(id)?;
        self.store.log.take();
        let _ = tx.send(());
        let (status, headers, body) = self.rt.block_on(handle).ok()?;
        let (writes, reads) = self.store.log.take();
        Some(ImplResp { status, headers, body, writes, reads, sent })
    }

    pub fn exec(&mut self, r: &Req) -> ImplResp {
        let (b, sent) = self.build(r);
        let req = b.body(AxBody::from(sent.clone())).expect("request");
        self.store.log.take();
        let app = self.app.as_ref().expect("router").clone();
        let (status, headers, body) = self.rt.block_on(async move {
            let resp = app.oneshot(req).await.expect("infallible");
            let status = resp.status().as_u16();
            let mut headers: Vec<(String, String)> =
                resp.headers().iter().map(|(k, v)| (k.as_str().to_string(), String::from_utf8_lossy(v.as_bytes()).to_string())).collect();
            headers.sort();
            let body = resp.into_body().collect().await.map(|b| b.to_bytes().to_vec()).unwrap_or_default();
            (status, headers, body)
        });
        let (writes, reads) = self.store.log.take();
        let resp = ImplResp { status, headers, body, writes, reads, sent };
        // remember a key the server generated for this request
        if let Body::Rpc { method, fresh, .. } = &r.body
            && method == "db.set_api_key"
            && matches!(r.target, Target::Root)
            && status == 200
            && let Some(v) = decoded(&resp)
            && let Some(k) = v.pointer("/result/api_key").and_then(|k| k.as_str())
        {
            self.generated.insert(fresh.clone(), k.to_string());
        }
        resp
    }

    /// Populates database `n` through the admin: collection `c1` (B-tree on `score`, BM25 on
    /// `title`/`body`), two documents, one database extension. Returns false when `n` is not open.
    pub fn install_fixture(&mut self, n: &str) -> bool {
        let auth = Some(format!("Bearer {}", self.cfg.admin.clone().unwrap_or_else(|| "x".into())).into_bytes());
        let mk = |method: &str, pvar: &str| Req {
            verb: "POST".into(),
            target: Target::Db { name: n.to_string(), pct: false },
            raw: None,
            auth: auth.clone(),
            ct: Some(Enc::Cbor),
            accept: None,
            body: Body::Rpc { method: method.into(), name: None, key: None, fresh: "$g0".into(), pvar: pvar.into() },
        };
        let r = self.exec(&mk("collection.ensure", "fixture"));
        if r.status != 200 {
            return false;
        }
        if decoded(&self.exec(&mk("doc.count", "d"))).and_then(|v| v.pointer("/result").and_then(|c| c.as_u64())) == Some(0) {
            self.exec(&mk("doc.add", "d"));
            self.exec(&mk("doc.add", "d"));
        }
        self.exec(&mk("db.save_extension", "d"));
        self.exec(&mk("collection.save_extension", "d"));
        self.exec(&mk("db.flush", "d"));
        self.store.log.take();
        true
    }
}

impl Drop for World {
    fn drop(&mut self) {
        self.app = None;
        self.state = None;
    }
}

fn root_params(name: Option<&str>, key: Option<&str>) -> Value {
    match name {
        None => Value::Null,
        Some(n) => {
            let mut m = serde_json::Map::new();
            m.insert("name".into(), json!(n));
            if let Some(k) = key {
                m.insert("api_key".into(), json!(k));
            }
            Value::Object(m)
        }
    }
}

fn schema() -> Value {
    json!({"fields": [
        {"name": "_id", "description": "", "type": "U64", "unique": true, "index": 0},
        {"name": "title", "description": "t", "type": "Text", "unique": false, "index": 1},
        {"name": "body", "description": "b", "type": "Text", "unique": false, "index": 2},
        {"name": "score", "description": "s", "type": {"Option": "U64"}, "unique": false, "index": 3}
    ]})
}

/// Default parameters of every database-scope method against the fixture (`c1`, documents 1 and 2).
/// Destructive methods address objects outside the fixture (`c_tmp`, document 1000000).
pub fn db_params(method: &str, pvar: &str) -> Value {
    if pvar == "n" {
        return Value::Null;
    }
    let coll_def = |name: &str| {
        json!({"config": {"name": name, "description": "d"}, "schema": schema(), "btree_indexes": [["score"]], "bm25_indexes": ["title", "body"]})
    };
    let mut v = match method {
        "db.set_read_only" => json!({"read_only": pvar == "ro"}),
        "db.get_extension" | "db.remove_extension" => json!({"key": "ext_k"}),
        "db.save_extension" => json!({"key": "ext_k", "value": "ext_v"}),
        "collection.create" | "collection.ensure" => coll_def(if pvar == "fixture" { "c1" } else { "c_tmp" }),
        "collection.delete" => json!({"collection": "c_tmp"}),
        "collection.set_read_only" => json!({"collection": "c1", "read_only": pvar == "ro"}),
        "collection.get_extension" | "collection.remove_extension" => json!({"collection": "c1", "key": "cext_k"}),
        "collection.save_extension" => json!({"collection": "c1", "key": "cext_k", "value": 7}),
        "doc.add" => json!({"collection": "c1", "doc": {"title": "hello title", "body": "hello body text", "score": 5}}),
        "doc.add_many" => json!({"collection": "c1", "docs": [{"title": "many one", "body": "hello many", "score": 6}]}),
        "doc.get" | "doc.exists" => json!({"collection": "c1", "_id": 1}),
        "doc.get_many" => json!({"collection": "c1", "_ids": [1, 2, 999]}),
        "doc.update" => json!({"collection": "c1", "_id": 1, "fields": {"title": "hello updated"}}),
        "doc.remove" => json!({"collection": "c1", "_id": 1000000}),
        "doc.search" | "doc.search_ids" => json!({"collection": "c1", "query": {"search": {"text": "hello"}, "limit": 5}}),
        "doc.query_ids" | "doc.query_last_ids" => json!({"collection": "c1", "filter": {"Field": ["score", {"Ge": 1}]}, "limit": 10}),
        "info" | "db.metadata" | "db.stats" | "db.flush" | "collection.list" => Value::Null,
        // collection.metadata / stats / flush, doc.count, unknown names
        _ => json!({"collection": "c1"}),
    };
    if pvar == "x" {
        // parameters that try to name another database / the server
        if !v.is_object() {
            v = json!({});
        }
        let m = v.as_object_mut().unwrap();
        for f in ["name", "db", "db_name", "database"] {
            m.insert(f.into(), json!(crate::NAME_B));
        }
        m.insert("primary_db".into(), json!(crate::PRIMARY));
    }
    v
}

pub fn resp_enc(resp: &ImplResp) -> Option<Enc> {
    let ct = resp.headers.iter().find(|(k, _)| k == "content-type").map(|(_, v)| v.as_str())?;
    match ct {
        "application/cbor" => Some(Enc::Cbor),
        "application/json" => Some(Enc::Json),
        _ => None,
    }
}

/// The response envelope as a JSON value, whichever encoding it came in.
pub fn decoded(resp: &ImplResp) -> Option<Value> {
    match resp_enc(resp)? {
        Enc::Json => serde_json::from_slice(&resp.body).ok(),
        Enc::Cbor => cbor2::de::from_reader::<Value, _>(&resp.body[..]).ok(),
    }
}

fn quoted_name(msg: &str, prefix: &str, suffix: &str) -> Option<String> {
    // `database "n" not found` — the name is `{:?}`-quoted
    let rest = msg.strip_prefix(prefix)?.strip_suffix(suffix)?;
    serde_json::from_str::<String>(rest).ok().or_else(|| Some(rest.trim_matches('"').to_string()))
}

fn names_of(v: Option<&Value>) -> String {
    let names: Vec<String> = v.and_then(|a| a.as_array()).map(|a| a.iter().filter_map(|x| x.as_str().map(String::from)).collect()).unwrap_or_default();
    show_names(&names)
}

/// One canonical line per response, in the vocabulary of the Lean driver.
pub fn canon_impl(r: &Req, resp: &ImplResp) -> String {
    let enc = match resp_enc(resp) {
        Some(Enc::Cbor) => "cbor",
        Some(Enc::Json) => "json",
        None => "-",
    };
    let Some(v) = decoded(resp) else {
        return format!("- {} http", resp.status);
    };
    if let Some(e) = v.get("error") {
        let code = e.get("code").and_then(|c| c.as_str()).unwrap_or("?");
        let msg = e.get("message").and_then(|c| c.as_str()).unwrap_or("");
        let detail = match code {
            "unauthorized" | "unsupported_media_type" | "limit_exceeded" => "-".to_string(),
            // engine errors are sanitised to one constant message; on the root route that is a
            // modelled outcome (persistence refused by a read-only primary)
            "internal" if matches!(r.target, Target::Root) && msg == "internal server error" => "-".to_string(),
            "bad_request" if msg.starts_with("failed to parse") => "body".into(),
            "method_not_found" => format!("m:{}", hex_str(msg.strip_prefix("method not found: ").unwrap_or("?"))),
            "invalid_input" if msg.starts_with("invalid params") => "params".into(),
            "invalid_input" if msg.starts_with("invalid database name") => "name".into(),
            "invalid_input" if msg == "API key must not be empty" => "emptykey".into(),
            "invalid_input" if msg == "the primary database cannot be closed" => "primaryclose".into(),
            "conflict" if msg.starts_with("per-database API keys require") => "needsadmin".into(),
            "conflict" if msg.starts_with("the primary database holds server state") => "primarykey".into(),
            "already_exists" if msg.starts_with("database ") => {
                quoted_name(msg, "database ", " already exists").map(|n| format!("db:{}", hex_str(&n))).unwrap_or_else(|| "?".into())
            }
            "not_found" if msg.starts_with("database ") => {
                quoted_name(msg, "database ", " not found").map(|n| format!("db:{}", hex_str(&n))).unwrap_or_else(|| "?".into())
            }
            _ => format!("handler:{}", msg.chars().take(60).collect::<String>().replace(' ', "_")),
        };
        return format!("{enc} {} {code} {detail}", resp.status);
    }
    let result = v.get("result");
    if r.verb == "GET" {
        let ok = result.is_some_and(|x| x.get("name").and_then(|n| n.as_str()) == Some(SERVER_NAME) && x.as_object().is_some_and(|o| o.len() == 2));
        return format!("{enc} {} {}", resp.status, if ok { "health" } else { "health?" });
    }
    let method = r.method().unwrap_or("");
    let info = |x: &Value| {
        format!(
            "info primary={} dbs={}",
            x.get("primary_db").and_then(|p| p.as_str()).map(hex_str).unwrap_or_else(|| "-".into()),
            names_of(x.get("databases"))
        )
    };
    let shown = match (&r.target, method, result) {
        (_, "info", Some(x)) if x.get("databases").is_some() => info(x),
        (Target::Root, "db.list", Some(x)) => format!("names dbs={}", names_of(Some(x))),
        (Target::Root, "db.create" | "db.open" | "db.connect", Some(x)) => {
            format!("metadata {}", x.pointer("/config/name").and_then(|n| n.as_str()).map(hex_str).unwrap_or_else(|| "?".into()))
        }
        (Target::Root, "db.close", Some(Value::Null)) => "unit".into(),
        (Target::Root, "db.set_api_key", Some(x)) => format!(
            "keyset {} {}",
            x.get("name").and_then(|n| n.as_str()).map(hex_str).unwrap_or_else(|| "?".into()),
            if x.get("api_key").is_some_and(|k| k.is_string()) { "generated" } else { "given" }
        ),
        (Target::Root, "db.remove_api_key", Some(Value::Bool(b))) => format!("removed {b}"),
        _ => "handler".into(),
    };
    format!("{enc} {} ok {shown}", resp.status)
}

/// `None` when the model's line and the implementation's line agree.
pub fn compare(model: &str, canon: &str, r: &Req, resp: &ImplResp) -> Option<String> {
    if model == canon {
        return None;
    }
    let mw: Vec<&str> = model.split(' ').collect();
    let cw: Vec<&str> = canon.split(' ').collect();
    // router-level answers carry no envelope: only the status is compared
    if mw.len() >= 3 && mw[2] == "http" && cw.len() >= 3 && cw[2] == "http" {
        return if mw[1] == cw[1] { None } else { Some("router-level status differs".into()) };
    }
    // `<enc> dispatch <db> <Variant> <handler> <R|M> <principal>`: the model stops at "this handler
    // was reached for this database"; the implementation must have answered from a handler
    // (not 401, not method_not_found, not "database not found", not a body/content-type error).
    if mw.len() >= 7 && mw[1] == "dispatch" {
        if mw[0] != cw[0] {
            return Some("response encoding differs".into());
        }
        let Target::Db { name, .. } = &r.target else { return Some("model dispatched a database handler on a non-database route".into()) };
        if mw[2] != hex_str(name) {
            return Some("model dispatched for a different database than the path names".into());
        }
        // reached a handler = answered, and not by one of the pre-handler stages
        let pre_handler = cw.len() < 3
            || cw[1] == "401"
            || matches!(cw[2], "unauthorized" | "method_not_found" | "unsupported_media_type" | "http")
            || cw.get(3).is_some_and(|d| d.starts_with("db:") || *d == "body");
        let reached = !pre_handler;
        if !reached {
            return Some("model reached a database handler, implementation did not".into());
        }
        return crate::oracle::signature_mismatch(r.method().unwrap_or(""), resp).map(|m| format!("handler signature: {m}"));
    }
    Some("canonical responses differ".into())
}
