#!/usr/bin/env python3
"""c15_kip_limits.py <repo_root> <gen_dir>  ->  <gen_dir>/KipLimits.lean

Regenerates, from the working tree of rs/anda_kip, the data-like parts of the C15 model:

  parser.rs          MAX_KIP_INPUT_LEN, MAX_KIP_NESTING_DEPTH (constant expressions are evaluated); that each
                     of the five parse_* entry points starts with `validate_parser_budget(..)?;`; from
                     validate_parser_budget TOGETHER WITH every function of the file it transitively calls:
                     the relation under which it refuses (`len > MAX`, also when spelled as the inverted
                     `len <= MAX => Ok`), that it iterates `.chars()`, pushes, looks at `.last()` and pops,
                     and the sorted set of character literals it keys on; the order of the three
                     families in `parse_kip`'s `alt`;
  parser/json.rs     skip_ws_and_comments (+ helpers): comment introducer / terminator, whitespace class;
  parser/common.rs   the extra characters of `word_boundary` (sorted set), that `word` / `words` are
                     tag_no_case + word_boundary (+ trivia1), the whitespace class of `trivia1`;
  parser/{kql,kml,meta}.rs
                     the head keyword of every top-level alternative of the three families
                     (first `word("X")` / `words(&["X", ..])` of each function named in the family's
                     top-level `alt`, plus `MUTATE` and the verbs passed to `removal`).

Facts are about what is called and which characters / constants are used, never about the names of
locals or the spelling of a branch (match vs if-chain, matches! vs ==, loop vs try_for_each, code moved
into private helpers): which closer pops which opener and the string / escape / comment state machine are
tied by the correspondence harness instead (bracket soup, corpus 03-04c, 19e-19f).

Strict about meaning, tolerant about layout: works on a comment-stripped copy, keys on names and
nesting; a marker that is missing, duplicated or ambiguous is an error (exit 1, one line on stderr).
"""
import os
import re
import sys


def die(msg):
    sys.stderr.write("c15_kip_limits: " + msg + "\n")
    sys.exit(1)


def strip_comments(src):
    """Removes // and /* */ comments, keeps string and char literals intact."""
    out = []
    i, n = 0, len(src)
    while i < n:
        c = src[i]
        if src.startswith("//", i):
            while i < n and src[i] != "\n":
                i += 1
        elif src.startswith("/*", i):
            depth = 1
            i += 2
            while i < n and depth:
                if src.startswith("/*", i):
                    depth += 1
                    i += 2
                elif src.startswith("*/", i):
                    depth -= 1
                    i += 2
                else:
                    i += 1
        elif c == '"':
            j = i + 1
            while j < n and src[j] != '"':
                j += 2 if src[j] == "\\" else 1
            out.append(src[i:j + 1])
            i = j + 1
        elif c == "r" and re.match(r'r#*"', src[i:]):
            m = re.match(r'r(#*)"', src[i:])
            end = src.find('"' + m.group(1), i + len(m.group(0)))
            if end < 0:
                die("unterminated raw string")
            out.append(src[i:end + 1 + len(m.group(1))])
            i = end + 1 + len(m.group(1))
        elif c == "'":
            m = re.match(r"'(\\.|\\u\{[0-9a-fA-F]+\}|[^'\\])'", src[i:])
            if m:
                out.append(m.group(0))
                i += len(m.group(0))
            else:  # lifetime
                out.append(c)
                i += 1
        else:
            out.append(c)
            i += 1
    return "".join(out)


def cut_tests(src):
    m = re.search(r"#\[cfg\(test\)\]\s*mod\s+tests", src)
    return src[:m.start()] if m else src


def fn_body(src, name, path):
    """Body (between the outermost braces) of the unique `fn name`."""
    ms = list(re.finditer(r"\bfn\s+" + re.escape(name) + r"\b", src))
    if len(ms) != 1:
        die(f"{path}: expected exactly one `fn {name}`, found {len(ms)}")
    i = src.find("{", ms[0].end())
    # skip a possible `where` clause / return type containing no braces: first `{` after the
    # signature's closing paren at depth 0
    depth_par = 0
    j = ms[0].end()
    while j < len(src):
        ch = src[j]
        if ch in "(<[":
            depth_par += 1
        elif ch in ")>]":
            depth_par -= 1 if not (ch == ">" and src[j - 1] == "-") else 0
        elif ch == "{" and depth_par <= 0:
            i = j
            break
        j += 1
    depth, k = 0, i
    in_str = False
    while k < len(src):
        ch = src[k]
        if in_str:
            if ch == "\\":
                k += 1
            elif ch == '"':
                in_str = False
        elif ch == '"':
            in_str = True
        elif ch == "'" and re.match(r"'(\\.|[^'\\])'", src[k:]):
            k += len(re.match(r"'(\\.|[^'\\])'", src[k:]).group(0)) - 1
        elif ch == "{":
            depth += 1
        elif ch == "}":
            depth -= 1
            if depth == 0:
                return src[i + 1:k]
        k += 1
    die(f"{path}: unbalanced braces in fn {name}")


def fn_names(src):
    return set(re.findall(r"\bfn\s+([A-Za-z_]\w*)\b", src))


def call_closure(src, name, path):
    """Bodies of `fn name` and of every function of the same file it transitively calls
    (`foo(..)`, `self.foo(..)`, `Self::foo(..)`, `x.foo(..)`), concatenated: a scan of the result sees
    the same calls, constants and character literals whether or not blocks were moved into helpers."""
    names = fn_names(src)
    seen, todo, parts = [], [name], []
    while todo:
        f = todo.pop(0)
        if f in seen:
            continue
        seen.append(f)
        ms = list(re.finditer(r"\bfn\s+" + re.escape(f) + r"\b", src))
        if len(ms) != 1:
            if f == name:
                die(f"{path}: expected exactly one `fn {name}`, found {len(ms)}")
            continue  # overloaded helper name (two impls): not followed
        body = fn_body(src, f, path)
        parts.append(body)
        for callee in re.findall(r"\b([A-Za-z_]\w*)\s*(?:::<[^>()]*>)?\(", body):
            if callee in names and callee not in seen:
                todo.append(callee)
    return "\n".join(parts)


def const_expr(src, name, path):
    ms = re.findall(r"\bconst\s+" + name + r"\s*:\s*usize\s*=\s*([^;]+);", src)
    if len(ms) != 1:
        die(f"{path}: expected exactly one `const {name}: usize`, found {len(ms)}")
    e = ms[0].strip().replace("_", "")
    if not re.fullmatch(r"[0-9\s*+<()\-]+", e):
        die(f"{path}: cannot evaluate `{name} = {ms[0].strip()}`")
    try:
        v = eval(e, {"__builtins__": {}})  # digits and * + << ( ) - only
    except Exception as ex:  # noqa
        die(f"{path}: cannot evaluate `{name} = {ms[0].strip()}`: {ex}")
    if not isinstance(v, int) or v < 0:
        die(f"{path}: `{name}` is not a natural number")
    return v


CHAR = r"'(\\.|[^'\\])'"


def unchar(lit):
    body = lit[1:-1]
    if body.startswith("\\"):
        return {"n": "\n", "t": "\t", "r": "\r", "\\": "\\", "'": "'", '"': '"', "0": "\0"}[body[1]]
    return body


def lean_char(c):
    esc = {"\n": "\\n", "\t": "\\t", "\r": "\\r", "\\": "\\\\", "'": "\\'", '"': '"'}
    return "'" + esc.get(c, c) + "'"


def lean_chars(s):
    return "[" + ", ".join(lean_char(c) for c in s) + "]"


def first_keyword(body, where):
    """First `word("X")` / `words(&["X", ...])` in a function body."""
    m = re.search(r'\bwords?\s*\(\s*(?:&\s*\[\s*)?"([A-Za-z_]+)"', body)
    if not m:
        die(f"{where}: no leading word(..)/words(..) keyword found")
    return m.group(1)


def alt_items(body, where):
    """The top-level items of the first `alt((...))` in `body` (split on depth-0 commas)."""
    m = re.search(r"\balt\s*\(\s*\(", body)
    if not m:
        die(f"{where}: no alt((...)) found")
    i = m.end()
    depth, k, start, items = 0, i, i, []
    in_str = False
    while k < len(body):
        ch = body[k]
        if in_str:
            if ch == "\\":
                k += 1
            elif ch == '"':
                in_str = False
        elif ch == '"':
            in_str = True
        elif ch == "'" and re.match(CHAR, body[k:]):
            k += len(re.match(CHAR, body[k:]).group(0)) - 1
        elif ch in "([{":
            depth += 1
        elif ch in ")]}":
            if depth == 0:
                items.append(body[start:k])
                break
            depth -= 1
        elif ch == "," and depth == 0:
            items.append(body[start:k])
            start = k + 1
        k += 1
    return [x.strip() for x in items if x.strip()]


def main():
    if len(sys.argv) != 3:
        die("usage: c15_kip_limits.py <repo_root> <gen_dir>")
    repo, gen = sys.argv[1], sys.argv[2]
    base = os.path.join(repo, "rs", "anda_kip", "src")

    def load(rel):
        p = os.path.join(base, rel)
        if not os.path.exists(p):
            die(f"missing source file {p}")
        return cut_tests(strip_comments(open(p, encoding="utf-8").read()))

    parser = load("parser.rs")
    json_rs = load(os.path.join("parser", "json.rs"))
    common = load(os.path.join("parser", "common.rs"))
    kql = load(os.path.join("parser", "kql.rs"))
    kml = load(os.path.join("parser", "kml.rs"))
    meta = load(os.path.join("parser", "meta.rs"))

    # ---- limits -----------------------------------------------------------------------------
    max_len = const_expr(parser, "MAX_KIP_INPUT_LEN", "parser.rs")
    max_depth = const_expr(parser, "MAX_KIP_NESTING_DEPTH", "parser.rs")

    # every parse_* entry point calls the budget first (whatever the parameter is called, whatever follows)
    entry_points = []
    for ep in ["parse_kip", "parse_kql", "parse_kml", "parse_meta", "parse_json"]:
        b = fn_body(parser, ep, "parser.rs")
        if not re.match(r"\s*validate_parser_budget\s*\(\s*\w+\s*\)\s*\?\s*;", b):
            die(f"parser.rs: `{ep}` does not start with `validate_parser_budget(<input>)?;`")
        entry_points.append(ep)

    # ---- the pre-scan -----------------------------------------------------------------------
    # Facts are taken from validate_parser_budget together with every function of the same file it
    # (transitively) calls, so extracting blocks into private helpers / methods changes nothing, and
    # they are about WHAT IS CALLED and WHICH CHARACTERS ARE KEYED ON, not about how a branch is spelled
    # (match / if-else chain / matches! / ==). The pairing of closers with openers and the state
    # machine itself are tied by the correspondence harness (bracket soup, corpus 03-04c, 19e-19f).
    vb = call_closure(parser, "validate_parser_budget", "parser.rs")
    flat = re.sub(r"\s+", " ", vb)

    def refused_when(const, what):
        """`x.len() OP CONST` guarding the refusal: returns the relation under which the input is refused."""
        ms = list(re.finditer(r"\.\s*len\s*\(\s*\)\s*(>=|<=|>|<)\s*" + const + r"\b", flat))
        if len(ms) != 1:
            die(f"parser.rs: validate_parser_budget: expected exactly one `.len() <op> {const}` ({what}), found {len(ms)}")
        op = ms[0].group(1)
        i = flat.find("{", ms[0].end())
        if i < 0 or flat[ms[0].end():i].strip() != "":
            die(f"parser.rs: validate_parser_budget: the {what} comparison does not guard a block")
        depth, j = 0, i
        while j < len(flat):
            if flat[j] == "{":
                depth += 1
            elif flat[j] == "}":
                depth -= 1
                if depth == 0:
                    break
            j += 1
        block = flat[i:j + 1]
        errs = bool(re.search(r"\bErr\s*\(|resource_exhausted", block))
        oks = bool(re.search(r"\bOk\s*\(", block))
        if errs == oks:
            die(f"parser.rs: validate_parser_budget: cannot tell whether the {what} guard refuses or accepts")
        if errs:       # `if len OP C { refuse }`
            return op
        # `if len OP C { accept }` : refused under the negation
        return {"<=": ">", "<": ">=", ">": "<=", ">=": "<"}[op]

    len_rel = refused_when("MAX_KIP_INPUT_LEN", "length")
    depth_rel = refused_when("MAX_KIP_NESTING_DEPTH", "depth")
    for call, why in [(r"\.\s*chars\s*\(\s*\)", "does not iterate `.chars()`"),
                      (r"\.\s*push\s*\(", "never pushes an opener"),
                      (r"\.\s*pop\s*\(\s*\)", "never pops"),
                      (r"\.\s*last\s*\(\s*\)", "never looks at the innermost open bracket before popping")]:
        if not re.search(call, flat):
            die(f"parser.rs: validate_parser_budget: {why}")
    if re.search(r"\.\s*bytes\s*\(\s*\)|char_indices", flat):
        die("parser.rs: validate_parser_budget: iterates something else than `.chars()`")
    budget_chars = sorted(set(unchar(x.group(0)) for x in re.finditer(CHAR, vb)))

    # ---- skip_ws_and_comments ---------------------------------------------------------------
    sk = re.sub(r"\s+", " ", call_closure(json_rs, "skip_ws_and_comments", "parser/json.rs"))
    m = re.findall(r'starts_with\s*\(\s*"([^"]*)"\s*\)', sk)
    if len(m) != 1:
        die("parser/json.rs: skip_ws_and_comments: expected one starts_with(\"..\")")
    comment_intro = m[0]
    m = re.search(r"trim_start_matches\s*\(([^;]*?)\)\s*[;)]", sk)
    if not m or "is_whitespace" not in m.group(1) or re.search(r"is_ascii_whitespace|multispace", sk):
        die("parser/json.rs: skip_ws_and_comments: whitespace is no longer `char::is_whitespace`")

    # ---- where a `//` comment ends: the pre-scan's rule and every skipper's -------------------
    # pre-scan: its key characters minus the ones with a structural role (quote, backslash, slash,
    # the six brackets) are the characters that end a comment
    structural = ['"', '\\', '/', '(', ')', '[', ']', '{', '}']
    missing = [c for c in structural if c not in budget_chars]
    if missing:
        die(f"parser.rs: validate_parser_budget: no longer keys on {missing}")
    prescan_ends = sorted(c for c in budget_chars if c not in structural)
    # skippers: every non-test function of parser.rs / parser/*.rs whose own body names the comment
    # introducer "//" and consumes up to a terminator (find / take_until / take_till / is_not /
    # split_once / position / lines); its terminators are the character literals of that body plus
    # the characters of the string arguments of those calls
    skipper_sets = {}
    pdir = os.path.join(base, "parser")
    sources = [("parser.rs", parser)] + [(os.path.join("parser", f), load(os.path.join("parser", f)))
                                         for f in sorted(os.listdir(pdir)) if f.endswith(".rs")]
    consuming = r"\b(find|rfind|take_until|take_till|take_till1|is_not|split_once|position|lines|split_terminator)\s*\("
    for rel, src in sources:
        for f in sorted(fn_names(src)):
            ms = list(re.finditer(r"\bfn\s+" + re.escape(f) + r"\b", src))
            if len(ms) != 1:
                continue
            body = fn_body(src, f, rel)
            if '"//"' not in body or not re.search(consuming, body):
                continue
            ends = set(unchar(x.group(0)) for x in re.finditer(CHAR, body))
            for m2 in re.finditer(consuming.replace(r"\s*\(", r"") + r"\s*\(\s*\"((?:\\.|[^\"\\])*)\"", body):
                lit = m2.group(2)
                if lit != "//":
                    ends |= set(bytes(lit, "utf-8").decode("unicode_escape"))
            skipper_sets[f"{rel}::{f}"] = sorted(ends)
    if not skipper_sets:
        die("parser: no function skips `//` comments up to a terminator any more")
    all_ends = sorted(set(c for v in skipper_sets.values() for c in v))
    skippers_agree = all(v == all_ends for v in skipper_sets.values())

    # ---- word_boundary ----------------------------------------------------------------------
    wbody = fn_body(common, "word_boundary", "parser/common.rs")
    wb = re.sub(r"\s+", " ", wbody)
    if not re.search(r"\bnot\s*\(", wb) or "anychar" not in wb or not re.search(r"\.\s*is_alphanumeric\s*\(\s*\)", wb):
        die("parser/common.rs: word_boundary: is no longer `not(<next char is alphanumeric or one of ..>)`")
    if re.search(r"is_ascii_alphanumeric", wb):
        die("parser/common.rs: word_boundary: alphanumeric class changed")
    boundary_extra = sorted(set(unchar(x.group(0)) for x in re.finditer(CHAR, wbody)))
    wd = re.sub(r"\s+", " ", fn_body(common, "word", "parser/common.rs"))
    if not re.search(r"\btag_no_case\s*\(", wd) or not re.search(r"\bword_boundary\s*\(\s*\)", wd):
        die("parser/common.rs: word: is no longer tag_no_case followed by word_boundary")

    # ---- trivia1 (between the words of a multi-word keyword) ---------------------------------
    t1 = re.sub(r"\s+", " ", fn_body(common, "trivia1", "parser/common.rs"))
    if re.search(r"take_while1\s*\(([^;]*?is_whitespace[^;]*?)\)", t1) and not re.search(r"multispace|is_ascii_whitespace", t1):
        trivia1_ws = "char::is_whitespace"
    elif re.search(r"\bmultispace1\b", t1):
        trivia1_ws = "multispace1"
    else:
        die("parser/common.rs: trivia1: whitespace class not recognised (expected take_while1 over char::is_whitespace)")
    if not re.search(r'peek\s*\(\s*tag\s*\(\s*"//"\s*\)\s*\)', t1) or not re.search(r"skip_ws_and_comments\s*\(\s*\w+\s*\)", t1):
        die("parser/common.rs: trivia1: is no longer `alt((whitespace1, peek(tag(\"//\")))) then skip_ws_and_comments`")
    wds = re.sub(r"\s+", " ", fn_body(common, "words", "parser/common.rs"))
    if not re.search(r"trivia1\s*\(", wds) or not re.search(r"tag_no_case\s*\(", wds) or not re.search(r"word_boundary\s*\(\s*\)", wds):
        die("parser/common.rs: words: is no longer trivia1 / tag_no_case / word_boundary")

    # ---- parse_kip alt order ----------------------------------------------------------------
    pk = fn_body(parser, "parse_kip", "parser.rs")
    order = []
    for it in alt_items(pk, "parser.rs: parse_kip"):
        m = re.match(r"map\s*\(\s*(\w+)::(\w+)\s*,\s*Command::(\w+)\s*\)", it)
        if not m:
            die(f"parser.rs: parse_kip: unrecognised alternative `{it[:60]}`")
        order.append((m.group(1), m.group(2), m.group(3)))
    fams = [o[2].lower() for o in order]
    if sorted(fams) != ["kml", "kql", "meta"]:
        die(f"parser.rs: parse_kip: alternatives are {fams}, expected kql/kml/meta once each")

    # ---- head keywords ----------------------------------------------------------------------
    heads = {"kql": [], "kml": [], "meta": []}
    # KQL: parse_kql_query starts with FIND
    heads["kql"].append(first_keyword(fn_body(kql, "parse_kql_query", "parser/kql.rs"), "kql.rs: parse_kql_query"))

    # KML: MUTATE or one mutation_clause alternative
    ks = fn_body(kml, "parse_kml_statement", "parser/kml.rs")
    heads["kml"].append(first_keyword(ks, "kml.rs: parse_kml_statement"))
    if "mutation_clause" not in ks:
        die("parser/kml.rs: parse_kml_statement no longer uses mutation_clause")
    removal_body = re.sub(r"\s+", " ", fn_body(kml, "removal", "parser/kml.rs"))
    for it in alt_items(fn_body(kml, "mutation_clause", "parser/kml.rs"), "kml.rs: mutation_clause"):
        m = re.match(r"map\s*\(\s*\|\s*\w+\s*\|\s*removal\s*\(\s*\"([A-Z_]+)\"", it)
        if m:
            if not re.search(r"ws\s*\(\s*word\s*\(\s*verb\s*\)\s*\)", removal_body):
                die("parser/kml.rs: removal no longer starts with ws(word(verb))")
            heads["kml"].append(m.group(1))
            continue
        m = re.match(r"(?:map\s*\(\s*)?(\w+)\b", it)
        if not m:
            die(f"parser/kml.rs: mutation_clause: unrecognised alternative `{it[:60]}`")
        f = m.group(1)
        heads["kml"].append(first_keyword(fn_body(kml, f, "parser/kml.rs"), f"kml.rs: {f}"))

    # META
    for it in alt_items(fn_body(meta, "parse_meta_command", "parser/meta.rs"), "meta.rs: parse_meta_command"):
        m = re.match(r"(?:map\s*\(\s*)?(\w+)\b", it)
        if not m:
            die(f"parser/meta.rs: parse_meta_command: unrecognised alternative `{it[:60]}`")
        f = m.group(1)
        heads["meta"].append(first_keyword(fn_body(meta, f, "parser/meta.rs"), f"meta.rs: {f}"))

    for fam in heads:
        seen = []
        for h in heads[fam]:
            if not re.fullmatch(r"[A-Z]+", h):
                die(f"head keyword `{h}` of {fam} is not plain uppercase ASCII letters")
            if h not in seen:
                seen.append(h)
        heads[fam] = seen

    # ---- write ------------------------------------------------------------------------------
    def heads_lean(xs):
        return "[" + ",\n   ".join(lean_chars(x) for x in xs) + "]"

    out = []
    out.append("/-")
    out.append("GENERATED by bin/translate/c15_kip_limits.py from rs/anda_kip/src/parser.rs and")
    out.append("rs/anda_kip/src/parser/{json,common,kql,kml,meta}.rs on every run of bin/check C15.")
    out.append("Do not edit by hand: the committed copy is just the last output.")
    out.append("-/")
    out.append("namespace AndaVerif.Gen.KipLimits")
    out.append("")
    out.append("/-- `MAX_KIP_INPUT_LEN` (bytes). -/")
    out.append(f"def maxKipInputLen : Nat := {max_len}")
    out.append("/-- `MAX_KIP_NESTING_DEPTH`. -/")
    out.append(f"def maxKipNestingDepth : Nat := {max_depth}")
    out.append("/-- entry points that start with `validate_parser_budget(input)?;` -/")
    out.append("def budgetedEntryPoints : List String := [" + ", ".join(f'"{e}"' for e in entry_points) + "]")
    out.append("/-- every character literal `validate_parser_budget` (with its private helpers) keys on, sorted -/")
    out.append(f"def budgetChars : List Char := {lean_chars(budget_chars)}")
    out.append("/-- the input is refused when `len <rel> MAX_KIP_INPUT_LEN` / `stack.len() <rel> MAX_KIP_NESTING_DEPTH` -/")
    out.append(f'def lengthRefusedWhen : String := "{len_rel}"')
    out.append(f'def depthRefusedWhen : String := "{depth_rel}"')
    out.append("/-- characters that end a `//` comment for the pre-scan (its key characters without quote, backslash, slash and the brackets) -/")
    out.append(f"def prescanCommentEnds : List Char := {lean_chars(prescan_ends)}")
    out.append("/-- characters that end a `//` comment for the comment skippers of parser.rs / parser/*.rs (union), and whether every skipper has exactly this set -/")
    out.append(f"def skipperCommentEnds : List Char := {lean_chars(all_ends)}")
    out.append(f"def skippersAgree : Bool := {'true' if skippers_agree else 'false'}")
    out.append("/-- comment introducer of `skip_ws_and_comments` -/")
    out.append(f"def commentIntro : List Char := {lean_chars(comment_intro)}")
    out.append("/-- non-alphanumeric characters that still glue to a keyword (`word_boundary`), sorted -/")
    out.append(f"def boundaryExtra : List Char := {lean_chars(boundary_extra)}")
    out.append("/-- whitespace class `trivia1` requires between the words of a multi-word keyword -/")
    out.append(f'def trivia1Whitespace : String := "{trivia1_ws}"')
    out.append("/-- order of the families in `parse_kip`'s `alt` -/")
    out.append("def kipAltOrder : List String := [" + ", ".join(f'"{f}"' for f in fams) + "]")
    for fam in ["kql", "kml", "meta"]:
        out.append(f"/-- head keywords of the {fam.upper()} family, in source order -/")
        out.append(f"def {fam}Heads : List (List Char) :=\n  {heads_lean(heads[fam])}")
    out.append("")
    out.append(f"theorem gen_kip_limits : maxKipInputLen = {max_len} ∧ maxKipNestingDepth = {max_depth} := by decide")
    out.append(f"theorem gen_kip_head_counts : kqlHeads.length = {len(heads['kql'])} ∧ kmlHeads.length = {len(heads['kml'])} ∧ "
               f"metaHeads.length = {len(heads['meta'])} := by decide")
    out.append("")
    out.append("end AndaVerif.Gen.KipLimits")
    os.makedirs(gen, exist_ok=True)
    path = os.path.join(gen, "KipLimits.lean")
    text = "\n".join(out) + "\n"
    old = open(path, encoding="utf-8").read() if os.path.exists(path) else None
    if old != text:  # keep mtime stable when nothing changed (lake rebuilds less)
        open(path, "w", encoding="utf-8").write(text)
    print("GEN KipLimits.lean")


if __name__ == "__main__":
    main()
