#!/usr/bin/env python3
"""c15_kip_limits.py <repo_root> <gen_dir>  ->  <gen_dir>/KipLimits.lean

Regenerates, from the working tree of rs/anda_kip, the data-like parts of the C15 model:

  parser.rs          MAX_KIP_INPUT_LEN, MAX_KIP_NESTING_DEPTH (constant expressions are evaluated),
                     the bracket tables of `validate_parser_budget` (which characters are pushed,
                     which closer pops which opener), the comment / string / escape characters the
                     pre-scan keys on, and the order of the three families in `parse_kip`'s `alt`;
  parser/json.rs     the comment introducer and terminator of `skip_ws_and_comments`;
  parser/common.rs   the extra characters of `word_boundary`;
  parser/{kql,kml,meta}.rs
                     the head keyword of every top-level alternative of the three families
                     (first `word("X")` / `words(&["X", ..])` of each function named in the family's
                     top-level `alt`, plus `MUTATE` and the verbs passed to `removal`).

Strict about meaning, tolerant about layout: works on a comment-stripped copy, keys on names and
nesting; a marker that is missing, duplicated or ambiguous is an error (exit 1, one line on stderr).
"""
import os
import re
import sys


def die(msg):
    sys.stderr.write("c15_kip_limits: " + msg + "\n")
    sys.exit(1)


def strip_comments(src):
    """Removes // and /* */ comments, keeps string and char literals intact."""
    out = []
    i, n = 0, len(src)
    while i < n:
        c = src[i]
        if src.startswith("//", i):
            while i < n and src[i] != "\n":
                i += 1
        elif src.startswith("/*", i):
            depth = 1
            i += 2
            while i < n and depth:
                if src.startswith("/*", i):
                    depth += 1
                    i += 2
                elif src.startswith("*/", i):
                    depth -= 1
                    i += 2
                else:
                    i += 1
        elif c == '"':
            j = i + 1
            while j < n and src[j] != '"':
                j += 2 if src[j] == "\\" else 1
            out.append(src[i:j + 1])
            i = j + 1
        elif c == "r" and re.match(r'r#*"', src[i:]):
            m = re.match(r'r(#*)"', src[i:])
            end = src.find('"' + m.group(1), i + len(m.group(0)))
            if end < 0:
                die("unterminated raw string")
            out.append(src[i:end + 1 + len(m.group(1))])
            i = end + 1 + len(m.group(1))
        elif c == "'":
            m = re.match(r"'(\\.|\\u\{[0-9a-fA-F]+\}|[^'\\])'", src[i:])
            if m:
                out.append(m.group(0))
                i += len(m.group(0))
            else:  # lifetime
                out.append(c)
                i += 1
        else:
            out.append(c)
            i += 1
    return "".join(out)


def cut_tests(src):
    m = re.search(r"#\[cfg\(test\)\]\s*mod\s+tests", src)
    return src[:m.start()] if m else src


def fn_body(src, name, path):
    """Body (between the outermost braces) of the unique `fn name`."""
    ms = list(re.finditer(r"\bfn\s+" + re.escape(name) + r"\b", src))
    if len(ms) != 1:
        die(f"{path}: expected exactly one `fn {name}`, found {len(ms)}")
    i = src.find("{", ms[0].end())
    # skip a possible `where` clause / return type containing no braces: first `{` after the
    # signature's closing paren at depth 0
    depth_par = 0
    j = ms[0].end()
    while j < len(src):
        ch = src[j]
        if ch in "(<[":
            depth_par += 1
        elif ch in ")>]":
            depth_par -= 1 if not (ch == ">" and src[j - 1] == "-") else 0
        elif ch == "{" and depth_par <= 0:
            i = j
            break
        j += 1
    depth, k = 0, i
    in_str = False
    while k < len(src):
        ch = src[k]
        if in_str:
            if ch == "\\":
                k += 1
            elif ch == '"':
                in_str = False
        elif ch == '"':
            in_str = True
        elif ch == "'" and re.match(r"'(\\.|[^'\\])'", src[k:]):
            k += len(re.match(r"'(\\.|[^'\\])'", src[k:]).group(0)) - 1
        elif ch == "{":
            depth += 1
        elif ch == "}":
            depth -= 1
            if depth == 0:
                return src[i + 1:k]
        k += 1
    die(f"{path}: unbalanced braces in fn {name}")


def const_expr(src, name, path):
    ms = re.findall(r"\bconst\s+" + name + r"\s*:\s*usize\s*=\s*([^;]+);", src)
    if len(ms) != 1:
        die(f"{path}: expected exactly one `const {name}: usize`, found {len(ms)}")
    e = ms[0].strip().replace("_", "")
    if not re.fullmatch(r"[0-9\s*+<()\-]+", e):
        die(f"{path}: cannot evaluate `{name} = {ms[0].strip()}`")
    try:
        v = eval(e, {"__builtins__": {}})  # digits and * + << ( ) - only
    except Exception as ex:  # noqa
        die(f"{path}: cannot evaluate `{name} = {ms[0].strip()}`: {ex}")
    if not isinstance(v, int) or v < 0:
        die(f"{path}: `{name}` is not a natural number")
    return v


CHAR = r"'(\\.|[^'\\])'"


def unchar(lit):
    body = lit[1:-1]
    if body.startswith("\\"):
        return {"n": "\n", "t": "\t", "r": "\r", "\\": "\\", "'": "'", '"': '"', "0": "\0"}[body[1]]
    return body


def lean_char(c):
    esc = {"\n": "\\n", "\t": "\\t", "\r": "\\r", "\\": "\\\\", "'": "\\'", '"': '"'}
    return "'" + esc.get(c, c) + "'"


def lean_chars(s):
    return "[" + ", ".join(lean_char(c) for c in s) + "]"


def first_keyword(body, where):
    """First `word("X")` / `words(&["X", ...])` in a function body."""
    m = re.search(r'\bwords?\s*\(\s*(?:&\s*\[\s*)?"([A-Za-z_]+)"', body)
    if not m:
        die(f"{where}: no leading word(..)/words(..) keyword found")
    return m.group(1)


def alt_items(body, where):
    """The top-level items of the first `alt((...))` in `body` (split on depth-0 commas)."""
    m = re.search(r"\balt\s*\(\s*\(", body)
    if not m:
        die(f"{where}: no alt((...)) found")
    i = m.end()
    depth, k, start, items = 0, i, i, []
    in_str = False
    while k < len(body):
        ch = body[k]
        if in_str:
            if ch == "\\":
                k += 1
            elif ch == '"':
                in_str = False
        elif ch == '"':
            in_str = True
        elif ch == "'" and re.match(CHAR, body[k:]):
            k += len(re.match(CHAR, body[k:]).group(0)) - 1
        elif ch in "([{":
            depth += 1
        elif ch in ")]}":
            if depth == 0:
                items.append(body[start:k])
                break
            depth -= 1
        elif ch == "," and depth == 0:
            items.append(body[start:k])
            start = k + 1
        k += 1
    return [x.strip() for x in items if x.strip()]


def main():
    if len(sys.argv) != 3:
        die("usage: c15_kip_limits.py <repo_root> <gen_dir>")
    repo, gen = sys.argv[1], sys.argv[2]
    base = os.path.join(repo, "rs", "anda_kip", "src")

    def load(rel):
        p = os.path.join(base, rel)
        if not os.path.exists(p):
            die(f"missing source file {p}")
        return cut_tests(strip_comments(open(p, encoding="utf-8").read()))

    parser = load("parser.rs")
    json_rs = load(os.path.join("parser", "json.rs"))
    common = load(os.path.join("parser", "common.rs"))
    kql = load(os.path.join("parser", "kql.rs"))
    kml = load(os.path.join("parser", "kml.rs"))
    meta = load(os.path.join("parser", "meta.rs"))

    # ---- limits -----------------------------------------------------------------------------
    max_len = const_expr(parser, "MAX_KIP_INPUT_LEN", "parser.rs")
    max_depth = const_expr(parser, "MAX_KIP_NESTING_DEPTH", "parser.rs")

    # every parse_* entry point calls the budget first
    entry_points = []
    for ep in ["parse_kip", "parse_kql", "parse_kml", "parse_meta", "parse_json"]:
        b = fn_body(parser, ep, "parser.rs")
        stmts = b.strip()
        if not re.match(r"validate_parser_budget\s*\(\s*input\s*\)\s*\?\s*;", stmts):
            die(f"parser.rs: `{ep}` does not start with `validate_parser_budget(input)?;`")
        entry_points.append(ep)

    # ---- the pre-scan -----------------------------------------------------------------------
    vb = fn_body(parser, "validate_parser_budget", "parser.rs")
    flat = re.sub(r"\s+", " ", vb)
    if not re.search(r"input\s*\.\s*len\s*\(\s*\)\s*>\s*MAX_KIP_INPUT_LEN", flat):
        die("parser.rs: validate_parser_budget: length test `input.len() > MAX_KIP_INPUT_LEN` not found")
    if not re.search(r"for\s+\w+\s+in\s+input\s*\.\s*chars\s*\(\s*\)", flat):
        die("parser.rs: validate_parser_budget: does not iterate `input.chars()`")
    # the stack is whatever local is pushed to (names of locals are not part of the meaning)
    m = re.findall(r"((?:" + CHAR + r"\s*\|\s*)*" + CHAR + r")\s*=>\s*\{\s*(\w+)\s*\.\s*push\s*\(", flat)
    if len(m) != 1:
        die(f"parser.rs: validate_parser_budget: expected one push arm, found {len(m)}")
    openers = [unchar(x.group(0)) for x in re.finditer(CHAR, m[0][0])]
    stk = m[0][-1]
    if not re.search(stk + r"\s*\.\s*len\s*\(\s*\)\s*>\s*MAX_KIP_NESTING_DEPTH", flat):
        die("parser.rs: validate_parser_budget: depth test `<stack>.len() > MAX_KIP_NESTING_DEPTH` not found")
    closers = re.findall(
        r"(" + CHAR + r")\s*=>\s*\{\s*if\s+matches!\s*\(\s*" + stk + r"\s*\.\s*last\s*\(\s*\)\s*,\s*Some\s*\(\s*(" + CHAR
        + r")\s*\)\s*\)\s*\{\s*" + stk + r"\s*\.\s*pop\s*\(\s*\)\s*;\s*\}\s*\}", flat)
    pairs = [(unchar(c[0]), unchar(c[2])) for c in closers]
    if not pairs:
        die("parser.rs: validate_parser_budget: no `closer => if matches!(<stack>.last(), Some(opener)) pop` arm found")
    if len(set(p[0] for p in pairs)) != len(pairs):
        die("parser.rs: validate_parser_budget: a closer has two arms")
    if len(re.findall(stk + r"\s*\.\s*pop\b", flat)) != len(pairs) or len(re.findall(stk + r"\s*\.\s*push\b", flat)) != 1:
        die("parser.rs: validate_parser_budget: push/pop sites do not match the recognised arms")
    pairs.sort(key=lambda p: p[0])  # the order of the arms carries no meaning
    if not re.search(r"if\s+(\w+)\s*\{\s*if\s+\w+\s*==\s*'\\n'\s*\{\s*\1\s*=\s*false", flat):
        die("parser.rs: validate_parser_budget: line-comment exit on '\\n' not found")
    if not re.search(r"'\\\\'\s*=>\s*\w+\s*=\s*true", flat):
        die("parser.rs: validate_parser_budget: escape arm `'\\\\' => <escaped> = true` not found")
    ms = re.search(r"'\"'\s*=>\s*(\w+)\s*=\s*false", flat)
    if not ms or not re.search(r"'\"'\s*=>\s*" + ms.group(1) + r"\s*=\s*true", flat):
        die("parser.rs: validate_parser_budget: string open/close arms not found")
    if not re.search(r"if\s+\w+\s*==\s*'/'\s*\{\s*if\s+(\w+)\s*\{\s*\w+\s*=\s*true\s*;\s*\1\s*=\s*false", flat):
        die("parser.rs: validate_parser_budget: `//` detection not found")

    # ---- skip_ws_and_comments ---------------------------------------------------------------
    sk = re.sub(r"\s+", " ", fn_body(json_rs, "skip_ws_and_comments", "parser/json.rs"))
    m = re.findall(r'starts_with\s*\(\s*"([^"]*)"\s*\)', sk)
    if len(m) != 1:
        die("parser/json.rs: skip_ws_and_comments: expected one starts_with(\"..\")")
    comment_intro = m[0]
    m = re.findall(r"find\s*\(\s*(" + CHAR + r")\s*\)", sk)
    if len(m) != 1:
        die("parser/json.rs: skip_ws_and_comments: expected one find('..')")
    comment_end = unchar(m[0][0])
    if not re.search(r"trim_start_matches\s*\(\s*\|\s*\w+\s*:\s*char\s*\|\s*\w+\s*\.\s*is_whitespace\s*\(\s*\)\s*\)", sk):
        die("parser/json.rs: skip_ws_and_comments: whitespace is no longer `char::is_whitespace`")

    # ---- word_boundary ----------------------------------------------------------------------
    wb = re.sub(r"\s+", " ", fn_body(common, "word_boundary", "parser/common.rs"))
    m = re.search(r"is_alphanumeric\s*\(\s*\)\s*\|\|\s*matches!\s*\(\s*\w+\s*,\s*((?:" + CHAR + r"\s*\|\s*)*" + CHAR + r")\s*\)", wb)
    if not m or not re.search(r"\bnot\s*\(\s*verify\s*\(\s*anychar", wb):
        die("parser/common.rs: word_boundary: `not(verify(anychar, |c| c.is_alphanumeric() || matches!(c, ..)))` not found")
    boundary_extra = [unchar(x.group(0)) for x in re.finditer(CHAR, m.group(1))]
    wd = re.sub(r"\s+", " ", fn_body(common, "word", "parser/common.rs"))
    if not re.search(r"terminated\s*\(\s*tag_no_case\s*\(\s*w\s*\)\s*,\s*word_boundary\s*\(\s*\)\s*\)", wd):
        die("parser/common.rs: word: is no longer `terminated(tag_no_case(w), word_boundary())`")

    # ---- trivia1 (between the words of a multi-word keyword) ---------------------------------
    t1 = re.sub(r"\s+", " ", fn_body(common, "trivia1", "parser/common.rs"))
    if re.search(r"take_while1\s*\(\s*\|\s*(\w+)\s*:\s*char\s*\|\s*\1\s*\.\s*is_whitespace\s*\(\s*\)\s*\)", t1) and "multispace" not in t1:
        trivia1_ws = "char::is_whitespace"
    elif re.search(r"\bmultispace1\b", t1):
        trivia1_ws = "multispace1"
    else:
        die("parser/common.rs: trivia1: whitespace class not recognised (expected take_while1(|c: char| c.is_whitespace()))")
    if not re.search(r'peek\s*\(\s*tag\s*\(\s*"//"\s*\)\s*\)', t1) or not re.search(r"skip_ws_and_comments\s*\(\s*\w+\s*\)", t1):
        die("parser/common.rs: trivia1: is no longer `alt((whitespace1, peek(tag(\"//\")))) then skip_ws_and_comments`")
    wds = re.sub(r"\s+", " ", fn_body(common, "words", "parser/common.rs"))
    if not re.search(r"trivia1\s*\(", wds) or not re.search(r"tag_no_case\s*\(", wds) or not re.search(r"word_boundary\s*\(\s*\)", wds):
        die("parser/common.rs: words: is no longer trivia1 / tag_no_case / word_boundary")

    # ---- parse_kip alt order ----------------------------------------------------------------
    pk = fn_body(parser, "parse_kip", "parser.rs")
    order = []
    for it in alt_items(pk, "parser.rs: parse_kip"):
        m = re.match(r"map\s*\(\s*(\w+)::(\w+)\s*,\s*Command::(\w+)\s*\)", it)
        if not m:
            die(f"parser.rs: parse_kip: unrecognised alternative `{it[:60]}`")
        order.append((m.group(1), m.group(2), m.group(3)))
    fams = [o[2].lower() for o in order]
    if sorted(fams) != ["kml", "kql", "meta"]:
        die(f"parser.rs: parse_kip: alternatives are {fams}, expected kql/kml/meta once each")

    # ---- head keywords ----------------------------------------------------------------------
    heads = {"kql": [], "kml": [], "meta": []}
    # KQL: parse_kql_query starts with FIND
    heads["kql"].append(first_keyword(fn_body(kql, "parse_kql_query", "parser/kql.rs"), "kql.rs: parse_kql_query"))

    # KML: MUTATE or one mutation_clause alternative
    ks = fn_body(kml, "parse_kml_statement", "parser/kml.rs")
    heads["kml"].append(first_keyword(ks, "kml.rs: parse_kml_statement"))
    if "mutation_clause" not in ks:
        die("parser/kml.rs: parse_kml_statement no longer uses mutation_clause")
    removal_body = re.sub(r"\s+", " ", fn_body(kml, "removal", "parser/kml.rs"))
    for it in alt_items(fn_body(kml, "mutation_clause", "parser/kml.rs"), "kml.rs: mutation_clause"):
        m = re.match(r"map\s*\(\s*\|\s*\w+\s*\|\s*removal\s*\(\s*\"([A-Z_]+)\"", it)
        if m:
            if not re.search(r"ws\s*\(\s*word\s*\(\s*verb\s*\)\s*\)", removal_body):
                die("parser/kml.rs: removal no longer starts with ws(word(verb))")
            heads["kml"].append(m.group(1))
            continue
        m = re.match(r"(?:map\s*\(\s*)?(\w+)\b", it)
        if not m:
            die(f"parser/kml.rs: mutation_clause: unrecognised alternative `{it[:60]}`")
        f = m.group(1)
        heads["kml"].append(first_keyword(fn_body(kml, f, "parser/kml.rs"), f"kml.rs: {f}"))

    # META
    for it in alt_items(fn_body(meta, "parse_meta_command", "parser/meta.rs"), "meta.rs: parse_meta_command"):
        m = re.match(r"(?:map\s*\(\s*)?(\w+)\b", it)
        if not m:
            die(f"parser/meta.rs: parse_meta_command: unrecognised alternative `{it[:60]}`")
        f = m.group(1)
        heads["meta"].append(first_keyword(fn_body(meta, f, "parser/meta.rs"), f"meta.rs: {f}"))

    for fam in heads:
        seen = []
        for h in heads[fam]:
            if not re.fullmatch(r"[A-Z]+", h):
                die(f"head keyword `{h}` of {fam} is not plain uppercase ASCII letters")
            if h not in seen:
                seen.append(h)
        heads[fam] = seen

    # ---- write ------------------------------------------------------------------------------
    def heads_lean(xs):
        return "[" + ",\n   ".join(lean_chars(x) for x in xs) + "]"

    out = []
    out.append("/-")
    out.append("GENERATED by bin/translate/c15_kip_limits.py from rs/anda_kip/src/parser.rs and")
    out.append("rs/anda_kip/src/parser/{json,common,kql,kml,meta}.rs on every run of bin/check C15.")
    out.append("Do not edit by hand: the committed copy is just the last output.")
    out.append("-/")
    out.append("namespace AndaVerif.Gen.KipLimits")
    out.append("")
    out.append("/-- `MAX_KIP_INPUT_LEN` (bytes). -/")
    out.append(f"def maxKipInputLen : Nat := {max_len}")
    out.append("/-- `MAX_KIP_NESTING_DEPTH`. -/")
    out.append(f"def maxKipNestingDepth : Nat := {max_depth}")
    out.append("/-- entry points that start with `validate_parser_budget(input)?;` -/")
    out.append("def budgetedEntryPoints : List String := [" + ", ".join(f'"{e}"' for e in entry_points) + "]")
    out.append("/-- characters `validate_parser_budget` pushes -/")
    out.append(f"def openers : List Char := {lean_chars(openers)}")
    out.append("/-- `(closer, opener)` arms of `validate_parser_budget`: the closer pops only that opener -/")
    out.append("def closerPairs : List (Char × Char) := [" + ", ".join(f"({lean_char(a)}, {lean_char(b)})" for a, b in pairs) + "]")
    out.append("/-- comment introducer / terminator of `skip_ws_and_comments` -/")
    out.append(f"def commentIntro : List Char := {lean_chars(comment_intro)}")
    out.append(f"def commentEnd : Char := {lean_char(comment_end)}")
    out.append("/-- non-alphanumeric characters that still glue to a keyword (`word_boundary`) -/")
    out.append(f"def boundaryExtra : List Char := {lean_chars(boundary_extra)}")
    out.append("/-- whitespace class `trivia1` requires between the words of a multi-word keyword -/")
    out.append(f'def trivia1Whitespace : String := "{trivia1_ws}"')
    out.append("/-- order of the families in `parse_kip`'s `alt` -/")
    out.append("def kipAltOrder : List String := [" + ", ".join(f'"{f}"' for f in fams) + "]")
    for fam in ["kql", "kml", "meta"]:
        out.append(f"/-- head keywords of the {fam.upper()} family, in source order -/")
        out.append(f"def {fam}Heads : List (List Char) :=\n  {heads_lean(heads[fam])}")
    out.append("")
    out.append(f"theorem gen_kip_limits : maxKipInputLen = {max_len} ∧ maxKipNestingDepth = {max_depth} := by decide")
    out.append(f"theorem gen_kip_head_counts : kqlHeads.length = {len(heads['kql'])} ∧ kmlHeads.length = {len(heads['kml'])} ∧ "
               f"metaHeads.length = {len(heads['meta'])} := by decide")
    out.append("")
    out.append("end AndaVerif.Gen.KipLimits")
    os.makedirs(gen, exist_ok=True)
    path = os.path.join(gen, "KipLimits.lean")
    text = "\n".join(out) + "\n"
    old = open(path, encoding="utf-8").read() if os.path.exists(path) else None
    if old != text:  # keep mtime stable when nothing changed (lake rebuilds less)
        open(path, "w", encoding="utf-8").write(text)
    print("GEN KipLimits.lean")


if __name__ == "__main__":
    main()
