#!/usr/bin/env python3
"""c16_kip_guard_tables.py <repo_root> <gen_dir>

Regenerates lean/AndaVerif/Gen/KipGuardTables.lean from the KIP parser sources:

  rs/anda_kip/src/parser/common.rs   PROTECTED_FIELDS
  rs/anda_kip/src/parser/kml.rs      ASSERTION_IMMUTABLE, EVIDENCE_IMMUTABLE, PROPOSITION_IMMUTABLE,
                                     ASSERT_MEMBERS, the variants `clause_where` gives a WHERE block,
                                     the selector names of `upsert_has_stable_identity_selector`
  rs/anda_kip/src/parser.rs          the step order of `parse_kip` / `parse_kml` (budget, grammar, validator, return) and
                                     the validator each arm of `validate_command` calls
  rs/anda_kip/src/request.rs         `Operation::parse`: text goes to `parse_kip`, a pre-parsed `ast` to `validate_command` first
  rs/anda_kip/src/ast.rs             the `MutationClause` variant list (variant, payload struct), per payload
                                     struct the mutation-relevant fields (name, block kind), the
                                     `UpdateAction` variant list, the arms of `MutationClause::handle`

Strict about meaning (a missing / duplicated marker is an error), tolerant about layout (works on a
comment-stripped copy; keys on names and nesting).
"""
import os
import re
import sys


def die(msg):
    print(f"c16_kip_guard_tables: {msg}", file=sys.stderr)
    sys.exit(1)


def strip_comments(src):
    """Removes // and /* */ comments; keeps string and char literals intact."""
    out = []
    i, n = 0, len(src)
    while i < n:
        c = src[i]
        if src.startswith("//", i):
            while i < n and src[i] != "\n":
                i += 1
        elif src.startswith("/*", i):
            depth = 1
            i += 2
            while i < n and depth:
                if src.startswith("/*", i):
                    depth += 1
                    i += 2
                elif src.startswith("*/", i):
                    depth -= 1
                    i += 2
                else:
                    if src[i] == "\n":
                        out.append("\n")
                    i += 1
        elif c == "r" and re.match(r'r#*"', src[i:]):
            m = re.match(r'r(#*)"', src[i:])
            closer = '"' + m.group(1)
            j = src.find(closer, i + len(m.group(0)))
            if j < 0:
                die("unterminated raw string")
            out.append(src[i:j + len(closer)])
            i = j + len(closer)
        elif c == '"':
            j = i + 1
            while j < n and src[j] != '"':
                j += 2 if src[j] == "\\" else 1
            out.append(src[i:j + 1])
            i = j + 1
        elif c == "'":
            # char literal or lifetime
            m = re.match(r"'(\\.|[^'\\])'", src[i:])
            if m:
                out.append(m.group(0))
                i += len(m.group(0))
            else:
                out.append(c)
                i += 1
        else:
            out.append(c)
            i += 1
    return "".join(out)


def matching(src, open_idx, open_ch, close_ch):
    """Index of the bracket matching src[open_idx] (string-literal aware)."""
    assert src[open_idx] == open_ch
    depth, i, n = 0, open_idx, len(src)
    while i < n:
        c = src[i]
        if c == '"':
            j = i + 1
            while j < n and src[j] != '"':
                j += 2 if src[j] == "\\" else 1
            i = j + 1
            continue
        if c == open_ch:
            depth += 1
        elif c == close_ch:
            depth -= 1
            if depth == 0:
                return i
        i += 1
    die(f"unbalanced {open_ch}")


def str_table(src, name, where):
    ms = list(re.finditer(r"\bconst\s+" + re.escape(name) + r"\s*:\s*&\s*\[\s*&\s*str\s*\]\s*=\s*&\s*\[", src))
    if len(ms) != 1:
        die(f"expected exactly one `const {name}: &[&str]` in {where}, found {len(ms)}")
    start = ms[0].end() - 1
    end = matching(src, start, "[", "]")
    body = src[start + 1:end]
    items = re.findall(r'"((?:\\.|[^"\\])*)"', body)
    rest = re.sub(r'"((?:\\.|[^"\\])*)"', "", body)
    if rest.replace(",", "").strip():
        die(f"{name} in {where} holds something that is not a string literal: {rest.strip()[:60]!r}")
    if not items:
        die(f"{name} in {where} is empty")
    if len(set(items)) != len(items):
        die(f"{name} in {where} has a duplicate entry")
    return items


def item_body(src, kind, name, where):
    ms = list(re.finditer(r"\bpub\s+" + kind + r"\s+" + re.escape(name) + r"\b[^{;]*\{", src))
    if len(ms) != 1:
        die(f"expected exactly one `pub {kind} {name}` in {where}, found {len(ms)}")
    start = ms[0].end() - 1
    return src[start + 1:matching(src, start, "{", "}")]


def fn_body(src, name, where):
    ms = list(re.finditer(r"\bfn\s+" + re.escape(name) + r"\s*(<[^>]*>)?\s*\(", src))
    if len(ms) != 1:
        die(f"expected exactly one `fn {name}` in {where}, found {len(ms)}")
    brace = src.find("{", ms[0].end())
    return src[brace + 1:matching(src, brace, "{", "}")]


def strip_attrs(body):
    return re.sub(r"#\s*\[[^\]]*\]", "", body)


def enum_variants(body, where):
    """[(Variant, payload-or-None)] of a comment-free enum body (tuple / unit / struct variants)."""
    body = strip_attrs(body)
    out, i, n = [], 0, len(body)
    while i < n:
        m = re.compile(r"\s*([A-Z]\w*)\s*").match(body, i)
        if not m:
            if body[i:].strip() == "":
                break
            die(f"cannot read an enum variant in {where} near {body[i:i + 40]!r}")
        name = m.group(1)
        i = m.end()
        payload = None
        if i < n and body[i] == "(":
            j = matching(body, i, "(", ")")
            payload = re.sub(r"\s+", "", body[i + 1:j])
            i = j + 1
        elif i < n and body[i] == "{":
            j = matching(body, i, "{", "}")
            payload = "{" + re.sub(r"\s+", "", body[i + 1:j]) + "}"
            i = j + 1
        out.append((name, payload))
        m = re.compile(r"\s*,?").match(body, i)
        i = m.end()
    return out


def struct_fields(body):
    body = strip_attrs(body)
    fields = []
    depth = 0
    cur = ""
    for ch in body:
        if ch in "<([{":
            depth += 1
        elif ch in ">)]}":
            depth -= 1
        if ch == "," and depth == 0:
            fields.append(cur)
            cur = ""
        else:
            cur += ch
    if cur.strip():
        fields.append(cur)
    out = []
    for f in fields:
        m = re.match(r"\s*pub\s+(r#)?(\w+)\s*:\s*(.+?)\s*$", f, re.S)
        if not m:
            die(f"cannot read struct field {f.strip()[:60]!r}")
        out.append((m.group(2), re.sub(r"\s+", "", m.group(3))))
    return out


# block kind of a field, by its declared type (the mutation-relevant projection)
TYPE_KINDS = [
    ("Option<Assignments>", "assign"),
    ("Assignments", "assign"),
    ("Vec<FacetAssignment>", "facets"),
    ("Option<Vec<String>>", "unset"),
    ("Vec<FacetUnset>", "facet_unsets"),
    ("Option<Vec<StructuralEdge>>", "edges"),
    ("Option<Vec<StructuralRemoval>>", "removals"),
    ("Vec<UpdateAction>", "actions"),
    ("Option<Vec<WhereClause>>", "where"),
    ("Vec<WhereClause>", "where"),
    ("ElementRef", "target"),
    ("Option<ObjectMatcher>", "match"),
]
MENTIONS = ["Assignments", "FacetAssignment", "FacetUnset", "StructuralEdge", "StructuralRemoval", "UpdateAction",
            "WhereClause", "ElementRef", "ObjectMatcher", "MutationValue", "BoundObject", "BoundValue", "UpdateExpr"]


def field_kind(struct, name, ty):
    for t, k in TYPE_KINDS:
        if ty == t:
            return k
    if any(m in ty for m in MENTIONS):
        die(f"{struct}.{name}: type {ty} mentions a mutation-relevant type in a shape this translator does not know")
    if name == "handle" and ty in ("String", "Option<String>"):
        return "handle" if ty == "String" else "opt_handle"
    if name == "confirm":
        return "confirm"
    return None


def lean_str(s):
    return '"' + s.replace("\\", "\\\\").replace('"', '\\"') + '"'


def lean_list(items, indent="  "):
    if not items:
        return "[]"
    return "[\n" + ",\n".join(indent + "  " + x for x in items) + "\n" + indent + "]"


def main():
    if len(sys.argv) != 3:
        die("usage: c16_kip_guard_tables.py <repo_root> <gen_dir>")
    repo, gen = sys.argv[1], sys.argv[2]
    base = os.path.join(repo, "rs", "anda_kip", "src")
    try:
        common = strip_comments(open(os.path.join(base, "parser", "common.rs")).read())
        kml = strip_comments(open(os.path.join(base, "parser", "kml.rs")).read())
        ast = strip_comments(open(os.path.join(base, "ast.rs")).read())
        parser_rs = strip_comments(open(os.path.join(base, "parser.rs")).read())
        request_rs = strip_comments(open(os.path.join(base, "request.rs")).read())
    except OSError as e:
        die(f"cannot read source: {e}")

    protected = str_table(common, "PROTECTED_FIELDS", "parser/common.rs")
    # the predicate must still consult the table (what it does with it is compared by the correspondence:
    # the matrix carries case / prefix / suffix variants of every entry)
    body = fn_body(common, "is_protected_field", "parser/common.rs")
    if "PROTECTED_FIELDS" not in body:
        die("is_protected_field no longer consults PROTECTED_FIELDS")
    assertion_imm = str_table(kml, "ASSERTION_IMMUTABLE", "parser/kml.rs")
    evidence_imm = str_table(kml, "EVIDENCE_IMMUTABLE", "parser/kml.rs")
    proposition_imm = str_table(kml, "PROPOSITION_IMMUTABLE", "parser/kml.rs")
    assert_members = str_table(kml, "ASSERT_MEMBERS", "parser/kml.rs")

    # upsert identity selectors: the array literal iterated in upsert_has_stable_identity_selector
    ub = fn_body(kml, "upsert_has_stable_identity_selector", "parser/kml.rs")
    m = re.search(r"\[([^\]]*)\]\s*\.\s*iter\s*\(\s*\)\s*\.\s*any", ub)
    if not m:
        die("upsert_has_stable_identity_selector: selector array literal not found")
    selectors = re.findall(r'"((?:\\.|[^"\\])*)"', m.group(1))
    if not selectors:
        die("upsert_has_stable_identity_selector: empty selector list")
    sel_kinds = sorted(set(re.findall(r"MatchValue::(\w+)\s*\(", ub)))
    if not sel_kinds:
        die("upsert_has_stable_identity_selector: accepted MatchValue kinds not found")

    # MutationClause variants
    variants = enum_variants(item_body(ast, "enum", "MutationClause", "ast.rs"), "MutationClause")
    if not variants:
        die("MutationClause has no variants")
    for v, p in variants:
        if p is None or not re.fullmatch(r"(crate::ast::)?\w+", p):
            die(f"MutationClause::{v} is not a one-struct tuple variant: {p}")
    variants = [(v, p.split("::")[-1]) for v, p in variants]

    structs = []
    seen = set()
    for _, s in variants:
        if s in seen:
            continue
        seen.add(s)
        rows = []
        for name, ty in struct_fields(item_body(ast, "struct", s, "ast.rs")):
            k = field_kind(s, name, ty)
            if k:
                rows.append((name, k))
        structs.append((s, rows))

    actions = enum_variants(item_body(ast, "enum", "UpdateAction", "ast.rs"), "UpdateAction")
    action_rows = []
    action_kind = {"Assignments": "assign", "FacetAssignment": "facet", "Vec<String>": "unset", "FacetUnset": "facet_unset",
                   "Vec<StructuralEdge>": "edges", "Vec<StructuralRemoval>": "removals"}
    for v, p in actions:
        if p not in action_kind:
            die(f"UpdateAction::{v} carries {p}, which this translator does not know")
        action_rows.append((v, action_kind[p]))

    # clause_where: which variants expose a WHERE block
    cw = fn_body(kml, "clause_where", "parser/kml.rs")
    where_variants = []
    for arm in re.finditer(r"((?:MutationClause::\w+\s*\(\s*\w+\s*\)\s*\|?\s*)+)=>\s*([^,]+),", cw):
        if "where_clauses" in arm.group(2):
            where_variants += re.findall(r"MutationClause::(\w+)", arm.group(1))
    if not where_variants:
        die("clause_where: no arm returns where_clauses")
    known = [v for v, _ in variants]
    for v in where_variants:
        if v not in known:
            die(f"clause_where names unknown variant {v}")
    where_variants = [v for v in known if v in where_variants]

    # MutationClause::handle: which variants bind a handle
    impl = re.search(r"impl\s+MutationClause\s*\{", ast)
    if not impl:
        die("impl MutationClause not found")
    ib = ast[impl.end():matching(ast, impl.end() - 1, "{", "}")]
    hb = fn_body(ib, "handle", "impl MutationClause")
    handle_variants = []
    for arm in re.finditer(r"((?:MutationClause::\w+\s*\(\s*\w+\s*\)\s*\|?\s*)+)=>\s*([^,]+),", hb):
        if "handle" in arm.group(2):
            handle_variants += re.findall(r"MutationClause::(\w+)", arm.group(1))
    handle_variants = [v for v in known if v in handle_variants]
    if not handle_variants:
        die("MutationClause::handle: no arm returns a handle")

    # the text route: in parse_kip / parse_kml the validator runs on the grammar's result before it is returned.
    # Keyed on what is called and in which order — the budget pre-scan, the KML grammar entry
    # (`kml::parse_kml_statement`, wherever it is handed to nom), the validator call that propagates its error,
    # the end of the function — with the private helpers of parser.rs inlined at their call sites (two levels),
    # so that moving the nom plumbing or the tail into a helper does not change what is extracted.
    local_fns = re.findall(r"\bfn\s+(\w+)", parser_rs)
    not_inlined = {"validate_command", "validate_parser_budget", "parse_kip", "parse_kml", "parse_kql", "parse_meta", "parse_json"}

    def expand(body, current, depth):
        if depth == 0:
            return body

        def repl(m):
            name = m.group(1)
            if name != current and name not in not_inlined and local_fns.count(name) == 1:
                return name + "{" + expand(fn_body(parser_rs, name, "parser.rs"), name, depth - 1) + "}("
            return m.group(0)
        return re.sub(r"(?<![:\w.])([a-z_]\w*)\s*\(", repl, body)

    def route(fn, validate_call, validate_name):
        body = fn_body(parser_rs, fn, "parser.rs")
        if re.search(r"\breturn\s+Ok\b", body):
            die(f"{fn}: an early `return Ok` bypasses the step order")
        text = expand(body, fn, 2)
        propagates = r"\s*(\?|\.\s*(map|and_then|and)\s*\()"
        marks = []
        for name, rx in [("budget", r"\bvalidate_parser_budget\s*\("), ("grammar", r"\bkml\s*::\s*parse_kml_statement\b"),
                         (validate_name, validate_call + propagates)]:
            ms = list(re.finditer(rx, text))
            if len(ms) != 1:
                die(f"{fn}: expected exactly one `{name}` step, found {len(ms)}")
            marks.append((ms[0].start(), name))
        marks.append((len(text), "return"))
        return [n for _, n in sorted(marks)]

    kip_order = route("parse_kip", r"\bvalidate_command\s*\(\s*&?\s*\w+\s*\)", "validate_command")
    kml_order = route("parse_kml", r"\bkml\s*::\s*validate_plan\s*\(\s*&?\s*\w+\s*\)", "validate_plan")
    # how the guards walk what they guard: every block / action / key, or only a first one
    SHORT = r"\.\s*(take|skip|first|next|nth|last|find|find_map|position|step_by|get|take_while|skip_while)\s*\("

    def enclosing_iterations(body, pos):
        """[(header, kind, inner)] of the for-loops and iterator-adaptor calls around `pos`, outermost first."""
        found = []
        for m in re.finditer(r"\bfor\s+[^{;]*?\bin\b([^{;]*)\{", body):
            start = m.end() - 1
            end = matching(body, start, "{", "}")
            if start < pos < end:
                found.append((m.start(), m.group(1), "for", body[start:end]))
        for m in re.finditer(r"\.\s*(\w+)\s*\(", body):
            start = m.end() - 1
            end = matching(body, start, "(", ")")
            if start < pos < end:
                head = body[max(0, m.start() - 160):m.start()]
                head = re.split(r"[;{}]", head)[-1]
                method = m.group(1)
                if method in ("try_for_each", "for_each", "all"):
                    found.append((m.start(), head, method, body[start:end]))
                elif re.search(SHORT, head + "." + method + "("):
                    # a closure fed from a chain that picks one element: a walk that is not `every`
                    found.append((m.start(), head + "." + method + "(", method, body[start:end]))
        return [(h, k, inner) for _, h, k, inner in sorted(found)]

    def is_every(it):
        h, k, inner = it
        if k == "for":
            return not (re.search(SHORT, h) or re.search(r"\bbreak\b", inner) or re.search(r"\breturn\s+Ok\b", inner))
        if k in ("try_for_each", "for_each", "all"):
            return not re.search(SHORT, h)
        return False

    # the functions of kml.rs (test module cut off), to follow a guard call up through private helpers
    kml_code = kml.split("#[cfg(test)]")[0]
    fns = []
    for m in re.finditer(r"\bfn\s+(\w+)\s*(<[^>]*>)?\s*\(", kml_code):
        brace = kml_code.find("{", m.end())
        semi = kml_code.find(";", m.end())
        if brace < 0 or (0 <= semi < brace):
            continue
        fns.append((m.group(1), brace, matching(kml_code, brace, "{", "}")))

    def containing(pos):
        best = None
        for name, a, b in fns:
            if a < pos < b and (best is None or a > best[1]):
                best = (name, a, b)
        return best

    def chains(pos, root, depth=4):
        """every chain of enclosing iterations (outermost first) from `root` down to the call at `pos`"""
        f = containing(pos)
        if f is None:
            die("a guard call outside any function")
        name, a, b = f
        here = enclosing_iterations(kml_code[a:b + 1], pos - a)
        if name == root or (root is None and depth == 0):
            return [here]
        if depth == 0:
            die(f"cannot follow the guard call up to {root}")
        sites = [m.start() for m in re.finditer(r"(?<![:\w.])" + re.escape(name) + r"\s*\(", kml_code) if not (a - 200 < m.start() < a)]
        sites = [p for p in sites if containing(p) and containing(p)[0] != name]
        if not sites:
            if root is None:
                return [here]
            die(f"{name} (which holds a guard call) is not called from {root}")
        out = []
        for p in sites:
            for up in chains(p, root, depth - 1):
                out.append(up + here)
        return out

    def verdict(its_list, where):
        vs = {"every" if all(is_every(it) for it in its) else "first" for its in its_list}
        if len(vs) != 1:
            die(f"{where}: the guard calls walk their subject in different ways")
        return vs.pop()

    imm = [m.start() for m in re.finditer(r"(?<![:\w.])guard_immutable_field\s*\(", kml_code) if containing(m.start()) and containing(m.start())[0] != "guard_immutable_field"]
    stru = [m.start() for m in re.finditer(r"(?<![:\w.])guard_structural_mutation\s*\(", kml_code) if containing(m.start()) and containing(m.start())[0] != "guard_structural_mutation"]
    if not imm or not stru:
        die("guard_update: a guard call is gone")
    imm_chains = [c for p in imm for c in chains(p, "guard_update")]
    stru_chains = [c for p in stru for c in chains(p, "guard_update")]
    for c in imm_chains:
        if len(c) < 3:
            die("guard_update: guard_immutable_field is no longer inside the three iterations kinds / actions / fields of SET FIELDS")
    for c in stru_chains:
        if len(c) < 2:
            die("guard_update: guard_structural_mutation is no longer inside the two iterations kinds / actions")
    scans = [
        ("guard_update.actions", verdict([[c[-2]] for c in imm_chains] + [[c[-1]] for c in stru_chains], "guard_update (actions)")),
        ("guard_update.kinds", verdict([[c[-3]] for c in imm_chains] + [[c[-2]] for c in stru_chains], "guard_update (kinds)")),
        ("guard_update.fields", verdict([[c[-1]] for c in imm_chains], "guard_update (fields)")),
    ]

    def innermost(call_rx, where, need_header=None):
        ps = [m.start() for m in re.finditer(call_rx, kml_code) if containing(m.start())]
        its = []
        for p in ps:
            name, a, b = containing(p)
            e = enclosing_iterations(kml_code[a:b + 1], p - a)
            if need_header is not None:
                e = [it for it in e if re.search(need_header, it[0])]
            if e:
                its.append([e[-1]])
        if not its:
            die(f"{where}: no guard call is inside an iteration over what it guards")
        return verdict(its, where)

    # the key checkers: the closures / functions of kml.rs that consult is_protected_field (whatever they are called)
    checkers = []
    for m in re.finditer(r"\blet\s+(\w+)\s*=\s*(move\s*)?\|[^|]*\|[^{;]*\{", kml_code):
        end = matching(kml_code, m.end() - 1, "{", "}")
        if re.search(r"\bis_protected_field\s*\(", kml_code[m.end():end]):
            checkers.append(m.group(1))
    for name, a, b in fns:
        inner_fns = [(n2, a2, b2) for n2, a2, b2 in fns if a < a2 and b2 < b]
        text = kml_code[a:b]
        if re.search(r"\bis_protected_field\s*\(", text) and not any(re.search(r"\bis_protected_field\s*\(", kml_code[a2:b2]) for _, a2, b2 in inner_fns):
            # a function whose own body (not a closure already listed) holds the call
            closures_here = [c for c in checkers if re.search(r"\blet\s+" + re.escape(c) + r"\s*=", text)]
            if not closures_here:
                checkers.append(name)
    checkers = sorted(set(checkers))
    if not checkers:
        die("validate_clause: nothing consults is_protected_field any more")
    chk = r"(?<![:\w.])(" + "|".join(re.escape(c) for c in checkers) + r")\s*\("
    # the walk over the actions of an UPDATE: the iteration over `.actions` around a key-checker call, followed up
    # through private helpers (the checker may be called from a per-action helper that a loop calls)
    act_its = []
    for m in re.finditer(chk, kml_code):
        if not containing(m.start()):
            continue
        for ch in chains(m.start(), None, 3):
            over = [it for it in ch if re.search(r"\bactions\b", it[0])]
            if over:
                act_its.append([over[-1]])
    if not act_its:
        die("validate_clause (UPDATE actions): no key check is inside an iteration over the actions")
    scans.append(("validate_clause.update_actions", verdict(act_its, "validate_clause (UPDATE actions)")))
    scans.append(("validate_clause.keys", innermost(r"\bis_protected_field\s*\(", "validate_clause (keys of a block)")))
    scans.append(("validate_clause.facets", innermost(chk[:-5] + r"\s*\(\s*&\s*\w+\s*\.\s*values\s*\)", "validate_clause (SET FACET blocks)")))
    scans.append(("validate_clause.unset_facets", innermost(chk[:-5] + r"\s*\(\s*&\s*\w+\s*\.\s*fields\s*\)", "validate_clause (UNSET FACET blocks)")))

    # validate_command: which validator a KML statement / an EXPORT CAPSULE selection is handed to
    # (looked for in validate_command and in the parser.rs helpers it calls, one level deep)
    vc = fn_body(parser_rs, "validate_command", "parser.rs")
    texts = [("validate_command", vc)]
    for callee in sorted(set(re.findall(r"(?<![:\w.])([a-z_]\w*)\s*\(", vc))):
        if callee != "validate_command" and len(re.findall(r"\bfn\s+" + re.escape(callee) + r"\s*(<[^>]*>)?\s*\(", parser_rs)) == 1:
            texts.append((callee, fn_body(parser_rs, callee, "parser.rs")))
    arms = []
    m = re.search(r"Command\s*::\s*Kml\s*\(\s*(\w+)\s*\)", vc)
    if not m:
        die("validate_command: no Command::Kml pattern")
    k = re.search(r"kml\s*::\s*(\w+)\s*\(\s*&?\s*" + re.escape(m.group(1)) + r"\s*\)", vc)
    if not k:
        die("validate_command: the KML statement is no longer handed to a kml:: validator")
    arms.append(("Kml", k.group(1)))
    if not re.search(r"MetaCommand\s*::\s*ExportCapsule\s*\(", vc):
        die("validate_command: no MetaCommand::ExportCapsule pattern")
    found = None
    for name, body in texts:
        e = re.search(r"kml\s*::\s*(validate_\w+)\s*\(", body if name != "validate_command" else re.sub(r"kml\s*::\s*" + re.escape(k.group(1)) + r"\s*\(", "(", body))
        if e:
            if not re.search(r"\.\s*is_empty\s*\(\s*\)", body) or "Err" not in body:
                die(f"{name}: the EXPORT CAPSULE selection is validated without refusing an empty one")
            if found:
                die("validate_command: the EXPORT CAPSULE selection is validated in two places")
            found = e.group(1)
    if not found:
        die("validate_command: the EXPORT CAPSULE selection is no longer validated")
    arms.append(("Meta::ExportCapsule", "nonempty+" + found))

    # the request route: Operation::parse hands text to parse_kip and a pre-parsed `ast` to validate_command
    # before it is cloned out
    impl_op = re.search(r"impl\s+Operation\s*\{", request_rs)
    if not impl_op:
        die("request.rs: impl Operation not found")
    op_body = request_rs[impl_op.end():matching(request_rs, impl_op.end() - 1, "{", "}")]
    pb = fn_body(op_body, "parse", "impl Operation")
    if len(re.findall(r"\bparse_kip\s*\(", pb)) != 1:
        die("Operation::parse: the `command` text no longer goes through exactly one parse_kip call")
    v = list(re.finditer(r"\bvalidate_command\s*\(\s*&?\s*(\w+)\s*\)\s*\?", pb))
    if len(v) != 1:
        die("Operation::parse: expected exactly one `validate_command(ast)?`")
    av = v[0].group(1)
    uses = [m.start() for m in re.finditer(r"\b" + re.escape(av) + r"\s*\.\s*clone\s*\(\s*\)", pb)]
    if not uses:
        die("Operation::parse: the validated `ast` no longer leaves through a clone")
    if min(uses) < v[0].start():
        die("Operation::parse: the pre-parsed `ast` is cloned out before validate_command ran")
    ast_order = ["validate_command", "return"]

    L = []
    L.append("/-")
    L.append("GENERATED by bin/translate/c16_kip_guard_tables.py from rs/anda_kip/src/{parser/common.rs,parser/kml.rs,ast.rs}.")
    L.append("Do not edit: rewritten on every check. Import-free data; the facts tying it to the model are in")
    L.append("AndaVerif/Props/C16.lean (`guards_cover_all_families`, `tables_nonempty`).")
    L.append("-/")
    L.append("namespace AndaVerif.Gen.KipGuardTables")
    L.append("")

    def table(name, items, doc):
        L.append(f"/-- {doc} -/")
        L.append(f"def {name} : List String := [" + ", ".join(lean_str(x) for x in items) + "]")
        L.append("")

    table("protectedFields", protected, "`PROTECTED_FIELDS` (parser/common.rs)")
    table("assertionImmutable", assertion_imm, "`ASSERTION_IMMUTABLE` (parser/kml.rs)")
    table("evidenceImmutable", evidence_imm, "`EVIDENCE_IMMUTABLE` (parser/kml.rs)")
    table("propositionImmutable", proposition_imm, "`PROPOSITION_IMMUTABLE` (parser/kml.rs)")
    table("assertMembers", assert_members, "`ASSERT_MEMBERS` (parser/kml.rs)")
    table("upsertSelectors", selectors, "selector names of `upsert_has_stable_identity_selector`")
    table("upsertSelectorKinds", sel_kinds, "`MatchValue` kinds a selector may carry")
    table("whereFamilies", where_variants, "variants for which `clause_where` returns a WHERE block")
    table("handleFamilies", handle_variants, "variants for which `MutationClause::handle` returns a handle")

    L.append("/-- `MutationClause` variants in declaration order with their payload struct (ast.rs) -/")
    L.append("def clauseFamilies : List (String × String) := " +
             lean_list([f"({lean_str(v)}, {lean_str(s)})" for v, s in variants]))
    L.append("")
    L.append("/-- per payload struct: the mutation-relevant fields (field name, block kind) in declaration order -/")
    L.append("def structBlocks : List (String × List (String × String)) := " +
             lean_list([f"({lean_str(s)}, [" + ", ".join(f"({lean_str(n)}, {lean_str(k)})" for n, k in rows) + "])"
                        for s, rows in structs]))
    L.append("")
    L.append("/-- `UpdateAction` variants with their block kind -/")
    L.append("def updateActions : List (String × String) := " +
             lean_list([f"({lean_str(v)}, {lean_str(k)})" for v, k in action_rows]))
    L.append("")
    L.append("/-- how each guard walks what it guards (`every` block / action / key, or only a `first` one): the loops of `guard_update` and `validate_clause` -/")
    L.append("def guardScans : List (String × String) := [" + ", ".join(f"({lean_str(a)}, {lean_str(b)})" for a, b in scans) + "]")
    L.append("")
    table("parseKipOrder", kip_order, "`parse_kip` (parser.rs): order of the budget scan, the grammar, `validate_command(&command)?` and the final `Ok(command)`")
    table("parseKmlOrder", kml_order, "`parse_kml` (parser.rs): the same with `kml::validate_plan(&statement)?`")
    table("operationAstOrder", ast_order, "`Operation::parse` (request.rs), arm of a pre-parsed `ast`: `validate_command(ast)?` and the `ast.clone()` that leaves; the `command` arm is `parse_kip(text)?`")
    L.append("/-- `validate_command`: the validator each arm hands the tree to -/")
    L.append("def validateCommandArms : List (String × String) := [" + ", ".join(f"({lean_str(a)}, {lean_str(b)})" for a, b in arms) + "]")
    L.append("")
    L.append("theorem gen_kip_guard_tables_nonempty :")
    L.append("    protectedFields ≠ [] ∧ assertionImmutable ≠ [] ∧ evidenceImmutable ≠ [] ∧ propositionImmutable ≠ [] ∧")
    L.append("    assertMembers ≠ [] ∧ clauseFamilies ≠ [] := by decide")
    L.append("")
    L.append("end AndaVerif.Gen.KipGuardTables")
    os.makedirs(gen, exist_ok=True)
    path = os.path.join(gen, "KipGuardTables.lean")
    text = "\n".join(L) + "\n"
    old = open(path).read() if os.path.exists(path) else None
    if old != text:
        open(path, "w").write(text)
    print("GEN KipGuardTables.lean")


if __name__ == "__main__":
    main()
