#!/usr/bin/env python3
"""c20_policy.py <repo_root> <gen_dir>

Regenerates lean/AndaVerif/Gen/BeliefPolicy.lean from
  rs/anda_cognitive_nexus/src/projection/policy.rs   (baseline / forecast constants, mode_exclusion table,
                                                      from_settings: refusal, custom suffix, threshold range)
  rs/anda_cognitive_nexus/src/kql/mod.rs             (the query context's evaluation instant: `time::now()` or `time::normalize(..)`)
  rs/anda_cognitive_nexus/src/projection/mod.rs      (classify: threshold comparisons and verdict order;
                                                      eligible: lifecycle table, stage order, window
                                                      comparisons, what it reads; aggregate: side filters, clamp)

Robust to behaviour-preserving rewrites: every function is read as its *linearised call tree* (calls of
functions defined in the same file are replaced by the callee's body, with the callee's parameters
renamed to the caller's argument names), parameters are identified by TYPE or position (never by name),
locals by what they are computed from, match arms are emitted in a canonical order (disjoint literal
patterns commute), and only semantic facts are emitted (no counts of helpers, no local names).
Strict about meaning: a missing / duplicated / ambiguous anchor is an error (exit 1, one line on stderr).
"""
import os, re, sys
from fractions import Fraction


def die(msg):
    print(f"c20_policy.py: {msg}", file=sys.stderr)
    sys.exit(1)


def strip_comments(src):
    """removes comments, keeps string literals"""
    out, i, n = [], 0, len(src)
    while i < n:
        c = src[i]
        if src.startswith("//", i):
            while i < n and src[i] != "\n":
                i += 1
        elif src.startswith("/*", i):
            depth, i = 1, i + 2
            while i < n and depth:
                if src.startswith("/*", i):
                    depth += 1; i += 2
                elif src.startswith("*/", i):
                    depth -= 1; i += 2
                else:
                    i += 1
        elif c == '"':
            j = i + 1
            while j < n and src[j] != '"':
                j += 2 if src[j] == "\\" else 1
            out.append(src[i:j + 1]); i = j + 1
        else:
            out.append(c); i += 1
    return "".join(out)


def cut_tests(src):
    m = re.search(r"#\[cfg\(test\)\]\s*(?:pub\s+)?mod\s+\w+", src)
    return src[:m.start()] if m else src


def skip_string(s, j):
    k = j + 1
    while k < len(s) and s[k] != '"':
        k += 2 if s[k] == "\\" else 1
    return k + 1


def matching(s, i, open_ch, close_ch):
    """index just after the bracket matching s[i] == open_ch (strings skipped)"""
    depth, j = 0, i
    while j < len(s):
        if s[j] == '"':
            j = skip_string(s, j); continue
        if s[j] == open_ch:
            depth += 1
        elif s[j] == close_ch:
            depth -= 1
            if depth == 0:
                return j + 1
        j += 1
    die("unbalanced brackets")


class Fn:
    def __init__(self, name, params, body):
        self.name, self.params, self.body = name, params, body   # params: [(name, type)] without self


def functions(src):
    """all fn items of a (comment-stripped, test-free) file: name -> Fn (a duplicated name is ambiguous)"""
    fns, dup = {}, set()
    for m in re.finditer(r"\bfn\s+([A-Za-z_]\w*)\s*(?:<[^>(]*>)?\s*\(", src):
        name = m.group(1)
        pe = matching(src, m.end() - 1, "(", ")")
        plist = src[m.end():pe - 1]
        k = pe
        # the body starts at the first `{` after the signature (skip the return type; `where` clauses do not occur here)
        while k < len(src) and src[k] not in "{;":
            k += 1
        if k >= len(src) or src[k] == ";":
            continue
        be = matching(src, k, "{", "}")
        params = []
        depth, cur = 0, ""
        for ch in plist + ",":
            if ch in "(<[":
                depth += 1
            elif ch in ")>]":
                depth -= 1
            if ch == "," and depth == 0:
                part = cur.strip(); cur = ""
                if not part or re.fullmatch(r"&?\s*(?:'\w+\s+)?(?:mut\s+)?self", part):
                    continue
                pm = re.match(r"(?:mut\s+)?(\w+)\s*:\s*(.*)$", part, re.S)
                if not pm:
                    die(f"cannot read a parameter of fn {name}: {part!r}")
                params.append((pm.group(1), re.sub(r"\s+", " ", pm.group(2).strip())))
            else:
                cur += ch
        if name in fns:
            dup.add(name)
        fns[name] = Fn(name, params, src[k + 1:be - 1])
    for d in dup:
        fns.pop(d, None)      # ambiguous names are never inlined (their callers keep the call)
    return fns


CALL = re.compile(r"(?:\bself\s*\.\s*|\bSelf\s*::\s*|\bPolicy\s*::\s*|(?<![\w.:]))([A-Za-z_]\w*)\s*(?:::<[^>()]*>)?\(")


def linearise(fns, name, stack=(), depth=0, keep=()):
    """body of fn `name` with every call of a function of the same file replaced by `{ <callee body> }`,
    the callee's parameters renamed to the caller's argument identifiers (when the argument is one)."""
    if name not in fns:
        die(f"fn {name} not found (or defined more than once)")
    body = fns[name].body
    if depth > 6:
        return body
    out, i = [], 0
    while True:
        m = CALL.search(body, i)
        if not m:
            out.append(body[i:]); break
        callee = m.group(1)
        if callee not in fns or callee in keep or callee == name or callee in stack or re.search(r"\bfn\s*$", body[:m.start()]):
            out.append(body[i:m.end()]); i = m.end(); continue
        ae = matching(body, m.end() - 1, "(", ")")
        args, d, cur = [], 0, ""
        for ch in body[m.end():ae - 1] + ",":
            if ch in "([{<":
                d += 1
            elif ch in ")]}>":
                d -= 1
            if ch == "," and d == 0:
                if cur.strip():
                    args.append(cur.strip())
                cur = ""
            else:
                cur += ch
        inner = linearise(fns, callee, stack + (name,), depth + 1, keep)
        for (pname, _), arg in zip(fns[callee].params, args):
            a = re.sub(r"^(?:&\s*mut\s+|&\s*|\*\s*)", "", arg).strip()
            if re.fullmatch(r"[A-Za-z_]\w*", a) and a != pname:
                inner = re.sub(rf"(?<![\w.]){re.escape(pname)}\b", a, inner)
        out.append(body[i:m.start()] + "{ " + inner + " }")
        i = ae
    return "".join(out)


def one(pattern, text, what, flags=0):
    ms = re.findall(pattern, text, flags)
    if len(ms) != 1:
        die(f"expected exactly one {what}, found {len(ms)}")
    return ms[0]


def param_by_type(fn, type_re, what):
    hits = [n for n, t in fn.params if re.search(type_re, t)]
    if len(hits) != 1:
        die(f"fn {fn.name}: expected exactly one parameter of type {what}, found {hits}")
    return hits[0]


def const_str(src, name):
    return one(rf'\bconst\s+{name}\s*:\s*&\s*(?:\'static\s+)?str\s*=\s*"([^"]*)"', src, f"const {name}")


def string_or_const(src, expr, what):
    """value of `"lit"…` or `CONST…` (e.g. `FORECAST_ID.to_string()`)"""
    m = re.match(r'\s*"([^"]*)"', expr)
    if m:
        return m.group(1)
    m = re.match(r"\s*(?:Self::|self::|super::)?([A-Z][A-Z0-9_]*)\b", expr)
    if m:
        return const_str(src, m.group(1))
    die(f"cannot evaluate {what}: {expr[:40]!r}")


def modes_of(text, what):
    m = one(r"\bmodes\s*:\s*vec!\s*\[(.*?)\]", text, f"`modes: vec![…]` in {what}", re.S)
    names = re.findall(r"AssertionMode::(\w+)", m)
    if not names:
        die(f"no AssertionMode in the mode list of {what}")
    return [n.lower() for n in names]


def lean_str_list(xs):
    return "[" + ", ".join('"' + x + '"' for x in xs) + "]"


def match_arms(text, scrutinee_re, what):
    """arms of the unique `match <scrutinee> { … }`: [(pattern text, guard or None, arm expression)]"""
    ms = list(re.finditer(rf"\bmatch\s+{scrutinee_re}\s*\{{", text))
    if len(ms) != 1:
        die(f"expected exactly one `match` on {what}, found {len(ms)}")
    start = ms[0].end() - 1
    end = matching(text, start, "{", "}")
    body = text[start + 1:end - 1]
    # split into arms at depth 0 on `=>`
    arms, j, depth, arm_start = [], 0, 0, 0
    heads = []
    while j < len(body):
        ch = body[j]
        if ch == '"':
            j = skip_string(body, j); continue
        if ch in "([{":
            depth += 1
        elif ch in ")]}":
            depth -= 1
        elif depth == 0 and body.startswith("=>", j):
            heads.append((arm_start, j)); j += 2
            # the arm expression: a block, or up to the next top-level comma
            k = j
            while k < len(body) and body[k].isspace():
                k += 1
            if k < len(body) and body[k] == "{":
                e = matching(body, k, "{", "}")
                # a block arm may be followed by method calls (rare) – stop at the comma or next pattern
            else:
                e, d = k, 0
                while e < len(body):
                    if body[e] == '"':
                        e = skip_string(body, e); continue
                    if body[e] in "([{":
                        d += 1
                    elif body[e] in ")]}":
                        d -= 1
                    elif body[e] == "," and d == 0:
                        break
                    e += 1
            arms.append((body[arm_start:heads[-1][1]].strip(), body[j:e].strip()))
            j = e
            while j < len(body) and (body[j].isspace() or body[j] == ","):
                j += 1
            arm_start = j
            continue
        j += 1
    out = []
    for head, expr in arms:
        g = re.match(r"(.*?)\s+if\s+(.*)$", head, re.S)
        out.append((g.group(1).strip(), g.group(2).strip(), expr) if g else (head, None, expr))
    return out, ms[0].start()


def main():
    if len(sys.argv) != 3:
        die("usage: c20_policy.py <repo_root> <gen_dir>")
    repo, gen = sys.argv[1], sys.argv[2]
    pol = cut_tests(strip_comments(open(os.path.join(repo, "rs/anda_cognitive_nexus/src/projection/policy.rs")).read()))
    mod = cut_tests(strip_comments(open(os.path.join(repo, "rs/anda_cognitive_nexus/src/projection/mod.rs")).read()))
    pf, mf = functions(pol), functions(mod)

    # ------------------------------------------------------------------ policy.rs: constants
    baseline_id = const_str(pol, "BASELINE_ID")
    baseline_version = int(one(r"\bconst\s+BASELINE_VERSION\s*:\s*u64\s*=\s*(\d+)", pol, "BASELINE_VERSION"))
    if "baseline" not in pf or "forecast" not in pf:
        die("Policy::baseline / Policy::forecast not found")
    base = pf["baseline"].body
    nums = {}
    for field in ("accept", "material", "unstated_confidence"):
        nums[field] = Fraction(one(rf"\b{field}\s*:\s*([0-9]+(?:\.[0-9]+)?)", base, f"`{field}:` in baseline()"))
    expand = one(r"\bexpand_conflicts\s*:\s*(true|false)", base, "`expand_conflicts:` in baseline()")
    den = 1
    while any((v * den).denominator != 1 for v in nums.values()):
        den *= 10
        if den > 10 ** 9:
            die("baseline thresholds are not finite decimals")
    base_modes = modes_of(base, "baseline()")
    base_id_expr = one(r"(?<![\w.])id\s*:\s*([^,}]+)", base, "`id:` in baseline()")
    if string_or_const(pol, base_id_expr, "the id of baseline()") != baseline_id:
        die("baseline() does not use BASELINE_ID")
    if not re.search(r"\bversion\s*:\s*BASELINE_VERSION\b", base):
        die("baseline() does not use BASELINE_VERSION")

    fc = pf["forecast"].body
    forecast_id = string_or_const(pol, one(r"(?<![\w.])id\s*:\s*([^,}]+)", fc, "`id:` in forecast()"), "the id of forecast()")
    fc_modes = modes_of(fc, "forecast()")
    if not re.search(r"\.\.\s*(?:Self|Policy)::baseline\(\)", fc):
        die("forecast() no longer inherits the remaining fields from baseline()")
    fc_nostr = re.sub(r'"(\\.|[^"\\])*"', '""', fc)
    extra = set(re.findall(r"(?<![:\w.])(\w+)\s*:(?!:)", fc_nostr)) - {"id", "modes"}
    if extra:
        die(f"forecast() overrides more than id and modes: {sorted(extra)}")

    # mode_exclusion (the method of Policy): variant | none | _  ->  reason, canonical order
    if "mode_exclusion" not in pf:
        die("Policy::mode_exclusion not found")
    arms, _ = match_arms(pf["mode_exclusion"].body, r"\w+", "the mode in Policy::mode_exclusion")
    excl = {}
    for pat, guard, expr in arms:
        if guard:
            die("guarded arm in Policy::mode_exclusion")
        reason = one(r'"([^"]*)"', expr, f"reason literal in the `{pat}` arm of mode_exclusion")
        for alt in [a.strip() for a in pat.split("|")]:
            m = re.fullmatch(r"Some\(\s*AssertionMode::(\w+)\s*\)", alt)
            key = m.group(1).lower() if m else ("none" if alt == "None" else ("_" if alt == "_" else None))
            if key is None or key in excl:
                die(f"mode_exclusion: unreadable or duplicate pattern {alt!r}")
            excl[key] = reason
    if "_" not in excl:
        die("mode_exclusion has no catch-all arm")
    excl_list = [(k, excl[k]) for k in sorted(k for k in excl if k not in ("none", "_"))] + \
                ([("none", excl["none"])] if "none" in excl else []) + [("_", excl["_"])]

    # from_settings (with private helpers inlined): known names, refusal, custom suffix
    fs = linearise(pf, "from_settings", keep=("baseline", "forecast"))
    suffix = one(r'format!\(\s*"\{\}([^"]*)"\s*,\s*\w+\.id\s*\)', fs, "the custom-id format! in from_settings")
    refusal = one(r"\bif\s+(\w+)\.material\s*(>=|>|<=|<)\s*\1\.accept\b", fs, "the material/accept comparison in from_settings")[1]
    # which names select which policy: every arm of the name match that yields baseline()/forecast()
    names = {"baseline": set(), "forecast": set()}
    for m in re.finditer(r'((?:"[^"]*"|[A-Z][A-Z0-9_]*)(?:\s*\|\s*(?:"[^"]*"|[A-Z][A-Z0-9_]*))*)\s*=>\s*(?:Ok\(\s*)?(?:Policy|Self)::(baseline|forecast)\(\)', fs):
        for alt in [a.strip() for a in m.group(1).split("|")]:
            names[m.group(2)].add(alt[1:-1] if alt.startswith('"') else const_str(pol, alt))
    if not names["baseline"] or not names["forecast"]:
        die("from_settings: the policy-name arms were not recognised")
    # threshold(): values inside the inclusive range are accepted, the others refused
    th = pf.get("threshold")
    if th is None:
        die("fn threshold not found")
    tm = re.search(r"\bif\s*(!?)\s*\(\s*([0-9.]+)\s*\.\.=\s*([0-9.]+)\s*\)\s*\.contains\([^)]*\)\s*\{", th.body)
    if not tm or len(re.findall(r"\.\.=", th.body)) != 1:
        die("threshold(): the inclusive range test was not recognised")
    then_end = matching(th.body, tm.end() - 1, "{", "}")
    then_has_err = "Err(" in th.body[tm.end():then_end]
    then_has_ok = "Ok(" in th.body[tm.end():then_end]
    if then_has_err == then_has_ok:
        die("threshold(): cannot tell which branch of the range test refuses")
    in_range_accepted = (tm.group(1) == "!") == then_has_err
    rng = (tm.group(2), tm.group(3))

    # ------------------------------------------------------------------ mod.rs: classify
    if "classify" not in mf:
        die("fn classify not found")
    cf = mf["classify"]
    if len(cf.params) != 4:
        die(f"classify: expected 4 parameters (support, opposition, ledger, policy), found {[p for p, _ in cf.params]}")
    p_sup, p_opp = cf.params[0][0], cf.params[1][0]
    p_led = param_by_type(cf, r"\bLedger\b", "&Ledger")
    p_pol = param_by_type(cf, r"\bPolicy\b", "&Policy")
    cl = linearise(mf, "classify")
    raw = re.findall(rf"\b({p_sup}|{p_opp})\s*(>=|<=|>|<)\s*{p_pol}\s*\.\s*(accept|material)\b", cl)
    cmps = [("support" if a == p_sup else "opposition", b, c) for a, b, c in raw]
    if len(cmps) != 6:
        die(f"classify: expected 6 threshold comparisons, found {len(cmps)}")
    rets = re.findall(r"BeliefStatus::(\w+)", cl)
    # the engagement test: the local computed from the ledger's group counts, whatever it is called
    em = re.findall(rf"\blet\s+(\w+)\s*=\s*([^;]*\b{p_led}\s*\.\s*support_groups[^;]*);", cl)
    if len(em) != 1:
        die(f"classify: expected exactly one local computed from `{p_led}.support_groups`, found {len(em)}")
    eng_name, engaged = em[0]
    term_re = rf"({p_led}\s*\.\s*support_groups\s*>\s*0|{p_led}\s*\.\s*opposition_groups\s*>\s*0|!\s*{p_led}\s*\.\s*uncertain\s*\.\s*is_empty\(\))"
    engaged_terms = [re.sub(r"\s+", "", re.sub(rf"\b{p_led}\s*\.\s*", "", t)) for t in re.findall(term_re, engaged)]
    engaged_ops = re.findall(r"\|\||&&", engaged)
    first_if = re.search(r"\bif\s+([^{]*)\{", cl[cl.index(engaged) + len(engaged):])
    not_engaged_first = bool(first_if and re.fullmatch(rf"!\s*{eng_name}\s*", first_if.group(1)))

    # ------------------------------------------------------------------ mod.rs: eligible (call tree)
    if "eligible" not in mf:
        die("fn eligible not found")
    ef = mf["eligible"]
    p_row = param_by_type(ef, r"\bAssertionRow\b", "&AssertionRow")
    p_epol = param_by_type(ef, r"\bPolicy\b", "&Policy")
    p_at = param_by_type(ef, r"^&\s*(?:'\w+\s+)?str$", "&str (the evaluation instant)")
    el = linearise(mf, "eligible")
    arms, status_pos = match_arms(el, rf"{p_row}\s*\.\s*status\s*\.\s*as_str\(\)", "row.status.as_str() in eligible")
    lifecycle, guarded = {}, 0
    for pat, guard, expr in arms:
        if guard:
            # a guarded arm makes the lifecycle table conditional: counted (pinned to 0), not tabulated
            guarded += 1
            continue
        lits = re.findall(r'"(\w+)"', expr)
        for alt in [a.strip() for a in pat.split("|")]:
            key = alt[1:-1] if alt.startswith('"') else ("_" if alt == "_" else None)
            if key is None:
                die(f"eligible: unreadable status pattern {alt!r}")
            if key == "active":
                # the active arm excludes nothing by lifecycle (it may carry the visibility test)
                lifecycle.setdefault(key, "")
            else:
                if len(set(lits)) != 1:
                    die(f"eligible: the `{key}` status arm does not name exactly one reason")
                if key in lifecycle:
                    die(f"eligible: duplicate status arm {key}")
                lifecycle[key] = lits[0]
    if "active" not in lifecycle or "_" not in lifecycle:
        die("eligible: the status match has no `active` or no catch-all arm")
    status_arms = [("active", "")] + [(k, lifecycle[k]) for k in sorted(k for k in lifecycle if k not in ("active", "_"))] + [("_", lifecycle["_"])]

    def pos(regex, what):
        ms = list(re.finditer(regex, el))
        if len(ms) != 1:
            die(f"eligible: expected exactly one {what}, found {len(ms)}")
        return ms[0]
    state_m = pos(rf"{p_row}\s*\.\s*state\s*!=\s*[\w:]*\bACTIVE\b", "visibility test `row.state != …ACTIVE`")
    not_visible = re.search(r'"(\w+)"', el[state_m.end():state_m.end() + 200])
    if not not_visible:
        die("eligible: no reason after the visibility test")
    from_m = pos(rf"{p_row}\s*\.\s*valid_from\s*\.\s*as_str\(\)\s*(>=|<=|>|<)\s*{p_at}\b", "valid_from comparison")
    until_m = pos(rf"{p_row}\s*\.\s*valid_until\s*\.\s*as_str\(\)\s*(>=|<=|>|<)\s*{p_at}\b", "valid_until comparison")
    admits_m = pos(rf"{p_epol}\s*\.\s*admits\(", "`policy.admits(` call")
    unstated_m = pos(rf"{p_row}\s*\.\s*confidence\s*(>=|<=|>|<)\s*0\.0", "unstated-confidence test")
    # both window tests are skipped for an empty bound
    for field in ("valid_from", "valid_until"):
        if not re.search(rf"!\s*{p_row}\s*\.\s*{field}\s*\.\s*is_empty\(\)\s*&&\s*{p_row}\s*\.\s*{field}\s*\.\s*as_str\(\)", el):
            die(f"eligible: the `{field}` test is no longer guarded by `!row.{field}.is_empty() &&`")
    window_reasons = sorted(set(re.findall(r'"(\w+)"', el[from_m.start():admits_m.start()])))
    stage_pos = {"status": status_pos, "state": state_m.start(), "valid_from": from_m.start(),
                 "valid_until": until_m.start(), "mode": admits_m.start(), "unstated": unstated_m.start()}
    stage_order = [k for k, _ in sorted(stage_pos.items(), key=lambda kv: kv[1])]
    # the lifecycle stage has no clock: the evaluation instant is read exactly in the two window tests
    at_uses = [m.start() for m in re.finditer(rf"(?<![\w.]){p_at}\b", el)]
    at_before_window = sum(1 for i in at_uses if i < from_m.start())
    row_fields = sorted(set(re.findall(rf"(?<![\w.]){p_row}\s*\.\s*(\w+)", el)))

    # ------------------------------------------------------------------ mod.rs: aggregate (call tree)
    ag = linearise(mf, "aggregate")
    clamp = one(r"\.clamp\(\s*([0-9.]+)\s*,\s*([0-9.]+)\s*\)", ag, "clamp(…) in aggregate")
    side_opp = bool(re.search(r'(\w+)\.opposes_target\s*\|\|\s*\1\.stance\s*==\s*"reject"', ag))
    side_sup = bool(re.search(r'!\s*(\w+)\.opposes_target\s*&&\s*\1\.stance\s*==\s*"support"', ag))
    if not (side_opp and side_sup):
        die("aggregate: the side filters are not the expected `opposes_target || reject` / `!opposes_target && support`")

    # ------------------------------------------------------------------ kql/mod.rs: where the evaluation instant comes from
    kql = cut_tests(strip_comments(open(os.path.join(repo, "rs/anda_cognitive_nexus/src/kql/mod.rs")).read()))
    kf = functions(kql)
    # the field of the query context that holds the instant: the one `project_belief`'s caller reads is `at`
    init = re.findall(r"(?<![\w.])at\s*:\s*([^,}]+)[,}]", kf["open"].body if "open" in kf else "")
    if len(init) != 1:
        die(f"kql Context::open: expected exactly one initialisation of the field `at`, found {len(init)}")
    initial_kind = "now" if re.search(r"\btime::now\(\)|(?<![\w.])now\(\)", init[0]) else "other"
    assign_kinds = set()
    n_assign = 0
    for name in kf:
        if name == "open":
            continue
        body = linearise(kf, name)
        for m in re.finditer(r"\b\w+\s*\.\s*at\s*=(?!=)\s*([^;]+);", body):
            n_assign += 1
            assign_kinds.add("normalize" if re.search(r"\bnormalize\(", m.group(1)) else "raw")
    if n_assign == 0:
        die("kql/mod.rs: no assignment to the context's evaluation instant (`.at = …`) found")

    q = lambda f: int(f * den)
    lines = []
    w = lines.append
    w("/-")
    w("GENERATED by bin/translate/c20_policy.py from rs/anda_cognitive_nexus/src/projection/{policy,mod}.rs.")
    w("Do not edit: regenerated on every check. Import-free data plus kernel-checked facts.")
    w("-/")
    w("namespace AndaVerif.Gen.BeliefPolicy")
    w("")
    w(f'def baselineId : String := "{baseline_id}"')
    w(f'def forecastId : String := "{forecast_id}"')
    w(f'def customSuffix : String := "{suffix}"')
    w(f"def baselineVersion : Nat := {baseline_version}")
    w("/-- common denominator of the three baseline numbers -/")
    w(f"def baselineDen : Nat := {den}")
    w(f"def baselineAccept : Int := {q(nums['accept'])}")
    w(f"def baselineMaterial : Int := {q(nums['material'])}")
    w(f"def baselineUnstated : Int := {q(nums['unstated_confidence'])}")
    w(f"def baselineExpand : Bool := {expand}")
    w(f"def baselineModes : List String := {lean_str_list(base_modes)}")
    w(f"def forecastModes : List String := {lean_str_list(fc_modes)}")
    w("/-- `Policy::mode_exclusion`: (mode | \"none\" | \"_\") ↦ reason (specific modes sorted, then none, then the catch-all) -/")
    w("def modeExclusion : List (String × String) := [" + ", ".join(f'("{k}", "{v}")' for k, v in excl_list) + "]")
    w("/-- the names `from_settings` accepts for each policy (sorted) -/")
    w(f"def baselineNames : List String := {lean_str_list(sorted(names['baseline']))}")
    w(f"def forecastNames : List String := {lean_str_list(sorted(names['forecast']))}")
    w("/-- `from_settings` refuses when `material <op> accept` -/")
    w(f'def settingsRefusal : String := "{refusal}"')
    w("/-- `threshold`: the inclusive range, and whether values inside it are the accepted ones -/")
    w(f'def thresholdRange : String × String := ("{rng[0]}", "{rng[1]}")')
    w(f"def thresholdInRangeAccepted : Bool := {'true' if in_range_accepted else 'false'}")
    w("/-- `classify`: the threshold comparisons in textual order -/")
    w("def classifyComparisons : List (String × String × String) := [" + ", ".join(f'("{a}", "{b}", "{c}")' for a, b, c in cmps) + "]")
    w(f"def classifyReturns : List String := {lean_str_list(rets)}")
    w(f"def engagedTerms : List String := {lean_str_list(engaged_terms)}")
    w(f"def engagedOps : List String := {lean_str_list(engaged_ops)}")
    w("/-- the first test of `classify` is `!engaged` -/")
    w(f"def notEngagedTestedFirst : Bool := {'true' if not_engaged_first else 'false'}")
    w("/-- `eligible`: status string ↦ lifecycle exclusion reason (\"\" = passes); active, then sorted, then the catch-all -/")
    w("def statusArms : List (String × String) := [" + ", ".join(f'("{k}", "{v}")' for k, v in status_arms) + "]")
    w(f'def notVisibleReason : String := "{not_visible.group(1)}"')
    w(f'def validFromExcludedWhen : String := "{from_m.group(1)}"')
    w(f'def validUntilExcludedWhen : String := "{until_m.group(1)}"')
    w(f"def windowReasons : List String := {lean_str_list(window_reasons)}")
    w(f'def unstatedWhenConfidence : String := "{unstated_m.group(1)} 0"')
    w("/-- the order in which `eligible` (with its helpers inlined) runs its tests -/")
    w(f"def eligibleStageOrder : List String := {lean_str_list(stage_order)}")
    w(f'def clampBounds : String × String := ("{clamp[0]}", "{clamp[1]}")')
    w("/-- how often `eligible` (helpers inlined) reads the evaluation instant, and how often before the window stage -/")
    w(f"def evaluationInstantReads : Nat × Nat := ({len(at_uses)}, {at_before_window})")
    w("/-- guarded arms (`\"x\" if … =>`) in the status match of `eligible` -/")
    w(f"def guardedStatusArms : Nat := {guarded}")
    w("/-- the row columns `eligible` (helpers inlined) reads -/")
    w(f"def eligibleRowColumns : List String := {lean_str_list(row_fields)}")
    w("/-- kql: what the query context's evaluation instant is initialised with, and what is ever assigned to it -/")
    w(f'def contextInstantInitial : String := "{initial_kind}"')
    w(f"def contextInstantAssigned : List String := {lean_str_list(sorted(assign_kinds))}")
    w("")
    w("-- facts the model and the theorems rely on (fail to check when the source drifts)")
    w("theorem gen_baseline_den_pos : 0 < baselineDen := by decide")
    w("theorem gen_baseline_thresholds_ordered : 0 ≤ baselineMaterial ∧ baselineMaterial ≤ baselineAccept ∧ baselineAccept ≤ baselineDen := by decide")
    w("theorem gen_unstated_strictly_inside : 0 < baselineUnstated ∧ baselineUnstated < baselineDen := by decide")
    w('theorem gen_baseline_modes : baselineModes = ["observed", "stated", "inferred", "imported"] := by decide')
    w('theorem gen_forecast_modes : forecastModes = ["predicted", "inferred"] := by decide')
    w('theorem gen_mode_exclusion : modeExclusion = [("hypothetical", "hypothetical_not_requested"), ("predicted", "prediction_not_requested"), ("none", "invalid_schema"), ("_", "policy_excluded")] := by decide')
    w('theorem gen_policy_names : baselineNames = ["baseline", "kip:policy:baseline"] ∧ forecastNames = ["forecast", "kip:policy:forecast"] ∧ baselineId = "kip:policy:baseline" ∧ forecastId = "kip:policy:forecast" := by decide')
    w('theorem gen_settings_refusal : settingsRefusal = ">" ∧ thresholdRange = ("0.0", "1.0") ∧ thresholdInRangeAccepted = true ∧ customSuffix = "+custom" := by decide')
    w('theorem gen_classify_skeleton : classifyComparisons = [("support", ">=", "accept"), ("opposition", "<", "material"), ("opposition", ">=", "accept"), ("support", "<", "material"), ("support", ">=", "material"), ("opposition", ">=", "material")] ∧ classifyReturns = ["Insufficient", "Accepted", "Rejected", "Contested", "Uncertain"] := by decide')
    w('theorem gen_engaged : engagedTerms = ["support_groups>0", "opposition_groups>0", "!uncertain.is_empty()"] ∧ engagedOps = ["||", "||"] ∧ notEngagedTestedFirst = true := by decide')
    w('theorem gen_eligible_skeleton : statusArms = [("active", ""), ("expired", "expired"), ("retracted", "retracted"), ("superseded", "superseded"), ("_", "invalid_schema")] ∧ notVisibleReason = "not_visible" ∧ validFromExcludedWhen = ">" ∧ validUntilExcludedWhen = "<=" ∧ windowReasons = ["outside_valid_time"] ∧ unstatedWhenConfidence = "< 0" ∧ eligibleStageOrder = ["status", "state", "valid_from", "valid_until", "mode", "unstated"] ∧ clampBounds = ("0.0", "1.0") := by decide')
    w('theorem gen_lifecycle_stage_has_no_clock : evaluationInstantReads = (2, 0) ∧ guardedStatusArms = 0 ∧ eligibleRowColumns = ["_id", "asserted_by_key", "confidence", "evidence_ids", "mode", "stance", "state", "status", "valid_from", "valid_until"] := by decide')
    w('theorem gen_instant_is_normalised : contextInstantInitial = "now" ∧ contextInstantAssigned = ["normalize"] := by decide')
    w("")
    w("end AndaVerif.Gen.BeliefPolicy")
    os.makedirs(gen, exist_ok=True)
    path = os.path.join(gen, "BeliefPolicy.lean")
    text = "\n".join(lines) + "\n"
    if not os.path.exists(path) or open(path).read() != text:
        open(path, "w").write(text)
    print("GEN BeliefPolicy.lean")


if __name__ == "__main__":
    main()
