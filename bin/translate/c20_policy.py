#!/usr/bin/env python3
"""c20_policy.py <repo_root> <gen_dir>

Regenerates lean/AndaVerif/Gen/BeliefPolicy.lean from
  rs/anda_cognitive_nexus/src/projection/policy.rs   (baseline / forecast constants, mode_exclusion table)
  rs/anda_cognitive_nexus/src/projection/mod.rs      (classify: threshold comparisons and return order;
                                                      eligible: status arms, window comparisons)
The model (Model/Belief.lean) takes the generated constants as its baseline policy, its exclusion
table and checks (in the generated facts) that the comparison skeleton it mirrors is still the
code's. Works on a comment-stripped copy; keys on names, not on layout. Strict: a missing,
duplicated or ambiguous marker is an error (exit 1 with one line on stderr), never a default.
"""
import os, re, sys
from fractions import Fraction


def die(msg):
    print(f"c20_policy.py: {msg}", file=sys.stderr)
    sys.exit(1)


def strip_comments(src):
    out, i, n = [], 0, len(src)
    while i < n:
        c = src[i]
        if src.startswith("//", i):
            while i < n and src[i] != "\n":
                i += 1
        elif src.startswith("/*", i):
            depth, i = 1, i + 2
            while i < n and depth:
                if src.startswith("/*", i):
                    depth += 1; i += 2
                elif src.startswith("*/", i):
                    depth -= 1; i += 2
                else:
                    i += 1
        elif c == '"':
            j = i + 1
            while j < n and src[j] != '"':
                j += 2 if src[j] == "\\" else 1
            out.append(src[i:j + 1]); i = j + 1
        else:
            out.append(c); i += 1
    return "".join(out)


def body_of(src, header_re, what):
    ms = list(re.finditer(header_re, src))
    if len(ms) != 1:
        die(f"expected exactly one `{what}`, found {len(ms)}")
    i = src.index("{", ms[0].end() - 1) if src[ms[0].end() - 1] != "{" else ms[0].end() - 1
    depth, j = 0, i
    while j < len(src):
        if src[j] == '"':
            k = j + 1
            while k < len(src) and src[k] != '"':
                k += 2 if src[k] == "\\" else 1
            j = k + 1
            continue
        if src[j] == "{":
            depth += 1
        elif src[j] == "}":
            depth -= 1
            if depth == 0:
                return src[i + 1:j]
        j += 1
    die(f"unbalanced braces in `{what}`")


def params_of(src, name):
    """Names of the (non-self) parameters of `fn name(...)`, in order."""
    ms = list(re.finditer(rf"fn\s+{name}\s*\(", src))
    if len(ms) != 1:
        die(f"expected exactly one `fn {name}`, found {len(ms)}")
    i = ms[0].end()
    depth, j = 1, i
    while j < len(src) and depth:
        depth += src[j] in "(<["
        depth -= src[j] in ")>]"
        j += 1
    names = []
    for part in re.split(r",(?![^<(]*[>)])", src[i:j - 1]):
        part = part.strip()
        if not part or re.fullmatch(r"&?\s*(mut\s+)?self", part):
            continue
        m = re.match(r"(?:mut\s+)?(\w+)\s*:", part)
        if not m:
            die(f"cannot read a parameter of `fn {name}`: {part!r}")
        names.append(m.group(1))
    return names


def one(pattern, text, what, flags=0):
    ms = re.findall(pattern, text, flags)
    if len(ms) != 1:
        die(f"expected exactly one {what}, found {len(ms)}")
    return ms[0]


def modes_of(text, what):
    m = one(r"modes\s*:\s*vec!\s*\[(.*?)\]", text, f"`modes: vec![…]` in {what}", re.S)
    names = re.findall(r"AssertionMode::(\w+)", m)
    if not names:
        die(f"no AssertionMode in the mode list of {what}")
    return [n.lower() for n in names]


def lean_str_list(xs):
    return "[" + ", ".join('"' + x + '"' for x in xs) + "]"


def main():
    if len(sys.argv) != 3:
        die("usage: c20_policy.py <repo_root> <gen_dir>")
    repo, gen = sys.argv[1], sys.argv[2]
    pol = strip_comments(open(os.path.join(repo, "rs/anda_cognitive_nexus/src/projection/policy.rs")).read())
    mod = strip_comments(open(os.path.join(repo, "rs/anda_cognitive_nexus/src/projection/mod.rs")).read())

    baseline_id = one(r'const\s+BASELINE_ID\s*:\s*&str\s*=\s*"([^"]*)"', pol, "BASELINE_ID")
    baseline_version = int(one(r"const\s+BASELINE_VERSION\s*:\s*u64\s*=\s*(\d+)", pol, "BASELINE_VERSION"))

    base = body_of(pol, r"pub\s+fn\s+baseline\s*\(\s*\)\s*->\s*Self\s*\{", "fn baseline")
    nums = {}
    for field in ("accept", "material", "unstated_confidence"):
        nums[field] = Fraction(one(rf"\b{field}\s*:\s*([0-9]+(?:\.[0-9]+)?)", base, f"`{field}:` in baseline()"))
    expand = one(r"\bexpand_conflicts\s*:\s*(true|false)", base, "`expand_conflicts:` in baseline()")
    den = 1
    while any((v * den).denominator != 1 for v in nums.values()):
        den *= 10
        if den > 10 ** 9:
            die("baseline thresholds are not finite decimals")
    base_modes = modes_of(base, "baseline()")

    fc = body_of(pol, r"pub\s+fn\s+forecast\s*\(\s*\)\s*->\s*Self\s*\{", "fn forecast")
    forecast_id = one(r'\bid\s*:\s*"([^"]*)"', fc, "`id:` in forecast()")
    fc_modes = modes_of(fc, "forecast()")
    if not re.search(r"\.\.\s*Self::baseline\(\)", fc):
        die("forecast() no longer inherits the remaining fields from baseline()")
    fc_nostr = re.sub(r'"(\\.|[^"\\])*"', '""', fc)
    extra = set(re.findall(r"(?<![:\w])(\w+)\s*:(?!:)", fc_nostr)) - {"id", "modes"}
    if extra:
        die(f"forecast() overrides more than id and modes: {sorted(extra)}")

    # mode_exclusion: arms `Some(AssertionMode::X) => "reason"`, `None => "reason"`, `_ => "reason"`
    me = body_of(pol, r"pub\s+fn\s+mode_exclusion\s*\(", "fn mode_exclusion")
    arms = re.findall(r'(Some\(\s*AssertionMode::(\w+)\s*\)|None|_)\s*=>\s*"([^"]*)"', me)
    if len(arms) < 3:
        die("mode_exclusion arms not recognised")
    excl = [((a[1].lower() if a[1] else ("none" if a[0] == "None" else "_")), a[2]) for a in arms]
    if len({k for k, _ in excl}) != len(excl):
        die("duplicate arm in mode_exclusion")

    # custom suffix and the material <= accept refusal in from_settings
    fs = body_of(pol, r"pub\s+fn\s+from_settings\s*\(", "fn from_settings")
    suffix = one(r'format!\(\s*"\{\}([^"]*)"\s*,\s*policy\.id\s*\)', fs, "the custom-id format! in from_settings")
    refusal = one(r"if\s+policy\.material\s*(>=|>|<=|<)\s*policy\.accept", fs, "the material/accept comparison in from_settings")
    th = body_of(pol, r"fn\s+threshold\s*\(", "fn threshold")
    rng = one(r"\(\s*([0-9.]+)\s*\.\.=\s*([0-9.]+)\s*\)\s*\.contains", th, "the inclusive range in threshold()")

    # classify: comparisons in textual order, and the order of the returned statuses
    cl = body_of(mod, r"fn\s+classify\s*\(", "fn classify")
    cp = params_of(mod, "classify")
    if len(cp) != 4:
        die(f"classify: expected 4 parameters (support, opposition, ledger, policy), found {cp}")
    p_sup, p_opp, p_led, p_pol = cp
    raw = re.findall(rf"\b({p_sup}|{p_opp})\s*(>=|<=|>|<)\s*{p_pol}\s*\.\s*(accept|material)\b", cl)
    cmps = [("support" if a == p_sup else "opposition", b, c) for a, b, c in raw]
    if len(cmps) != 6:
        die(f"classify: expected 6 threshold comparisons, found {len(cmps)}")
    rets = re.findall(r"BeliefStatus::(\w+)", cl)
    engaged = one(r"let\s+engaged\s*=\s*(.*?);", cl, "`let engaged =` in classify", re.S)
    engaged_terms = [re.sub(rf"\b{p_led}\s*\.\s*", "", t) for t in
                     re.findall(rf"({p_led}\s*\.\s*support_groups\s*>\s*0|{p_led}\s*\.\s*opposition_groups\s*>\s*0|!\s*{p_led}\s*\.\s*uncertain\s*\.\s*is_empty\(\))", engaged)]
    engaged_ops = re.findall(r"\|\||&&", engaged)

    # eligible: status arms, state check, window comparisons, unstated confidence
    el = body_of(mod, r"fn\s+eligible\s*\(", "fn eligible")
    ep = params_of(mod, "eligible")
    if len(ep) != 3:
        die(f"eligible: expected 3 parameters (row, policy, at), found {ep}")
    p_row, p_epol, p_at = ep
    status_arms = re.findall(r'"(\w+)"\s*=>\s*(?:\{\s*\}|return\s+reject\(\s*"(\w+)"\s*\))', el)
    other_arm = one(r'_\s*=>\s*return\s+reject\(\s*"(\w+)"\s*\)', el, "the `_ =>` status arm in eligible")
    not_visible = one(rf'if\s+{p_row}\.state\s*!=\s*[\w:]*ACTIVE\s*\{{\s*return\s+reject\(\s*"(\w+)"\s*\)', el, "the state check in eligible")
    from_cmp = one(rf"{p_row}\.valid_from\.as_str\(\)\s*(>=|<=|>|<)\s*{p_at}\b", el, "the valid_from comparison in eligible")
    until_cmp = one(rf"{p_row}\.valid_until\.as_str\(\)\s*(>=|<=|>|<)\s*{p_at}\b", el, "the valid_until comparison in eligible")
    window_reasons = re.findall(rf'{p_row}\.valid_(?:from|until)\.as_str\(\)[^{{]*\{{\s*return\s+reject\(\s*"(\w+)"\s*\)', el)
    unstated_cmp = one(rf"{p_row}\.confidence\s*(>=|<=|>|<)\s*0\.0", el, "the unstated-confidence test in eligible")
    # the lifecycle stage has no clock: the evaluation instant is read exactly twice in `eligible`
    # (the two window comparisons), never before the first window comparison, and the only row
    # columns read are the ones below (no `retracted_at`, `updated_at`, `superseded_by`, …)
    at_uses = [m.start() for m in re.finditer(rf"(?<![\w.]){p_at}\b", el)]
    first_window = re.search(rf"{p_row}\.valid_from", el)
    if not first_window:
        die("eligible: no valid_from test")
    at_before_window = sum(1 for i in at_uses if i < first_window.start())
    row_fields = sorted(set(re.findall(rf"\b{p_row}\.(\w+)", el)))
    # every arm of the status match must be unguarded (`"x" => …`, never `"x" if … => …`)
    status_match = re.search(rf"match\s+{p_row}\.status\.as_str\(\)\s*\{{", el)
    if not status_match:
        die("eligible: no `match row.status.as_str()`")
    depth, j = 1, status_match.end()
    while j < len(el) and depth:
        depth += el[j] == "{"
        depth -= el[j] == "}"
        j += 1
    status_body = el[status_match.end():j - 1]
    guarded_arms = len(re.findall(r'("\w+"|_)\s+if\b', status_body))

    # aggregate: the two side filters, clamp bounds, fold seed
    ag = body_of(mod, r"fn\s+aggregate\s*\(", "fn aggregate")
    clamp = one(r"\.clamp\(\s*([0-9.]+)\s*,\s*([0-9.]+)\s*\)", ag, "clamp(…) in aggregate")
    side_opp = bool(re.search(r'(\w+)\.opposes_target\s*\|\|\s*\1\.stance\s*==\s*"reject"', ag))
    side_sup = bool(re.search(r'!\s*(\w+)\.opposes_target\s*&&\s*\1\.stance\s*==\s*"support"', ag))
    if not (side_opp and side_sup):
        die("aggregate: the side filters are not the expected `opposes_target || reject` / `!opposes_target && support`")

    q = lambda f: int(f * den)
    lines = []
    w = lines.append
    w("/-")
    w("GENERATED by bin/translate/c20_policy.py from rs/anda_cognitive_nexus/src/projection/{policy,mod}.rs.")
    w("Do not edit: regenerated on every check. Import-free data plus kernel-checked facts.")
    w("-/")
    w("namespace AndaVerif.Gen.BeliefPolicy")
    w("")
    w(f'def baselineId : String := "{baseline_id}"')
    w(f'def forecastId : String := "{forecast_id}"')
    w(f'def customSuffix : String := "{suffix}"')
    w(f"def baselineVersion : Nat := {baseline_version}")
    w(f"/-- common denominator of the three baseline numbers -/")
    w(f"def baselineDen : Nat := {den}")
    w(f"def baselineAccept : Int := {q(nums['accept'])}")
    w(f"def baselineMaterial : Int := {q(nums['material'])}")
    w(f"def baselineUnstated : Int := {q(nums['unstated_confidence'])}")
    w(f"def baselineExpand : Bool := {expand}")
    w(f"def baselineModes : List String := {lean_str_list(base_modes)}")
    w(f"def forecastModes : List String := {lean_str_list(fc_modes)}")
    w("/-- `mode_exclusion`: (mode | \"none\" | \"_\") ↦ reason -/")
    w("def modeExclusion : List (String × String) := [" + ", ".join(f'("{k}", "{v}")' for k, v in excl) + "]")
    w(f'/-- `from_settings` refuses when `material <op> accept` -/')
    w(f'def settingsRefusal : String := "{refusal}"')
    w(f'def thresholdRange : String × String := ("{rng[0]}", "{rng[1]}")')
    w("/-- `classify`: the threshold comparisons in textual order -/")
    w("def classifyComparisons : List (String × String × String) := [" + ", ".join(f'("{a}", "{b}", "{c}")' for a, b, c in cmps) + "]")
    w(f"def classifyReturns : List String := {lean_str_list(rets)}")
    engaged_clean = [re.sub(r"\s+", "", t) for t in engaged_terms]
    w(f"def engagedTerms : List String := {lean_str_list(engaged_clean)}")
    w(f"def engagedOps : List String := {lean_str_list(engaged_ops)}")
    w("/-- `eligible`: status string ↦ exclusion reason (\"\" = passes) -/")
    w("def statusArms : List (String × String) := [" + ", ".join(f'("{k}", "{v}")' for k, v in status_arms) + f', ("_", "{other_arm}")]')
    w(f'def notVisibleReason : String := "{not_visible}"')
    w(f'def validFromExcludedWhen : String := "{from_cmp}"')
    w(f'def validUntilExcludedWhen : String := "{until_cmp}"')
    w(f"def windowReasons : List String := {lean_str_list(window_reasons)}")
    w(f'def unstatedWhenConfidence : String := "{unstated_cmp} 0"')
    w(f'def clampBounds : String × String := ("{clamp[0]}", "{clamp[1]}")')
    w("/-- how often `eligible` reads the evaluation instant, and how often before the window stage -/")
    w(f"def evaluationInstantReads : Nat × Nat := ({len(at_uses)}, {at_before_window})")
    w("/-- guarded arms (`\"x\" if … =>`) in the status match of `eligible` -/")
    w(f"def guardedStatusArms : Nat := {guarded_arms}")
    w("/-- the row columns `eligible` reads -/")
    w(f"def eligibleRowColumns : List String := {lean_str_list(row_fields)}")
    w("")
    w("-- facts the model and the theorems rely on (fail to check when the source drifts)")
    w("theorem gen_baseline_den_pos : 0 < baselineDen := by decide")
    w("theorem gen_baseline_thresholds_ordered : 0 ≤ baselineMaterial ∧ baselineMaterial ≤ baselineAccept ∧ baselineAccept ≤ baselineDen := by decide")
    w("theorem gen_unstated_strictly_inside : 0 < baselineUnstated ∧ baselineUnstated < baselineDen := by decide")
    w('theorem gen_baseline_modes : baselineModes = ["observed", "stated", "inferred", "imported"] := by decide')
    w('theorem gen_forecast_modes : forecastModes = ["predicted", "inferred"] := by decide')
    w('theorem gen_mode_exclusion : modeExclusion = [("hypothetical", "hypothetical_not_requested"), ("predicted", "prediction_not_requested"), ("none", "invalid_schema"), ("_", "policy_excluded")] := by decide')
    w('theorem gen_settings_refusal : settingsRefusal = ">" ∧ thresholdRange = ("0.0", "1.0") ∧ customSuffix = "+custom" := by decide')
    w('theorem gen_classify_skeleton : classifyComparisons = [("support", ">=", "accept"), ("opposition", "<", "material"), ("opposition", ">=", "accept"), ("support", "<", "material"), ("support", ">=", "material"), ("opposition", ">=", "material")] ∧ classifyReturns = ["Insufficient", "Accepted", "Rejected", "Contested", "Uncertain"] := by decide')
    w('theorem gen_engaged : engagedTerms = ["support_groups>0", "opposition_groups>0", "!uncertain.is_empty()"] ∧ engagedOps = ["||", "||"] := by decide')
    w('theorem gen_eligible_skeleton : statusArms = [("active", ""), ("retracted", "retracted"), ("superseded", "superseded"), ("expired", "expired"), ("_", "invalid_schema")] ∧ notVisibleReason = "not_visible" ∧ validFromExcludedWhen = ">" ∧ validUntilExcludedWhen = "<=" ∧ windowReasons = ["outside_valid_time", "outside_valid_time"] ∧ unstatedWhenConfidence = "< 0" ∧ clampBounds = ("0.0", "1.0") := by decide')
    w('theorem gen_lifecycle_stage_has_no_clock : evaluationInstantReads = (2, 0) ∧ guardedStatusArms = 0 ∧ eligibleRowColumns = ["_id", "asserted_by_key", "confidence", "evidence_ids", "mode", "stance", "state", "status", "valid_from", "valid_until"] := by decide')
    w("")
    w("end AndaVerif.Gen.BeliefPolicy")
    os.makedirs(gen, exist_ok=True)
    path = os.path.join(gen, "BeliefPolicy.lean")
    text = "\n".join(lines) + "\n"
    if not os.path.exists(path) or open(path).read() != text:
        open(path, "w").write(text)
    print("GEN BeliefPolicy.lean")


if __name__ == "__main__":
    main()
