#!/usr/bin/env python3
"""c16_kml_exec_tables.py <repo_root> <gen_dir>

Regenerates lean/AndaVerif/Gen/KmlExecTables.lean from the run-time side of UPDATE,
rs/anda_cognitive_nexus/src/kml/update.rs:

  apply_action        which applier each `UpdateAction` variant is handed to
  set_fields          the element-kind gate (`let Element::<K>(row) = element else { return Err(immutable_target(…)) }`)
                      and the arms of `match (field.as_str(), value)`: (field, accepted JSON shape, outcome)
  attributes_mut      the kinds whose arm yields `Ok(&mut row.attributes)`; every other kind -> immutable_target
  facets_mut          the kinds that own a facet map
  set_structural / unset_structural   the kind gate `if kind != ElementKind::<K> { return Err(immutable_target(…)) }`
  set_facet / unset_facet             must go through `facets_mut`
  immutable_target    the refusal code per element kind

Strict: a missing / duplicated anchor is an error. Tolerant: comment-stripped source, names and nesting only.
"""
import os
import re
import sys

sys.path.insert(0, os.path.dirname(os.path.abspath(__file__)))
from c16_kip_guard_tables import strip_comments, matching, fn_body, lean_str  # noqa: E402


def die(msg):
    print(f"c16_kml_exec_tables: {msg}", file=sys.stderr)
    sys.exit(1)


def arms_of(block):
    """[(head, body)] of a comment-free match block body (arms whose body is `{…}` or an expression up to the top-level comma)."""
    out, i, n = [], 0, len(block)
    while i < n:
        # head: up to the first `=>` at depth 0
        depth, j = 0, i
        while j < n:
            c = block[j]
            if c in "([{":
                depth += 1
            elif c in ")]}":
                depth -= 1
            elif c == '"':
                k = j + 1
                while k < n and block[k] != '"':
                    k += 2 if block[k] == "\\" else 1
                j = k
            elif depth == 0 and block.startswith("=>", j):
                break
            j += 1
        if j >= n:
            if block[i:].strip():
                die(f"cannot read a match arm near {block[i:i + 50]!r}")
            break
        head = block[i:j].strip()
        j += 2
        while j < n and block[j].isspace():
            j += 1
        if j < n and block[j] == "{":
            e = matching(block, j, "{", "}")
            body = block[j:e + 1]
            j = e + 1
        else:
            depth, e = 0, j
            while e < n:
                c = block[e]
                if c in "([{":
                    depth += 1
                elif c in ")]}":
                    depth -= 1
                elif c == '"':
                    k = e + 1
                    while k < n and block[k] != '"':
                        k += 2 if block[k] == "\\" else 1
                    e = k
                elif c == "," and depth == 0:
                    break
                e += 1
            body = block[j:e]
            j = e
        while j < n and (block[j].isspace() or block[j] == ","):
            j += 1
        out.append((head, body))
        i = j
    return out


def match_block(body, scrutinee_rx, where):
    ms = list(re.finditer(r"\bmatch\s+" + scrutinee_rx + r"\s*\{", body))
    if len(ms) != 1:
        die(f"{where}: expected exactly one `match {scrutinee_rx}`, found {len(ms)}")
    start = ms[0].end() - 1
    return body[start + 1:matching(body, start, "{", "}")]


KINDS = ["Concept", "Proposition", "Assertion", "Evidence", "Activity"]


def main():
    if len(sys.argv) != 3:
        die("usage: c16_kml_exec_tables.py <repo_root> <gen_dir>")
    repo, gen = sys.argv[1], sys.argv[2]
    path = os.path.join(repo, "rs", "anda_cognitive_nexus", "src", "kml", "update.rs")
    try:
        src = strip_comments(open(path).read())
    except OSError as e:
        die(f"cannot read source: {e}")

    # apply_action dispatch
    appliers = ["set_fields", "attributes_mut", "set_facet", "unset_facet", "set_structural", "unset_structural"]
    dispatch = []
    for head, body in arms_of(match_block(fn_body(src, "apply_action", "update.rs"), r"action", "apply_action")):
        vs = re.findall(r"UpdateAction\s*::\s*(\w+)", head)
        if not vs:
            die(f"apply_action: arm head without an UpdateAction variant: {head[:60]!r}")
        called = [(m.start(), a) for a in appliers for m in re.finditer(r"\b" + a + r"\s*\(", body)]
        if not called:
            die(f"apply_action: the arm of {vs} calls none of the known appliers")
        names = {a for _, a in called}
        if len(names) != 1:
            die(f"apply_action: the arm of {vs} calls several appliers {sorted(names)}")
        for v in vs:
            dispatch.append((v, called[0][1]))
    if len({v for v, _ in dispatch}) != len(dispatch):
        die("apply_action: an UpdateAction variant has two arms")

    # set_fields: gate + arms
    sf = fn_body(src, "set_fields", "update.rs")
    g = re.findall(r"let\s+Element\s*::\s*(\w+)\s*\(\s*\w+\s*\)\s*=\s*\w+\s*else\s*\{\s*return\s+Err\s*\(\s*immutable_target\s*\(", sf)
    if len(g) != 1:
        die("set_fields: the `let Element::<Kind>(row) = element else { return Err(immutable_target(…)) }` gate is gone or doubled")
    fields_kinds = g
    gate_pos = sf.find("immutable_target")
    match_pos = re.search(r"\bmatch\s+\(", sf)
    if not match_pos or match_pos.start() < gate_pos:
        die("set_fields: the kind gate no longer precedes the per-field match")
    core_arms, catch_all = [], None
    for head, body in arms_of(match_block(sf, r"\(\s*field\s*\.\s*as_str\s*\(\s*\)\s*,\s*value\s*\)", "set_fields")):
        if "Err" in body and re.search(r"\breturn\s+Err\b|^\s*Err\b", body):
            m = re.search(r"KipErrorCode\s*::\s*(\w+)", body)
            if m:
                outcome = m.group(1)
            elif re.search(r"KipError\s*::\s*type_mismatch\s*\(", body):
                outcome = "TypeMismatch"
            else:
                die(f"set_fields: cannot tell the refusal code of the arm {head[:50]!r}")
        else:
            outcome = "ok"
        pats = re.findall(r'\(\s*"((?:\\.|[^"\\])*)"\s*,\s*([^()]*(?:\([^()]*\))?)\s*\)', head)
        if pats:
            for name, pat in pats:
                pat = pat.strip()
                if pat == "_":
                    shape = "any"
                elif re.match(r"Json\s*::\s*String\s*\(", pat):
                    shape = "str"
                elif re.match(r"Json\s*::\s*Array\s*\(", pat):
                    shape = "arr"
                else:
                    die(f"set_fields: unknown value pattern {pat!r} for field {name}")
                core_arms.append((name, shape, outcome))
        elif re.fullmatch(r"\(\s*\w+\s*,\s*\w+\s*\)", head):
            if catch_all is not None:
                die("set_fields: two catch-all arms")
            catch_all = outcome
        else:
            die(f"set_fields: cannot read the arm head {head[:60]!r}")
    if catch_all is None or catch_all == "ok":
        die("set_fields: the catch-all arm no longer refuses")
    if not any(o == "ok" for _, _, o in core_arms):
        die("set_fields: no writable Core field left")

    # attributes_mut / facets_mut
    def kinds_of(fn, ok_rx):
        body = fn_body(src, fn, "update.rs")
        ok, other_refuses = [], False
        for head, b in arms_of(match_block(body, r"tx\s*\.\s*load\s*\(\s*id\s*\)\s*\.\s*await\s*\?", fn)):
            ks = re.findall(r"Element\s*::\s*(\w+)", head)
            if ks:
                if re.search(ok_rx, b):
                    ok += ks
                elif "immutable_target" not in b:
                    die(f"{fn}: the arm of {ks} neither yields the map nor refuses with immutable_target")
            elif re.fullmatch(r"\w+", head):
                if "immutable_target" not in b:
                    die(f"{fn}: the catch-all arm no longer refuses with immutable_target")
                other_refuses = True
            else:
                die(f"{fn}: cannot read the arm head {head[:60]!r}")
        for k in ok:
            if k not in KINDS:
                die(f"{fn}: unknown element kind {k}")
        if len(set(ok)) != len(ok):
            die(f"{fn}: a kind has two arms")
        if len(ok) < len(KINDS) and not other_refuses:
            die(f"{fn}: some kinds have no arm")
        return [k for k in KINDS if k in ok]

    attribute_kinds = kinds_of("attributes_mut", r"row\s*\.\s*attributes")
    facet_kinds = kinds_of("facets_mut", r"row\s*\.\s*facets")
    for fn in ("set_facet", "unset_facet"):
        if not re.search(r"\bfacets_mut\s*\(", fn_body(src, fn, "update.rs")):
            die(f"{fn} no longer goes through facets_mut")
    for v, a in dispatch:
        if a == "attributes_mut" and False:
            pass

    # structural gate
    structural_kinds = None
    for fn in ("set_structural", "unset_structural"):
        b = fn_body(src, fn, "update.rs")
        g = re.findall(r"if\s+kind\s*!=\s*ElementKind\s*::\s*(\w+)\s*\{\s*return\s+Err\s*\(\s*immutable_target\s*\(", b)
        if len(g) != 1:
            die(f"{fn}: the `if kind != ElementKind::<Kind> {{ return Err(immutable_target(…)) }}` gate is gone or doubled")
        first_write = re.search(r"\bstructural_mut\s*\(", b)
        if not first_write or b.find("immutable_target") > first_write.start():
            die(f"{fn}: the kind gate no longer precedes the write")
        if structural_kinds is None:
            structural_kinds = g
        elif structural_kinds != g:
            die("set_structural and unset_structural gate on different kinds")

    # immutable_target codes
    codes = []
    for head, b in arms_of(match_block(fn_body(src, "immutable_target", "update.rs"), r"kind", "immutable_target")):
        ks = re.findall(r"ElementKind\s*::\s*(\w+)", head)
        m = re.search(r"KipErrorCode\s*::\s*(\w+)", b)
        if not ks or not m:
            die(f"immutable_target: cannot read the arm {head[:50]!r}")
        for k in ks:
            codes.append((k, m.group(1)))
    if sorted(k for k, _ in codes) != sorted(KINDS):
        die(f"immutable_target: arms {sorted(k for k, _ in codes)} do not cover the five kinds exactly once")

    L = ["/-",
         "GENERATED by bin/translate/c16_kml_exec_tables.py from rs/anda_cognitive_nexus/src/kml/update.rs.",
         "Do not edit: rewritten on every check. Import-free data; `Model/KmlExec` interprets it.",
         "-/",
         "namespace AndaVerif.Gen.KmlExecTables", ""]

    def strs(name, items, doc):
        L.append(f"/-- {doc} -/")
        L.append(f"def {name} : List String := [" + ", ".join(lean_str(x) for x in items) + "]")
        L.append("")

    L.append("/-- `apply_action`: the applier each `UpdateAction` variant is handed to -/")
    L.append("def actionApplier : List (String × String) := [" + ", ".join(f"({lean_str(v)}, {lean_str(a)})" for v, a in dispatch) + "]")
    L.append("")
    strs("fieldsKinds", fields_kinds, "`set_fields`: the kinds that pass its gate")
    L.append("/-- `set_fields`: arms of the per-field match, in order: (field, accepted JSON shape, `ok` or refusal code) -/")
    L.append("def coreFieldArms : List (String × String × String) := [" + ", ".join(f"({lean_str(n)}, {lean_str(s)}, {lean_str(o)})" for n, s, o in core_arms) + "]")
    L.append("")
    L.append(f"/-- `set_fields`: the refusal of the catch-all arm -/\ndef coreFieldCatchAll : String := {lean_str(catch_all)}\n")
    strs("attributeKinds", attribute_kinds, "`attributes_mut`: the kinds that own author-writable attributes")
    strs("facetKinds", facet_kinds, "`facets_mut`: the kinds that own a facet map")
    strs("structuralKinds", structural_kinds, "`set_structural` / `unset_structural`: the kinds that pass the gate")
    L.append("/-- `immutable_target`: the refusal code per element kind -/")
    L.append("def immutableTargetCode : List (String × String) := [" + ", ".join(f"({lean_str(k)}, {lean_str(c)})" for k, c in codes) + "]")
    L.append("")
    L.append("theorem gen_kml_exec_tables_wf :")
    L.append("    actionApplier.length = 7 ∧ immutableTargetCode.length = 5 ∧ fieldsKinds ≠ [] ∧ structuralKinds ≠ [] ∧")
    L.append("    coreFieldCatchAll ≠ \"ok\" := by decide")
    L.append("")
    L.append("end AndaVerif.Gen.KmlExecTables")
    os.makedirs(gen, exist_ok=True)
    out = os.path.join(gen, "KmlExecTables.lean")
    text = "\n".join(L) + "\n"
    if not os.path.exists(out) or open(out).read() != text:
        open(out, "w").write(text)
    print("GEN KmlExecTables.lean")


if __name__ == "__main__":
    main()
