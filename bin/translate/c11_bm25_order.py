#!/usr/bin/env python3
"""C11: regenerates from rs/anda_db_tfs/src/bm25.rs the data-like parts of the BM25 model:

* `MAX_NOT_COMPLEMENT_DOCS`, `BM25Params::MAX_K1`, the default `(k1, b)` and the clamp bounds of
  `BM25Params::sanitized` (as thousandths);
* the four arms of `compare_scored_docs` (`match (a.1.is_nan(), b.1.is_nan())`), each classified as
  ids / greater / less / score-descending-then-ids / score-ascending-then-ids;
* the shape of `top_k_results` (select_nth at `top_k - 1`, truncate to `top_k`, final sort, all with
  `compare_scored_docs`);
* the order of effects inside `flush_with`: bucket object writes, the metadata commit, and the
  in-memory publication (last_saved_version, manifest, mark_bucket_saved); the generation expression;
  the ascending bucket order of the writes;
* `load_buckets`: the legacy switch (`manifest.is_empty()`).

Strict about meaning: a marker that is missing, duplicated or unclassifiable is an error."""
import re, sys
from fractions import Fraction
from common import *

repo, gen = sys.argv[1], sys.argv[2]
src = strip_rust_comments(read_source(repo, "rs/anda_db_tfs/src/bm25.rs"))
# the unit tests of the file are not part of the mechanism
mt = re.search(r"#\[cfg\(test\)\]\s*mod\s+tests\b", src)
if mt:
    src = src[:mt.start()]


def squash(s):
    return re.sub(r"\s+", "", s)


# ---- constants ------------------------------------------------------------------------------
max_not = int_const(src, "MAX_NOT_COMPLEMENT_DOCS")


def milli(text, what):
    t = text.replace("_", "").strip()
    if not re.fullmatch(r"-?\d+(\.\d*)?", t):
        die(f"c11_bm25_order: {what} = {text!r} is not a decimal literal")
    v = Fraction(t) * 1000
    if v.denominator != 1:
        die(f"c11_bm25_order: {what} = {text!r} is not a multiple of 0.001")
    return int(v)


max_k1 = milli(const_value(src, "MAX_K1"), "MAX_K1")
m = re.findall(r"BM25Params\s*\{\s*k1\s*:\s*([\d._]+)\s*,\s*b\s*:\s*([\d._]+)\s*\}", src)
if len(m) != 1:
    die(f"c11_bm25_order: expected one `BM25Params {{ k1: .., b: .. }}` literal (Default), found {len(m)}")
def_k1, def_b = milli(m[0][0], "default k1"), milli(m[0][1], "default b")

san = fn_body(src, "sanitized")
mk = re.search(r"self\s*\.\s*k1\s*\.\s*clamp\(\s*([^,]+),\s*([^)]+)\)", san)
mb = re.search(r"self\s*\.\s*b\s*\.\s*clamp\(\s*([^,]+),\s*([^)]+)\)", san)
if not mk or not mb:
    die("c11_bm25_order: clamp calls not found in BM25Params::sanitized")
if not (re.search(r"self\s*\.\s*k1\s*\.\s*is_finite\(\)", san) and re.search(r"self\s*\.\s*b\s*\.\s*is_finite\(\)", san)):
    die("c11_bm25_order: is_finite guards not found in BM25Params::sanitized")


def bound(text, what):
    t = text.strip()
    if t in ("Self::MAX_K1", "BM25Params::MAX_K1"):
        return max_k1
    return milli(t, what)


k1_lo, k1_hi = bound(mk.group(1), "k1 lower clamp"), bound(mk.group(2), "k1 upper clamp")
b_lo, b_hi = bound(mb.group(1), "b lower clamp"), bound(mb.group(2), "b upper clamp")
# scoring really uses the sanitized pair
st = fn_body(src, "score_term")
uses_sanitized = bool(re.search(r"let\s*\(\s*k1\s*,\s*b\s*\)\s*=\s*params\s*\.\s*sanitized\(\)", st))
avg_floor = re.search(r"avg_doc_tokens\(\)\s*\.\s*max\(\s*([\d._]+)\s*\)", st)
if not avg_floor:
    die("c11_bm25_order: `avg_doc_tokens().max(..)` not found in score_term")
avg_floor_milli = milli(avg_floor.group(1), "avg floor")

# ---- compare_scored_docs ----------------------------------------------------------------------
cmp = fn_body(src, "compare_scored_docs")
if not re.search(r"match\s*\(\s*a\s*\.\s*1\s*\.\s*is_nan\(\)\s*,\s*b\s*\.\s*1\s*\.\s*is_nan\(\)\s*\)", cmp):
    die("c11_bm25_order: `match (a.1.is_nan(), b.1.is_nan())` not found in compare_scored_docs")
arms = {}
for m in re.finditer(r"\(\s*(true|false)\s*,\s*(true|false)\s*\)\s*=>\s*([^\n]+(?:\n(?!\s*\()[^\n]*)*)", cmp):
    key = (m.group(1), m.group(2))
    rhs = squash(m.group(3)).rstrip(",").rstrip("}").rstrip(",")
    if key in arms:
        die(f"c11_bm25_order: arm {key} appears twice in compare_scored_docs")
    arms[key] = rhs
CLASS = {
    "a.0.cmp(&b.0)": "ids",
    "std::cmp::Ordering::Greater": "greater",
    "Ordering::Greater": "greater",
    "std::cmp::Ordering::Less": "less",
    "Ordering::Less": "less",
    "b.1.total_cmp(&a.1).then_with(||a.0.cmp(&b.0))": "scoreDescThenIds",
    "b.1.total_cmp(&a.1).then(a.0.cmp(&b.0))": "scoreDescThenIds",
    "a.1.total_cmp(&b.1).then_with(||a.0.cmp(&b.0))": "scoreAscThenIds",
    "a.1.total_cmp(&b.1).then(a.0.cmp(&b.0))": "scoreAscThenIds",
    "b.0.cmp(&a.0)": "idsDesc",
}
arm_list = []
for key in [("true", "true"), ("true", "false"), ("false", "true"), ("false", "false")]:
    if key not in arms:
        die(f"c11_bm25_order: arm {key} missing in compare_scored_docs")
    if arms[key] not in CLASS:
        die(f"c11_bm25_order: arm {key} of compare_scored_docs not recognised: {arms[key]}")
    arm_list.append((key, CLASS[arms[key]]))

# ---- top_k_results ------------------------------------------------------------------------------
tk = squash(fn_body(src, "top_k_results"))
steps = []
for name, pat in [
    ("selectNth", r"select_nth_unstable_by\(top_k-1,Self::compare_scored_docs\)"),
    ("truncate", r"truncate\(top_k\)"),
    ("sort", r"sort_unstable_by\(Self::compare_scored_docs\)|sort_by\(Self::compare_scored_docs\)"),
]:
    ms = list(re.finditer(pat, tk))
    if len(ms) != 1:
        die(f"c11_bm25_order: expected exactly one `{name}` step in top_k_results, found {len(ms)}")
    steps.append((ms[0].start(), name))
topk_shape = [n for _, n in sorted(steps)]

# ---- flush_with -----------------------------------------------------------------------------------
fl = fn_body(src, "flush_with")
flq = squash(fl)
markers = [
    ("bucketWrites", r"\bf\(BucketObject\{"),
    ("metaCommit", r"metadata_f\(meta_buf\)"),
    ("publishSavedVersion", r"last_saved_version\.fetch_max\("),
    ("publishManifest", r"m\.buckets=manifest"),
    ("markSaved", r"mark_bucket_saved\("),
]
pos = []
for name, pat in markers:
    ms = list(re.finditer(pat, flq))
    if len(ms) != 1:
        die(f"c11_bm25_order: expected exactly one `{name}` marker in flush_with, found {len(ms)}")
    pos.append((ms[0].start(), name))
flush_order = [n for _, n in sorted(pos)]
gen_is_version = bool(re.search(r"letgeneration=meta\.stats\.version;", flq))
writes_use_generation = bool(re.search(r"\bf\(BucketObject\{bucket_id:snapshot\.bucket_id,generation,?\}", flq))
dirty_sorted = bool(re.search(r"dirty\.sort_unstable_by_key\(\|snapshot\|snapshot\.bucket_id\)|dirty\.sort_by_key\(\|snapshot\|snapshot\.bucket_id\)", flq))
# every await of a callback propagates its error with `?` (no in-memory publication after a failed write)
awaits = re.findall(r"\.await\.map_err\([^;]*?\)\?;", flq)
errors_propagate = len(awaits) >= 2

# ---- load_buckets -----------------------------------------------------------------------------------
lb = squash(fn_body(src, "load_buckets"))
legacy_switch = bool(re.search(r"letlegacy=manifest\.is_empty\(\);", lb))
legacy_probe = bool(re.search(r"\(0\.\.=self\.max_bucket_id\.load\(Ordering::Relaxed\)\)\.map\(\|bucket_id\|BucketObject\{bucket_id,generation:0,?\}\)", lb))


def lean_bool(b):
    return "true" if b else "false"


arm_text = ", ".join(f"(({a}, {b}), .{c})" for (a, b), c in arm_list)
text = f"""/- GENERATED by bin/translate/c11_bm25_order.py from rs/anda_db_tfs/src/bm25.rs — do not edit. -/
namespace AndaVerif.Gen.Bm25Order

/-- `MAX_NOT_COMPLEMENT_DOCS` -/
def maxNotComplementDocs : Nat := {max_not}

/-- `BM25Params::MAX_K1`, the defaults and the clamp bounds of `sanitized`, in thousandths -/
def maxK1Milli : Nat := {max_k1}
def defaultK1Milli : Nat := {def_k1}
def defaultBMilli : Nat := {def_b}
def k1ClampMilli : Int × Int := ({k1_lo}, {k1_hi})
def bClampMilli : Int × Int := ({b_lo}, {b_hi})
/-- `score_term` takes `(k1, b)` from `params.sanitized()` and floors the average length -/
def scoreUsesSanitized : Bool := {lean_bool(uses_sanitized)}
def avgFloorMilli : Nat := {avg_floor_milli}

/-- right-hand sides of `compare_scored_docs` -/
inductive Arm where
  | ids | idsDesc | greater | less | scoreDescThenIds | scoreAscThenIds
  deriving DecidableEq, Repr

/-- `match (a.1.is_nan(), b.1.is_nan())` -/
def cmpArms : List ((Bool × Bool) × Arm) := [{arm_text}]

/-- the steps of `top_k_results`, all with `compare_scored_docs` -/
inductive TopKStep where
  | selectNth | truncate | sort
  deriving DecidableEq, Repr
def topKShape : List TopKStep := [{", ".join("." + s for s in topk_shape)}]

/-- effects of `flush_with` in textual order -/
inductive FlushStep where
  | bucketWrites | metaCommit | publishSavedVersion | publishManifest | markSaved
  deriving DecidableEq, Repr
def flushOrder : List FlushStep := [{", ".join("." + s for s in flush_order)}]
/-- `let generation = meta.stats.version;` and every bucket write addresses `(bucket_id, generation)` -/
def generationIsStatsVersion : Bool := {lean_bool(gen_is_version and writes_use_generation)}
/-- `dirty.sort_unstable_by_key(|snapshot| snapshot.bucket_id)` -/
def dirtySortedByBucketId : Bool := {lean_bool(dirty_sorted)}
/-- both callback awaits propagate their error with `?` before anything is published in memory -/
def callbackErrorsPropagate : Bool := {lean_bool(errors_propagate)}
/-- `load_buckets`: `legacy = manifest.is_empty()` selects the probe `(0..=max_bucket_id, generation 0)` -/
def legacyWhenManifestEmpty : Bool := {lean_bool(legacy_switch and legacy_probe)}

theorem gen_cmpArms : cmpArms =
    [((true, true), .ids), ((true, false), .greater), ((false, true), .less), ((false, false), .scoreDescThenIds)] := by decide
theorem gen_topKShape : topKShape = [.selectNth, .truncate, .sort] := by decide
theorem gen_flushOrder : flushOrder = [.bucketWrites, .metaCommit, .publishSavedVersion, .publishManifest, .markSaved] := by decide
theorem gen_generationIsStatsVersion : generationIsStatsVersion = true := by decide
theorem gen_dirtySortedByBucketId : dirtySortedByBucketId = true := by decide
theorem gen_callbackErrorsPropagate : callbackErrorsPropagate = true := by decide
theorem gen_legacyWhenManifestEmpty : legacyWhenManifestEmpty = true := by decide
theorem gen_sanitized : scoreUsesSanitized = true ∧ k1ClampMilli = (0, (maxK1Milli : Int)) ∧ bClampMilli = (0, 1000)
    ∧ defaultK1Milli ≤ maxK1Milli ∧ defaultBMilli ≤ 1000 ∧ avgFloorMilli = 1000 := by decide
theorem gen_maxNotComplementDocs_pos : 0 < maxNotComplementDocs := by decide

end AndaVerif.Gen.Bm25Order
"""
write_gen(gen, "Bm25Order.lean", text)
