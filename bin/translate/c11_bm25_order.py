#!/usr/bin/env python3
"""C11: regenerates from rs/anda_db_tfs/src/bm25.rs the data-like parts of the BM25 model:

* `MAX_NOT_COMPLEMENT_DOCS`, `BM25Params::MAX_K1`, the default `(k1, b)` and the clamp bounds of
  `BM25Params::sanitized` (as thousandths), incl. which branch is taken for a finite value;
* the decision table of `compare_scored_docs` over (first score NaN?, second score NaN?), each result
  classified as ids / greater / less / score-descending-then-ids / score-ascending-then-ids;
* the shape of `top_k_results` (select_nth at `k - 1`, truncate to `k`, final sort, all with
  `compare_scored_docs`);
* the order of effects inside `flush_with`: bucket object writes, the metadata commit, and the
  in-memory publication (last_saved_version, manifest, mark_bucket_saved); the generation expression;
  the ascending bucket order of the writes;
* `load_buckets`: the legacy switch (manifest empty -> probe `0..=max_bucket_id` at generation 0).

Keys on what is called (method / field / constant names), on nesting and on first-occurrence order —
never on the names of locals, parameters or closure variables, on comments, or on whether a block
lives in a private helper (helpers defined in the same file are inlined) or how a decision is spelled
(`match` on a tuple in any arm order, `if`/`else if` chains, nested ifs, aliases bound by `let`).
Strict about meaning: a marker that is missing, duplicated or unclassifiable is an error."""
import re, sys
from fractions import Fraction
from common import *

repo, gen = sys.argv[1], sys.argv[2]
src = cut_tests(strip_rust_comments(read_source(repo, "rs/anda_db_tfs/src/bm25.rs")))
ME = "c11_bm25_order"


def squash(s):
    return re.sub(r"\s+", "", s)


# calls that the scans below use as markers themselves: never inlined
KEEP = {"update_metadata", "mark_bucket_saved", "avg_doc_tokens", "compare_scored_docs", "sanitized",
        "serialize_bucket", "collect_dirty_buckets", "metadata", "has_dirty_buckets", "has_pending_metadata_flush",
        "default", "new", "len", "is_empty"}


def inlined(name, max_depth=5, _stack=()):
    """like common.inlined_body (private helpers of the same file are textually inlined, recursively),
    except that the calls in KEEP stay calls"""
    body = try_fn_body(src, name)
    if body is None:
        die(f"{ME}: fn {name} not found")
    if len(_stack) >= max_depth:
        return body
    names = set(all_fn_names(src)) - {name} - set(_stack) - KEEP
    out, i = [], 0
    pat = re.compile(r"(?:\bself\s*\.\s*|\bSelf::\s*|\bBucket::\s*|(?<![\w.:]))([A-Za-z_][A-Za-z0-9_]*)\s*(?:::<[^>()]*>)?\(")
    while True:
        m = pat.search(body, i)
        if not m:
            out.append(body[i:]); break
        callee = m.group(1)
        if callee not in names or body[max(0, m.start() - 3):m.start()].strip().endswith("fn"):
            out.append(body[i:m.end()]); i = m.end(); continue
        j, depth = m.end(), 1
        while j < len(body) and depth:
            if body[j] in "([{": depth += 1
            elif body[j] in ")]}": depth -= 1
            j += 1
        inner = inlined(callee, max_depth, _stack + (name,))
        out.append(body[i:m.start()] + "{ /*" + callee + "*/ " + body[m.end():j - 1] + " ; " + inner + " }")
        i = j
    return "".join(out)


# ---------------------------------------------------------------------------------------------
# a little structure reader (on comment-stripped text)
# ---------------------------------------------------------------------------------------------

def match_brace(text, i):
    """text[i] is an opening bracket; returns the index just after its partner"""
    pairs = {"{": "}", "(": ")", "[": "]"}
    depth, j = 0, i
    while j < len(text):
        c = text[j]
        if c in pairs:
            depth += 1
        elif c in pairs.values():
            depth -= 1
            if depth == 0:
                return j + 1
        j += 1
    die(f"{ME}: unbalanced brackets")


def fn_signature(name):
    m = re.search(r"\bfn\s+" + re.escape(name) + r"\b", src)
    if not m:
        die(f"{ME}: fn {name} not found")
    i = src.index("(", m.end())
    j = match_brace(src, i)
    k = src.index("{", j)
    return src[i + 1:j - 1], src[j:k]   # parameter list, return type + where clause


def params_of(name):
    """[(param name, type text)] of fn `name` (without self)"""
    plist, _ = fn_signature(name)
    out, depth, cur = [], 0, ""
    for c in plist + ",":
        if c in "(<[{":
            depth += 1
        elif c in ")>]}":
            depth -= 1
        if c == "," and depth == 0:
            cur = cur.strip()
            if cur and not re.fullmatch(r"&?\s*(mut\s+)?self", cur):
                pm = re.match(r"(?:mut\s+)?([A-Za-z_]\w*)\s*:\s*(.*)", cur, re.S)
                if not pm:
                    die(f"{ME}: cannot read parameter `{cur}` of {name}")
                out.append((pm.group(1), pm.group(2).strip()))
            cur = ""
        else:
            cur += c
    return out


def read_if(text):
    """text starts with `if`; returns (condition, then-inner, else-text or None, rest after the whole if)"""
    i = text.index("{")
    # the condition may itself contain braces only in closures/struct literals: not expected here
    cond = text[2:i].strip()
    j = match_brace(text, i)
    then_inner = text[i + 1:j - 1]
    rest = text[j:].lstrip()
    if rest.startswith("else"):
        r2 = rest[4:].lstrip()
        if r2.startswith("if") and not r2[2:3].isalnum() and r2[2:3] != "_":
            c2, t2, e2, after = read_if(r2)
            consumed = len(r2) - len(after)
            return cond, then_inner, r2[:consumed], after
        if r2.startswith("{"):
            k = match_brace(r2, 0)
            return cond, then_inner, r2[1:k - 1], r2[k:]
        die(f"{ME}: cannot read the else branch")
    return cond, then_inner, None, rest


def eval_bool(cond, env):
    """evaluates a Rust boolean expression over the names in env (&&, ||, !, parentheses, true/false)"""
    e = cond
    e = e.replace("&&", " and ").replace("||", " or ")
    e = re.sub(r"!(?!=)", " not ", e)
    e = re.sub(r"\btrue\b", "True", e)
    e = re.sub(r"\bfalse\b", "False", e)
    names = set(re.findall(r"[A-Za-z_]\w*", e)) - {"and", "or", "not", "True", "False"}
    if not names <= set(env):
        die(f"{ME}: condition `{cond.strip()}` uses something else than the expected flags")
    try:
        return bool(eval(e, {"__builtins__": {}}, dict(env)))
    except Exception:
        die(f"{ME}: cannot evaluate condition `{cond.strip()}`")


def pat_matches(pat, val):
    pat = pat.strip()
    return pat == "_" or pat == ("true" if val else "false")


def decide(text, env, scrutinee_names):
    """follows if / match decisions over the flags in env down to the leaf expression"""
    t = text.strip()
    while t.startswith("{") and match_brace(t, 0) == len(t):
        t = t[1:-1].strip()
    if t.startswith("return"):
        t = t[6:].strip()
    t = t.rstrip(";").strip()
    if re.match(r"if\b", t):
        cond, then_inner, else_text, rest = read_if(t)
        if rest.strip().strip(";"):
            # `if c { return x; } <more>`: the rest is the implicit else
            if else_text is None:
                else_text = rest
            else:
                die(f"{ME}: statements after an if/else in a decision")
        if eval_bool(cond, env):
            return decide(then_inner, env, scrutinee_names)
        if else_text is None:
            die(f"{ME}: decision without an else branch")
        return decide(else_text, env, scrutinee_names)
    m = re.match(r"match\s*", t)
    if m:
        i = t.index("{")
        scrut = squash(t[m.end():i])
        j = match_brace(t, i)
        if t[j:].strip():
            die(f"{ME}: statements after a match in a decision")
        sm = re.fullmatch(r"\(?([A-Za-z_]\w*)(?:,([A-Za-z_]\w*))?\)?", scrut)
        if not sm or any(g and g not in env for g in sm.groups()):
            die(f"{ME}: match scrutinee `{scrut}` is not made of the expected flags")
        flags = [g for g in sm.groups() if g]
        body = t[i + 1:j - 1]
        # arms: pattern => expr, at depth 0
        k = 0
        while k < len(body):
            am = re.compile(r"\s*(\(?\s*(?:true|false|_)\s*(?:,\s*(?:true|false|_)\s*)?\)?)\s*=>\s*").match(body, k)
            if not am:
                if body[k:].strip():
                    die(f"{ME}: cannot read match arm near `{body[k:k+40].strip()}`")
                break
            k = am.end()
            # arm body: up to the next top-level comma (or a block)
            if body[k] == "{":
                e = match_brace(body, k)
                arm, k = body[k:e], e
                if k < len(body) and body[k:].lstrip().startswith(","):
                    k = body.index(",", k) + 1
            else:
                depth, e = 0, k
                while e < len(body) and not (body[e] == "," and depth == 0):
                    if body[e] in "([{":
                        depth += 1
                    elif body[e] in ")]}":
                        depth -= 1
                    e += 1
                arm, k = body[k:e], e + 1
            pats = [p for p in re.sub(r"[()\s]", "", am.group(1)).split(",")]
            if len(pats) == len(flags) and all(pat_matches(p, env[f]) for p, f in zip(pats, flags)):
                return decide(arm, env, scrutinee_names)
        die(f"{ME}: no match arm covers {env}")
    return squash(t)


# ---- constants ------------------------------------------------------------------------------
max_not = int_const(src, "MAX_NOT_COMPLEMENT_DOCS")


def milli(text, what):
    t = text.replace("_", "").strip()
    if not re.fullmatch(r"-?\d+(\.\d*)?", t):
        die(f"{ME}: {what} = {text!r} is not a decimal literal")
    v = Fraction(t) * 1000
    if v.denominator != 1:
        die(f"{ME}: {what} = {text!r} is not a multiple of 0.001")
    return int(v)


max_k1 = milli(const_value(src, "MAX_K1"), "MAX_K1")
dm = re.search(r"impl\s+Default\s+for\s+BM25Params\s*\{", src)
if not dm:
    die(f"{ME}: `impl Default for BM25Params` not found")
dblock = src[dm.end() - 1:match_brace(src, dm.end() - 1)]
lit = re.findall(r"BM25Params\s*\{([^{}]*)\}", dblock)
if len(lit) != 1:
    die(f"{ME}: expected one `BM25Params {{ .. }}` literal in Default, found {len(lit)}")
mk1 = re.search(r"\bk1\s*:\s*([\d._]+)", lit[0])
mb0 = re.search(r"\bb\s*:\s*([\d._]+)", lit[0])
if not mk1 or not mb0:
    die(f"{ME}: default k1 / b literals not found")
def_k1, def_b = milli(mk1.group(1), "default k1"), milli(mb0.group(1), "default b")

san = inlined("sanitized")


def bound(text, what):
    t = text.strip()
    if t in ("Self::MAX_K1", "BM25Params::MAX_K1"):
        return max_k1
    return milli(t, what)


def clamp_of(field):
    """(lo, hi) of `self.<field>.clamp(lo, hi)`, which must sit in the branch taken for a finite value"""
    m = re.search(r"self\s*\.\s*" + field + r"\s*\.\s*clamp\(\s*([^,]+),\s*([^)]+)\)", san)
    if not m:
        die(f"{ME}: `self.{field}.clamp(..)` not found in BM25Params::sanitized")
    # the enclosing if: its condition must mention self.<field>.is_finite()
    ifs = [x for x in re.finditer(r"\bif\b", san) if x.start() < m.start()]
    ok = False
    for x in reversed(ifs):
        cond, then_inner, else_text, _ = read_if(san[x.start():])
        if not re.search(r"self\s*\.\s*" + field + r"\s*\.\s*is_finite\(\)", cond):
            continue
        finite_branch = then_inner if eval_bool(re.sub(r"self\s*\.\s*" + field + r"\s*\.\s*is_finite\(\)", "FIN", cond), {"FIN": True}) else (else_text or "")
        other = (else_text or "") if finite_branch is then_inner else then_inner
        if "clamp" in finite_branch and "clamp" not in other:
            ok = True
        break
    if not ok:
        die(f"{ME}: `self.{field}.clamp(..)` is not what BM25Params::sanitized returns for a finite {field}")
    return bound(m.group(1), f"{field} lower clamp"), bound(m.group(2), f"{field} upper clamp")


k1_lo, k1_hi = clamp_of("k1")
b_lo, b_hi = clamp_of("b")
st = inlined("score_term")
uses_sanitized = bool(re.search(r"let\s*\(\s*(?:mut\s+)?\w+\s*,\s*(?:mut\s+)?\w+\s*\)\s*=\s*\w+\s*\.\s*sanitized\(\)", st))
avg_floor = re.search(r"avg_doc_tokens\(\)\s*\.\s*max\(\s*([\d._]+)\s*\)", st)
if not avg_floor:
    die(f"{ME}: `avg_doc_tokens().max(..)` not found in score_term")
avg_floor_milli = milli(avg_floor.group(1), "avg floor")

# ---- compare_scored_docs ----------------------------------------------------------------------
cps = params_of("compare_scored_docs")
if len(cps) != 2:
    die(f"{ME}: compare_scored_docs does not take two parameters")
pa, pb = cps[0][0], cps[1][0]
cmp_body = inlined("compare_scored_docs")
# canonical names for what the parameters hold
alias = {}   # local name -> canonical expression
for name, canon in ((pa, "A"), (pb, "B")):
    for dm_ in re.finditer(r"let\s*\(\s*(\w+)\s*,\s*(\w+)\s*\)\s*=\s*\*?\s*" + re.escape(name) + r"\s*;", cmp_body):
        alias[dm_.group(1)] = f"ID_{canon}"
        alias[dm_.group(2)] = f"SC_{canon}"
    for dm_ in re.finditer(r"let\s*&?\s*\(\s*(\w+)\s*,\s*(\w+)\s*\)\s*=\s*" + re.escape(name) + r"\s*;", cmp_body):
        alias[dm_.group(1)] = f"ID_{canon}"
        alias[dm_.group(2)] = f"SC_{canon}"


def canon_expr(t):
    t = re.sub(r"\b" + re.escape(pa) + r"\s*\.\s*0\b", "ID_A", t)
    t = re.sub(r"\b" + re.escape(pa) + r"\s*\.\s*1\b", "SC_A", t)
    t = re.sub(r"\b" + re.escape(pb) + r"\s*\.\s*0\b", "ID_B", t)
    t = re.sub(r"\b" + re.escape(pb) + r"\s*\.\s*1\b", "SC_B", t)
    for k, v in alias.items():
        t = re.sub(r"(?<![\w.])" + re.escape(k) + r"\b", v, t)
    t = re.sub(r"\(?\*?SC_A\)?\s*\.\s*is_nan\(\)", "NAN_A", t)
    t = re.sub(r"\(?\*?SC_B\)?\s*\.\s*is_nan\(\)", "NAN_B", t)
    return t


body_c = canon_expr(cmp_body)
# boolean aliases: `let x = NAN_A;`
for dm_ in re.finditer(r"let\s+(\w+)\s*(?::\s*bool\s*)?=\s*(NAN_A|NAN_B)\s*;", body_c):
    alias[dm_.group(1)] = dm_.group(2)
body_c = canon_expr(cmp_body)
# drop the let statements that only introduce aliases
body_c = re.sub(r"let\s*&?\s*\(\s*\w+\s*,\s*\w+\s*\)\s*=\s*\*?\s*\w+\s*;", "", body_c)
body_c = re.sub(r"let\s+\w+\s*(?::\s*bool\s*)?=\s*(NAN_A|NAN_B)\s*;", "", body_c)
if "NAN_A" not in body_c or "NAN_B" not in body_c:
    die(f"{ME}: compare_scored_docs does not test both scores with is_nan()")
CLASS = {
    "ID_A.cmp(&ID_B)": "ids",
    "ID_B.cmp(&ID_A)": "idsDesc",
    "std::cmp::Ordering::Greater": "greater",
    "Ordering::Greater": "greater",
    "std::cmp::Ordering::Less": "less",
    "Ordering::Less": "less",
    "SC_B.total_cmp(&SC_A).then_with(||ID_A.cmp(&ID_B))": "scoreDescThenIds",
    "SC_B.total_cmp(&SC_A).then(ID_A.cmp(&ID_B))": "scoreDescThenIds",
    "SC_A.total_cmp(&SC_B).then_with(||ID_A.cmp(&ID_B))": "scoreAscThenIds",
    "SC_A.total_cmp(&SC_B).then(ID_A.cmp(&ID_B))": "scoreAscThenIds",
}
arm_list = []
for na, nb in [(True, True), (True, False), (False, True), (False, False)]:
    leaf = decide(body_c, {"NAN_A": na, "NAN_B": nb}, ("NAN_A", "NAN_B"))
    if leaf not in CLASS:
        die(f"{ME}: result of compare_scored_docs for (nan={na}, nan={nb}) not recognised: {leaf}")
    arm_list.append(((str(na).lower(), str(nb).lower()), CLASS[leaf]))

# ---- top_k_results ------------------------------------------------------------------------------
tps = params_of("top_k_results")
if len(tps) != 2:
    die(f"{ME}: top_k_results does not take two parameters")
kname = re.escape(tps[1][0])
tk = squash(inlined("top_k_results"))
steps = []
CMPF = r"(?:Self::)?compare_scored_docs"
for name, pat in [
    ("selectNth", r"select_nth_unstable_by\(" + kname + r"-1," + CMPF + r"\)"),
    ("truncate", r"truncate\(" + kname + r"\)"),
    ("sort", r"sort(?:_unstable)?_by\(" + CMPF + r"\)"),
]:
    ms = list(re.finditer(pat, tk))
    if len(ms) != 1:
        die(f"{ME}: expected exactly one `{name}` step in top_k_results, found {len(ms)}")
    steps.append((ms[0].start(), name))
topk_shape = [n for _, n in sorted(steps)]

# ---- flush_with -----------------------------------------------------------------------------------
fps = params_of("flush_with")
_, where = fn_signature("flush_with")
bucket_ty = re.search(r"\b(\w+)\s*:\s*FnMut\(\s*BucketObject\s*,\s*Vec<u8>\s*\)", where)
meta_ty = re.search(r"\b(\w+)\s*:\s*FnOnce\(\s*Vec<u8>\s*\)", where)
if not bucket_ty or not meta_ty:
    die(f"{ME}: callback bounds `FnMut(BucketObject, Vec<u8>)` / `FnOnce(Vec<u8>)` not found on flush_with")
bucket_cb = [n for n, t in fps if squash(t) == bucket_ty.group(1)]
meta_cb = [n for n, t in fps if squash(t) == meta_ty.group(1)]
if len(bucket_cb) != 1 or len(meta_cb) != 1:
    die(f"{ME}: cannot tell the bucket writer from the metadata writer among flush_with's parameters")
bucket_cb, meta_cb = bucket_cb[0], meta_cb[0]
flq = squash(inlined("flush_with"))


def one(pat, what):
    ms = list(re.finditer(pat, flq))
    if len(ms) != 1:
        die(f"{ME}: expected exactly one `{what}` marker in flush_with, found {len(ms)}")
    return ms[0]


m_write = one(r"(?<![\w.])" + re.escape(bucket_cb) + r"\(", "bucket writer call")
m_meta = one(r"(?<![\w.])" + re.escape(meta_cb) + r"\(", "metadata writer call")
m_saved = one(r"last_saved_version\.fetch_max\(", "last_saved_version.fetch_max")
m_mark = one(r"mark_bucket_saved\(", "mark_bucket_saved")
# the update_metadata closure that assigns the manifest
pub = [x for x in re.finditer(r"update_metadata\(\|(\w+)\|", flq)
       if re.search(r"(?<![\w.])" + re.escape(x.group(1)) + r"\.buckets=", flq[x.end():match_brace(flq, x.end() - len(x.group(1)) - 3)])]
if len(pub) != 1:
    die(f"{ME}: expected exactly one `update_metadata(|m| … m.buckets = …)` in flush_with, found {len(pub)}")
pos = [(m_write.start(), "bucketWrites"), (m_meta.start(), "metaCommit"), (m_saved.start(), "publishSavedVersion"),
       (pub[0].start(), "publishManifest"), (m_mark.start(), "markSaved")]
flush_order = [n for _, n in sorted(pos)]

# generation: the written objects carry G where `let G = M.stats.version;` and M is what gets serialised
gen_ok = False
ser = re.search(r"BM25IndexRef\{metadata:&(\w+)\}", flq)
if ser:
    for g in re.finditer(r"let(\w+)=" + re.escape(ser.group(1)) + r"\.stats\.version;", flq):
        G = g.group(1)
        cons = r"BucketObject\{[^{}]*\bgeneration" + (r"(?::" + re.escape(G) + r")?" if G == "generation" else r":" + re.escape(G)) + r"\s*,?\s*[^{}]*\}"
        c = re.search(cons, flq[g.end():m_meta.start()])
        if c:
            gen_ok = True
dirty_sorted = bool(re.search(r"\w+\.sort(?:_unstable)?_by_key\(\|(\w+)\|\1\.bucket_id\)", flq[:m_write.start()]))


def propagates(m):
    """the callback call's statement awaits and ends in `?;`"""
    end = match_brace(flq, m.end() - 1)
    depth, stmt_end = 0, end
    while stmt_end < len(flq) and not (flq[stmt_end] == ";" and depth == 0):
        if flq[stmt_end] in "([{":
            depth += 1
        elif flq[stmt_end] in ")]}":
            depth -= 1
        stmt_end += 1
    tail = flq[end:stmt_end + 1]
    return tail.startswith(".await") and tail.endswith("?;")


errors_propagate = propagates(m_write) and propagates(m_meta)

# ---- load_buckets -----------------------------------------------------------------------------------
lb = inlined("load_buckets")
if not re.search(r"metadata\s*\.\s*read\(\)\s*\.\s*buckets|\.buckets\s*\.\s*clone\(\)", lb):
    die(f"{ME}: load_buckets does not read the manifest (`metadata.read().buckets`)")
legacy_alias = {}
for dm_ in re.finditer(r"let\s+(\w+)\s*(?::\s*bool\s*)?=\s*(!?)\s*(\w+)\s*\.\s*is_empty\(\)\s*;", lb):
    legacy_alias[dm_.group(1)] = "(not EMPTY)" if dm_.group(2) else "EMPTY"
probe = re.search(r"\(\s*0\s*\.\.=\s*self\s*\.\s*max_bucket_id\s*\.\s*load\(", lb)
legacy_flag = False
if probe and re.search(r"generation\s*:\s*0\b", lb[probe.start():probe.start() + 400]):
    for x in reversed([x for x in re.finditer(r"\bif\b", lb) if x.start() < probe.start()]):
        cond, then_inner, else_text, _ = read_if(lb[x.start():])
        span_then = (lb.index(then_inner, x.start()), lb.index(then_inner, x.start()) + len(then_inner))
        in_then = span_then[0] <= probe.start() < span_then[1]
        in_else = else_text is not None and (else_text in lb[span_then[1]:]) and not in_then and \
            lb.index(else_text, span_then[1]) <= probe.start() < lb.index(else_text, span_then[1]) + len(else_text)
        if not (in_then or in_else):
            continue
        c = re.sub(r"\b\w+\s*\.\s*is_empty\(\)", "EMPTY", cond)
        for k, v in legacy_alias.items():
            c = re.sub(r"(?<![\w.])" + re.escape(k) + r"\b", v, c)
        c = c.replace("(not EMPTY)", "!EMPTY")
        if set(re.findall(r"[A-Za-z_]\w*", c)) - {"EMPTY"}:
            die(f"{ME}: the legacy switch of load_buckets depends on something else than the manifest being empty: `{cond.strip()}`")
        taken_when_empty = eval_bool(c, {"EMPTY": True})
        legacy_flag = (taken_when_empty and in_then) or ((not taken_when_empty) and in_else)
        break


def lean_bool(b):
    return "true" if b else "false"


arm_text = ", ".join(f"(({a}, {b}), .{c})" for (a, b), c in arm_list)
text = f"""/- GENERATED by bin/translate/c11_bm25_order.py from rs/anda_db_tfs/src/bm25.rs — do not edit. -/
namespace AndaVerif.Gen.Bm25Order

/-- `MAX_NOT_COMPLEMENT_DOCS` -/
def maxNotComplementDocs : Nat := {max_not}

/-- `BM25Params::MAX_K1`, the defaults and the clamp bounds of `sanitized`, in thousandths -/
def maxK1Milli : Nat := {max_k1}
def defaultK1Milli : Nat := {def_k1}
def defaultBMilli : Nat := {def_b}
def k1ClampMilli : Int × Int := ({k1_lo}, {k1_hi})
def bClampMilli : Int × Int := ({b_lo}, {b_hi})
/-- `score_term` takes `(k1, b)` from `params.sanitized()` and floors the average length -/
def scoreUsesSanitized : Bool := {lean_bool(uses_sanitized)}
def avgFloorMilli : Nat := {avg_floor_milli}

/-- right-hand sides of `compare_scored_docs` -/
inductive Arm where
  | ids | idsDesc | greater | less | scoreDescThenIds | scoreAscThenIds
  deriving DecidableEq, Repr

/-- `match (a.1.is_nan(), b.1.is_nan())` -/
def cmpArms : List ((Bool × Bool) × Arm) := [{arm_text}]

/-- the steps of `top_k_results`, all with `compare_scored_docs` -/
inductive TopKStep where
  | selectNth | truncate | sort
  deriving DecidableEq, Repr
def topKShape : List TopKStep := [{", ".join("." + s for s in topk_shape)}]

/-- effects of `flush_with` in textual order -/
inductive FlushStep where
  | bucketWrites | metaCommit | publishSavedVersion | publishManifest | markSaved
  deriving DecidableEq, Repr
def flushOrder : List FlushStep := [{", ".join("." + s for s in flush_order)}]
/-- `let generation = meta.stats.version;` and every bucket write addresses `(bucket_id, generation)` -/
def generationIsStatsVersion : Bool := {lean_bool(gen_ok)}
/-- `dirty.sort_unstable_by_key(|snapshot| snapshot.bucket_id)` -/
def dirtySortedByBucketId : Bool := {lean_bool(dirty_sorted)}
/-- both callback awaits propagate their error with `?` before anything is published in memory -/
def callbackErrorsPropagate : Bool := {lean_bool(errors_propagate)}
/-- `load_buckets`: `legacy = manifest.is_empty()` selects the probe `(0..=max_bucket_id, generation 0)` -/
def legacyWhenManifestEmpty : Bool := {lean_bool(legacy_flag)}

theorem gen_cmpArms : cmpArms =
    [((true, true), .ids), ((true, false), .greater), ((false, true), .less), ((false, false), .scoreDescThenIds)] := by decide
theorem gen_topKShape : topKShape = [.selectNth, .truncate, .sort] := by decide
theorem gen_flushOrder : flushOrder = [.bucketWrites, .metaCommit, .publishSavedVersion, .publishManifest, .markSaved] := by decide
theorem gen_generationIsStatsVersion : generationIsStatsVersion = true := by decide
theorem gen_dirtySortedByBucketId : dirtySortedByBucketId = true := by decide
theorem gen_callbackErrorsPropagate : callbackErrorsPropagate = true := by decide
theorem gen_legacyWhenManifestEmpty : legacyWhenManifestEmpty = true := by decide
theorem gen_sanitized : scoreUsesSanitized = true ∧ k1ClampMilli = (0, (maxK1Milli : Int)) ∧ bClampMilli = (0, 1000)
    ∧ defaultK1Milli ≤ maxK1Milli ∧ defaultBMilli ≤ 1000 ∧ avgFloorMilli = 1000 := by decide
theorem gen_maxNotComplementDocs_pos : 0 < maxNotComplementDocs := by decide

end AndaVerif.Gen.Bm25Order
"""
write_gen(gen, "Bm25Order.lean", text)
